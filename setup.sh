#!/bin/sh
# Offline setup: parse every specification with SANY and smoke-test the harness imports.
cd "$(dirname "$0")" || exit 2
fail=0
for f in spec/*.tla; do
  m=$(basename "$f" .tla)
  (cd spec && java -DTLA-Library=/opt/veriftools/tlapm/lib/tlapm/stdlib -cp /opt/veriftools/tla/tla2tools.jar:/opt/veriftools/tla/CommunityModules-deps.jar tla2sany.SANY "$m.tla" >/tmp/sany.$$ 2>&1) || { echo "SANY failed: $m"; tail -5 /tmp/sany.$$; fail=1; }
  if grep -q "Fatal errors\|\*\*\* Errors" /tmp/sany.$$; then echo "SANY errors: $m"; grep -A3 "Errors" /tmp/sany.$$ | head; fail=1; fi
done
rm -f /tmp/sany.$$
PYTHONPATH="$(pwd)" /venv/bin/python -c "import harness.common, harness.layerb; import pydrex" || fail=1
mkdir -p evidence
exit $fail
