"""python3 tools/confirm_seeded.py <prop> <worktree> <k> [checks...]
Confirm a seeded change independently (in its scratch worktree): the patch applies, the demo fails with
it and passes without it, the pinned test suite still passes with it. Then store it under
/verif/seeded/<prop>-<k>/ and run the given checks against a scratch copy with the patch applied."""
import json, os, shutil, subprocess, sys
prop, wt, k = sys.argv[1], sys.argv[2], sys.argv[3]
checks = sys.argv[4:] or [prop]
env = dict(os.environ, PYTHONPATH=wt + "/src")
def sh(cmd, **kw):
    return subprocess.run(cmd, shell=True, cwd=wt, env=env, capture_output=True, text=True, **kw)
res = {"property": prop, "k": int(k)}
sh("git checkout -- .")
r = sh(f"git apply --check patch{k}.diff"); res["applies"] = r.returncode == 0
r0 = sh(f"/venv/bin/python demo{k}.py", timeout=900); res["demo_without_change"] = r0.returncode
sh(f"git apply patch{k}.diff")
r1 = sh(f"/venv/bin/python demo{k}.py", timeout=900); res["demo_with_change"] = r1.returncode
res["demo_message"] = (r1.stdout + r1.stderr).strip().splitlines()[-1][:300] if (r1.stdout + r1.stderr).strip() else ""
t = sh("/venv/bin/python -m pytest -q -p no:cacheprovider --timeout=900 -n 6 2>&1 | tail -1", timeout=3000)
res["test_suite"] = t.stdout.strip()
sh("git checkout -- .")
ok = res["applies"] and res["demo_without_change"] == 0 and res["demo_with_change"] != 0 and "74 passed" in res["test_suite"] and "failed" not in res["test_suite"]
res["confirmed"] = bool(ok)
dst = f"/verif/seeded/{prop}-{k}"
os.makedirs(dst, exist_ok=True)
shutil.copy(f"{wt}/patch{k}.diff", f"{dst}/patch.diff")
shutil.copy(f"{wt}/demo{k}.py", f"{dst}/demo.py")
meta = json.load(open(f"{wt}/meta{k}.json")) if os.path.exists(f"{wt}/meta{k}.json") else {}
det = {}
if ok:
    for c in checks:
        r = subprocess.run(["python3", "/verif/tools/mutcheck.py", "--patch", f"{dst}/patch.diff", "--", c], capture_output=True, text=True, cwd="/verif")
        det[c] = r.stdout.strip()[:400]
meta.update({"breaks_property": prop, "confirmation": res, "what_i_ran": [f"git apply patch.diff in a scratch worktree; demo.py (exit {res['demo_with_change']} with / {res['demo_without_change']} without); pytest -n 6 ({res['test_suite']})", "python3 tools/mutcheck.py --patch patch.diff -- " + " ".join(checks)], "checks_result": det})
json.dump(meta, open(f"{dst}/meta.json", "w"), indent=1)
print(json.dumps({"confirmed": ok, **res, "checks": det}, indent=1))
