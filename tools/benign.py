"""python3 tools/benign.py <worktree> <Bk> <check> [<check> ...]
Store the harmless (property-preserving) changes an independent agent wrote in <worktree> (benign1..3.diff,
benign.json) under /verif/benign/<Bk>-<k>/ and run the given quick checks against a scratch copy of /repo/src
with each change applied (tools/mutcheck.py; /repo untouched).  A check that does not exit 0 on such a change is
a FALSE ALARM of the machinery (or the change is not harmless after all - decided by reading it).
Results are written to /verif/benign/<Bk>-<k>/meta.json."""
import json, os, shutil, subprocess, sys
from concurrent.futures import ThreadPoolExecutor

wt, bk, checks = sys.argv[1], sys.argv[2], sys.argv[3:]
notes = {}
if os.path.exists(f"{wt}/benign.json"):
    try:
        for e in json.load(open(f"{wt}/benign.json")):
            notes[int(e["k"])] = e
    except Exception as ex:  # noqa: BLE001
        print("benign.json unreadable:", ex)


def one(k):
    src = f"{wt}/benign{k}.diff"
    if not os.path.exists(src):
        return k, None
    dst = f"/verif/benign/{bk}-{k}"
    os.makedirs(dst, exist_ok=True)
    shutil.copy(src, f"{dst}/patch.diff")
    res = {}
    for c in checks:
        r = subprocess.run(["python3", "/verif/tools/mutcheck.py", "--patch", f"{dst}/patch.diff", "--", c], capture_output=True, text=True, cwd="/verif")
        res[c] = (r.stdout.strip() or r.stderr.strip())[:400]
    meta = dict(notes.get(k, {}))
    if os.path.exists(f"{dst}/meta.json"):      # a re-run of some checks keeps the results of the others
        old = json.load(open(f"{dst}/meta.json"))
        res = {**old.get("checks_result", {}), **res}
    meta.update({"group": bk, "k": k, "claimed_harmless_for": sorted(res), "checks_result": res,
                 "alarms": [c for c, v in res.items() if f"{c}: rc=0" not in v]})
    json.dump(meta, open(f"{dst}/meta.json", "w"), indent=1)
    return k, meta


with ThreadPoolExecutor(3) as ex:
    for k, meta in ex.map(one, (1, 2, 3)):
        if meta is None:
            print(f"{bk}-{k}: no patch")
        else:
            print(f"{bk}-{k}: alarms={meta['alarms']}")
            for c, v in meta["checks_result"].items():
                print("   ", v[:200])
