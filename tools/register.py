"""python3 tools/register.py <pid> <engine> <<< JSON {text, note, technique}  — add/replace a check in MANIFEST.json"""
import json, sys
pid, engine = sys.argv[1], sys.argv[2]
d = json.load(sys.stdin)
man = json.load(open('/verif/MANIFEST.json'))
man['checks'] = [c for c in man['checks'] if c['property_id'] != pid]
man['checks'].append({"property_id": pid, "quick_cmd": f"./check {pid} quick", "thorough_cmd": f"./check {pid} thorough",
  "evidence_file": f"/verif/evidence/{pid}.json", "replay_cmd_template": f"./check {pid} --replay {{path}}", "engine": engine,
  "level_claimed": {"category": "model_checking", "text": d['text'], "design_ref": f"DESIGN.md section 8, {pid}"},
  "level_note": d['note'], "technique": d['technique']})
man['checks'].sort(key=lambda c: c['property_id'])
man['not_applicable'] = [n for n in man['not_applicable'] if n['property_id'] != pid]
if engine not in [e['name'] for e in man['engines']]:
    man['engines'].append({"name": engine, "path": d.get('path', 'spec/'), "serves_properties": [pid], "kind_free_text": d.get('kind', 'TLA+ Layer-A/decision model checked by TLC; cases replayed into the code')})
else:
    for e in man['engines']:
        if e['name'] == engine and pid not in e['serves_properties']:
            e['serves_properties'].append(pid)
json.dump(man, open('/verif/MANIFEST.json', 'w'), indent=1)
