"""python3 tools/seeded_table.py - rewrite the seeded-changes table of DESIGN.md (section 13.6) from seeded/*/meta.json
(run tools/seeded_report.py first so that every meta.json has a current `detection` entry)."""
import glob, json, re
B, E = "<!-- SEEDED-TABLE-BEGIN -->", "<!-- SEEDED-TABLE-END -->"
def cut(s, n):
    s = (s or "").replace("\n", " ").replace("|", "/")
    return s[:n] + ("…" if len(s) > n else "")
rows = []
for f in sorted(glob.glob("/verif/seeded/*/meta.json")):
    m = json.load(open(f)); i = f.split("/")[3]; d = m.get("detection", {})
    if not d.get("check"):      # no recorded re-run: fall back to the verdicts stored when the change was confirmed
        for c, line in (m.get("checks_result") or {}).items():
            mm = re.search(r"rc=(\d+)", line or "")
            if mm:
                d = {"check": c, "tier": "quick", "exit_code": mm.group(1) + " (at confirmation time; the table of 13.7 says what closed it)" if mm.group(1) != "1" else "1"}
                break
    also = m.get("also_caught_by") or ""
    if m.get("rebase_note"):
        also = (also + " ; " if also else "") + m["rebase_note"][:160]
    rows.append(f"| {i} | {cut(m.get('summary'), 170)} | {cut(m.get('needs_to_manifest'), 130)} | `./check {d.get('check')} {d.get('tier', 'quick')}` exit {d.get('exit_code')}{(' ; ' + also) if also else ''} |")
table = "| Seed | Change (independently written; passes the 74 pinned tests) | Needs, to manifest | Caught by |\n|---|---|---|---|\n" + "\n".join(rows)
p = "/verif/DESIGN.md"
s = open(p).read()
if B in s:
    s = re.sub(re.escape(B) + r".*?" + re.escape(E), lambda _m: B + "\n" + table + "\n" + E, s, flags=re.S)
else:
    s = s.replace("SEEDED-TABLE-PLACEHOLDER", B + "\n" + table + "\n" + E)
open(p, "w").write(s)
print(len(rows), "rows")
