"""python3 tools/mutcheck.py <name> <file> <old> <new> -- C02 C03 ...   (or --patch <diff> -- checks)
Run checks against a scratch copy of /repo/src with one mutation applied (selected via PYTHONPATH);
/repo itself is not touched."""
import os, shutil, subprocess, sys, tempfile
args = sys.argv[1:]
i = args.index("--")
spec, checks = args[:i], args[i + 1:]
d = tempfile.mkdtemp(prefix="mut-")
try:
    shutil.copytree("/repo/src", d + "/src", ignore=shutil.ignore_patterns("__pycache__", "*.egg-info"))
    if spec[0] == "--patch":
        subprocess.run(["patch", "-p1", "-d", d, "-i", os.path.abspath(spec[1])], check=True, capture_output=True)
    else:
        name, path, old, new = spec
        p = os.path.join(d, path)
        s = open(p).read()
        if old not in s:
            print("PATCH-FAILED", name); sys.exit(3)
        open(p, "w").write(s.replace(old, new, 1))
    env = dict(os.environ, PYTHONPATH=d + "/src", VERIF_OUT_DIR=d + "/out")
    for c in checks:
        tier = "quick"
        if ":" in c:
            c, tier = c.split(":")
        r = subprocess.run(["/verif/check", c, tier], env=env, capture_output=True, text=True)
        lines = [l for l in r.stdout.splitlines() if l.startswith(("VIOLATION", "OK", "KNOWN"))] + [l for l in r.stderr.splitlines() if "MACHINERY" in l]
        print(f"{c}: rc={r.returncode}", "|", (lines[0][:160] if lines else r.stderr[-300:]))
finally:
    shutil.rmtree(d, ignore_errors=True)
