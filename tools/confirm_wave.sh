#!/bin/sh
# tools/confirm_wave.sh <worktree> <wave-number> <prop> [checks...]  - adapt the per-property file names of a wave's
# worktree (patch_P.diff, demo_P.py, meta_P.json) to tools/confirm_seeded.py and run it
wt=$1; k=$2; p=$3; shift 3
cp "$wt/patch_$p.diff" "$wt/patch$k.diff" && cp "$wt/demo_$p.py" "$wt/demo$k.py" && cp "$wt/meta_$p.json" "$wt/meta$k.json" || exit 2
git -C "$wt" checkout -q -- src
exec python3 /verif/tools/confirm_seeded.py "$p" "$wt" "$k" "$@"
