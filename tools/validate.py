"""python3-vt tools/validate.py  — validate MANIFEST.json and evidence/*.json against the schemas."""
import glob, json, sys
import jsonschema
ok = True
def check(path, schema):
    global ok
    try:
        jsonschema.validate(json.load(open(path)), json.load(open(schema)))
        print("valid  ", path)
    except Exception as e:
        ok = False
        print("INVALID", path, str(e)[:300])
check("/verif/MANIFEST.json", "/root/.vp/MANIFEST.schema.json")
for f in sorted(glob.glob("/verif/evidence/*.json")):
    check(f, "/root/.vp/EVIDENCE.schema.json")
man = json.load(open("/verif/MANIFEST.json"))
props = [json.loads(l)["id"] for l in open("/verif/properties.jsonl")]
claimed = [c["property_id"] for c in man["checks"]]
na = [c["property_id"] for c in man.get("not_applicable", [])]
for p in props:
    if (p in claimed) == (p in na):
        ok = False
        print("property", p, "must be exactly one of claimed / not_applicable")
sys.exit(0 if ok else 1)
