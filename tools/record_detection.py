"""python3 tools/record_detection.py <seed-id> <check> <exit-code> <first line of the check's output> [--closed-by "<what was added>"] [--not-claimed "<reason>"]
Record in seeded/<seed-id>/meta.json which check catches the change (after re-running tools/mutcheck.py)."""
import json, sys
a = sys.argv[1:]
sid, chk, rc, line = a[:4]
p = f"/verif/seeded/{sid}/meta.json"
m = json.load(open(p))
m["detection"] = {"check": chk, "tier": "quick", "exit_code": rc, "first_line": line[:300]}
if "--closed-by" in a:
    m["closed_by"] = a[a.index("--closed-by") + 1]
    m["also_caught_by"] = "missed at first; closed by: " + m["closed_by"]
if "--not-claimed" in a:
    m["not_claimed"] = a[a.index("--not-claimed") + 1]
    m["also_caught_by"] = "NOT CLAIMED: " + m["not_claimed"]
json.dump(m, open(p, "w"), indent=1)
print(sid, m["detection"])
