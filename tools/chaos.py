"""python3 tools/chaos.py [Cnn ...]  - robustness of the checks themselves: every check is run against scratch
copies of the library in which a public entry point of its property returns garbage (NaN, absurd magnitudes, wrong
shapes, None) or raises.  Whatever the library does, a check must end with exit 0 or 1 - never 2 (machinery
failure) - because a broken tree that is reported as "machinery failure" is a broken tree that was not reported.
/repo is not touched (scratch copy selected through PYTHONPATH, evidence redirected)."""
import json, os, shutil, subprocess, sys, tempfile
from concurrent.futures import ThreadPoolExecutor

TARGETS = {
    "C01": ["minerals.Mineral.update_orientations", "core.derivatives", "utils.apply_gbs"],
    "C02": ["core.derivatives"], "C03": ["core.derivatives"], "C04": ["core.derivatives", "minerals.Mineral.update_orientations"],
    "C05": ["minerals.Mineral.update_orientations"], "C06": ["minerals.Mineral.update_orientations", "minerals.update_all"],
    "C07": ["minerals.Mineral.update_orientations", "core.derivatives"], "C08": ["minerals.Mineral.update_orientations", "minerals.update_all"],
    "C09": ["utils.apply_gbs", "minerals.Mineral.update_orientations"], "C10": ["minerals.voigt_averages"],
    "C11": ["tensors.rotate", "tensors.polar_decompose", "tensors.voigt_matrix_to_vector", "tensors.hex_project"],
    "C12": ["diagnostics.elasticity_components"], "C13": ["diagnostics.symmetry_pgr", "diagnostics.bingham_average", "diagnostics.finite_strain"],
    "C14": ["diagnostics.misorientation_index", "diagnostics.misorientation_indices"], "C15": ["stats.resample_orientations"],
    "C16": ["io.read_scsv", "io.save_scsv"], "C17": ["minerals.Mineral.save", "minerals.Mineral.load", "minerals.Mineral.from_file"],
    "C18": ["pathlines.get_pathline", "utils.strain_increment", "velocity.cell_2d"], "C19": ["io.parse_config", "core.DefaultParams.as_dict"],
    "C20": ["geometry.to_spherical", "geometry.poles", "geometry.lambert_equal_area", "stats.point_density"],
}
MODES = ["nan", "huge", "shape", "none", "raise"]

STANZA = '''
# ---- chaos stanza (scratch copy only)
import os as _os
if _os.environ.get("CHAOS_TARGET"):
    import importlib as _il, numpy as _np, functools as _ft
    _tgt, _mode = _os.environ["CHAOS_TARGET"], _os.environ["CHAOS_MODE"]
    def _garble(x):
        if isinstance(x, _np.ndarray) and x.dtype.kind == "f":
            if _mode == "nan": return _np.full_like(x, _np.nan)
            if _mode == "huge": return _np.full_like(x, 1e300)
            if _mode == "shape": return x.reshape(-1)[: max(0, x.size - 1)]
        if isinstance(x, float):
            return float("nan") if _mode == "nan" else (1e300 if _mode == "huge" else x)
        if isinstance(x, (tuple, list)):
            return type(x)(_garble(v) for v in x) if not hasattr(x, "_fields") else type(x)(*[_garble(v) for v in x])
        if isinstance(x, dict):
            return {k: _garble(v) for k, v in x.items()}
        return x
    def _wrap(f):
        @_ft.wraps(f)
        def g(*a, **k):
            if _mode == "raise":
                raise RuntimeError("chaos")
            r = f(*a, **k)
            return None if _mode == "none" else _garble(r)
        return g
    _parts = _tgt.split(".")
    _mod = _il.import_module("pydrex." + _parts[0])
    _owner = _mod
    for _p in _parts[1:-1]:
        _owner = getattr(_owner, _p)
    _orig = getattr(_owner, _parts[-1])
    if isinstance(_owner, type) and isinstance(_owner.__dict__.get(_parts[-1]), classmethod):
        setattr(_owner, _parts[-1], classmethod(_wrap(_orig.__func__)))
    else:
        setattr(_owner, _parts[-1], _wrap(_orig))
    import pydrex as _pd
    if hasattr(_pd, _parts[-1]) and len(_parts) == 2:
        setattr(_pd, _parts[-1], getattr(_owner, _parts[-1]))
'''


def run(job):
    prop, target, mode, src = job
    env = dict(os.environ, PYTHONPATH=src, CHAOS_TARGET=target, CHAOS_MODE=mode, VERIF_OUT_DIR=tempfile.mkdtemp(prefix="chaos-out-"))
    import signal
    try:
        p = subprocess.Popen(["/verif/check", prop, "quick"], env=env, stdout=subprocess.PIPE, stderr=subprocess.STDOUT, text=True, start_new_session=True)
        try:
            out, _ = p.communicate(timeout=int(os.environ.get("CHAOS_TIMEOUT", "1200")))
        except subprocess.TimeoutExpired:
            os.killpg(p.pid, signal.SIGKILL)     # the check forks: kill the whole group, or the pipe never closes
            p.communicate()
            return prop, target, mode, "timeout", ""
        tail = [l for l in out.splitlines() if "MACHINERY" in l or "Error" in l][-2:]
        return prop, target, mode, p.returncode, " | ".join(tail)[:300]
    finally:
        shutil.rmtree(env["VERIF_OUT_DIR"], ignore_errors=True)


def main():
    props = sys.argv[1:] or sorted(TARGETS)
    d = tempfile.mkdtemp(prefix="chaos-")
    try:
        shutil.copytree("/repo/src", d + "/src", ignore=shutil.ignore_patterns("__pycache__", "*.egg-info"))
        with open(d + "/src/pydrex/__init__.py", "a") as f:
            f.write(STANZA)
        jobs = [(p, t, m, d + "/src") for p in props for t in TARGETS[p] for m in MODES]
        with ThreadPoolExecutor(int(os.environ.get("CHAOS_PAR", "4"))) as ex:
            rows = list(ex.map(run, jobs))
    finally:
        shutil.rmtree(d, ignore_errors=True)
    bad = [r for r in rows if r[3] not in (0, 1)]
    for r in rows:
        print(*r)
    print(json.dumps(dict(jobs=len(rows), exit0=sum(r[3] == 0 for r in rows), exit1=sum(r[3] == 1 for r in rows), other=len(bad))))
    return 1 if bad else 0


if __name__ == "__main__":
    sys.exit(main())
