"""python3 tools/seeded_report.py [ids...] - re-run the target property's quick check against every seeded
change (scratch copy, /repo untouched), record the outcome in seeded/<id>/meta.json and print a table."""
import glob, json, os, subprocess, sys
from concurrent.futures import ThreadPoolExecutor
ids = sys.argv[1:] or sorted(os.path.basename(d) for d in glob.glob('/verif/seeded/*') if os.path.isdir(d))
def run(i):
    d = f'/verif/seeded/{i}'
    meta = json.load(open(f'{d}/meta.json'))
    prop = meta.get('breaks_property') or i.split('-')[0]
    r = subprocess.run(['python3', '/verif/tools/mutcheck.py', '--patch', f'{d}/patch.diff', '--', prop], capture_output=True, text=True, cwd='/verif')
    line = r.stdout.strip().splitlines()[-1] if r.stdout.strip() else r.stderr[-200:]
    rc = line.split('rc=')[1].split()[0] if 'rc=' in line else '?'
    meta['detection'] = {'check': prop, 'tier': 'quick', 'exit_code': rc, 'first_line': line[:300]}
    json.dump(meta, open(f'{d}/meta.json', 'w'), indent=1)
    return i, prop, rc, meta.get('summary', '')[:110].replace('\n', ' '), meta.get('confirmation', {}).get('confirmed')
with ThreadPoolExecutor(4) as ex:
    rows = list(ex.map(run, ids))
print('| Seed | Breaks | Confirmed (demo fails / suite passes) | Quick check exit | Change |')
print('|---|---|---|---|---|')
for i, prop, rc, summ, conf in rows:
    print(f'| {i} | {prop} | {conf} | {rc} | {summ} |')
