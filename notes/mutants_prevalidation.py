import subprocess, shutil, os, sys, json, re
MUT=[
 ("M01_crssB", "src/pydrex/core.py", "return np.array([3, 2, 1, np.inf])", "return np.array([2, 3, 1, np.inf])"),
 ("M02_origdrex", "src/pydrex/core.py", "_USE_ORIGINAL_DREX = False", "_USE_ORIGINAL_DREX = True"),
 ("M03_slipexp", "src/pydrex/core.py", "np.abs(ratio_min) ** (deformation_exponent - 1)\n    slip_rates[i_int] = ratio_int * np.abs(ratio_int) ** (deformation_exponent - 1)", "np.abs(ratio_min) ** (deformation_exponent)\n    slip_rates[i_int] = ratio_int * np.abs(ratio_int) ** (deformation_exponent)"),
 ("M04_damp", "src/pydrex/core.py", "orientations_diff[grain_index] = 0.3 * orientation_change", "orientations_diff[grain_index] = 0.5 * orientation_change"),
 ("M05_noclip", "src/pydrex/utils.py", "fractions = y[n_grains * 9 + 9 : n_grains * 10 + 9].clip(0, None)", "fractions = y[n_grains * 9 + 9 : n_grains * 10 + 9].copy()"),
 ("M06_FL", "src/pydrex/minerals.py", "deformation_gradient_diff = velocity_gradient @ deformation_gradient", "deformation_gradient_diff = deformation_gradient @ velocity_gradient"),
 ("M07_noscale", "src/pydrex/minerals.py", "fractions_diff * strain_rate_max,", "fractions_diff,"),
 ("M08_phi0", "src/pydrex/minerals.py", "params[\"phase_assemblage\"].index(self.phase)\n                ]", "0\n                ]"),
 ("M09_maskinv", "src/pydrex/utils.py", "mask = fractions < (gbs_threshold / n_grains)", "mask = fractions > (gbs_threshold / n_grains)"),
 ("M10_unordered", "src/pydrex/diagnostics.py", "pool.imap(_run, orientation_stack)", "pool.imap_unordered(_run, orientation_stack)"),
 ("M11_searchright", "src/pydrex/stats.py", "np.searchsorted(cumfrac, rng.random(n_samples))", "np.searchsorted(cumfrac, rng.random(n_samples), side=\"right\") - 1"),
 ("M13_voigtidx", "src/pydrex/tensors.py", "j = (r + 1) * delta_rs + (1 - delta_rs) * (7 - r - s) - 1\n                    tensor[p, q, r, s] = matrix[i, j]", "j = (r + 1) * delta_rs + (1 - delta_rs) * (8 - r - s - 2 * abs(r - s)) - 1\n                    tensor[p, q, r, s] = matrix[i, j]"),
 ("M15_energyexp", "src/pydrex/core.py", "deformation_exponent - stress_exponent\n        ) * np.abs", "stress_exponent - deformation_exponent + 2 * (deformation_exponent - stress_exponent) * (crss[i] == 1)\n        ) * np.abs"),
 ("M17_dtabs", "src/pydrex/utils.py", "np.abs(dt)\n        * np.abs(", "dt\n        * np.abs("),
 ("M18_gbsref", "src/pydrex/minerals.py", "params[\"gbs_threshold\"],\n                self.orientations[-1],", "params[\"gbs_threshold\"],\n                self.orientations[0],"),
 ("M19_scsvvalid", "src/pydrex/io.py", "        and schema[\"delimiter\"] not in schema[\"missing\"]\n", ""),
 ("M20_metaorder", "src/pydrex/minerals.py", "            phase, fabric, regime = data[\"meta\"]\n            self.fractions", "            fabric, phase, regime = data[\"meta\"]\n            self.fractions"),
 ("M21_spinsign", "src/pydrex/core.py", "- (deformation_rate[s, r] - deformation_rate[r, s]) * slip_rate_softest", "+ (deformation_rate[s, r] - deformation_rate[r, s]) * slip_rate_softest"),
 ("M22_crssE", "src/pydrex/core.py", "return np.array([3, 1, 2, np.inf])", "return np.array([2, 1, 3, np.inf])"),
 ("M23_lambda", "src/pydrex/core.py", "-nucleation_efficiency * dislocation_density**2", "-nucleation_efficiency * dislocation_density"),
]
res={}
only=sys.argv[1:] 
for name,path,old,new in MUT:
    if only and name not in only: continue
    d='/tmp/scr/mut/'+name
    shutil.rmtree(d,ignore_errors=True)
    subprocess.run(['rsync','-a','--exclude','.git','/repo/',d+'/'],check=True)
    s=open(d+'/'+path).read()
    if old not in s:
        res[name]='PATCH-FAILED'; print(name,res[name],flush=True); shutil.rmtree(d); continue
    open(d+'/'+path,'w').write(s.replace(old,new,1))
    env=dict(os.environ,PYTHONPATH=d+'/src')
    r=subprocess.run(['/venv/bin/python','-m','pytest','-q','-p','no:cacheprovider','--timeout=900','-n','14','-x'],cwd=d,env=env,capture_output=True,text=True)
    last=[l for l in r.stdout.strip().splitlines() if 'passed' in l or 'failed' in l or 'error' in l][-1:] 
    failed=re.findall(r"FAILED (\S+)", r.stdout)
    res[name]={'summary':last,'failed':failed[:5]}
    print(name,res[name],flush=True)
    shutil.rmtree(d)
json.dump(res,open('/tmp/scr/mutants_result.json','w'),indent=1)
