SPECIFICATION Spec
CONSTANTS N = 4  W = 3  Ordered = FALSE
INVARIANT ResultInOrder
CHECK_DEADLOCK FALSE
