---- MODULE PyDRexDraft ----
EXTENDS Integers, Sequences, FiniteSets, TLC, SequencesExt
CONSTANTS Minerals, Files, Postfixes, MaxUpd, MaxSaves
NULL == [none |-> TRUE]
Phases == 0..1   Fabrics == {0, 5}   Regimes == {0, 3, 4}   \* one representative per Dispatch class: null, rejected, texture
Accepted(r) == r \in {0, 1, 4, 6, 7}
NullReg(r) == r \in {0, 7}
ValidPair(p, f) == (p = 0 /\ f \in 0..4) \/ (p = 1 /\ f = 5)
Flows == {"zero", "shear", "general"}
Pars == {[M0 |-> m, chi0 |-> c, asm |-> a] : m \in BOOLEAN, c \in BOOLEAN, a \in {<<0>>, <<1>>, <<0,1>>, <<1,0>>}}
InAsm(p, a) == \E k \in 1..Len(a) : a[k] = p
VARIABLES cfg, hist, nUpd, disk, err, fresh, saves
vars == <<cfg, hist, nUpd, disk, err, fresh, saves>>
Init == /\ cfg = [m \in Minerals |-> NULL] /\ hist = [m \in Minerals |-> <<>>] /\ nUpd = [m \in Minerals |-> 0]
        /\ disk = [f \in Files |-> [k \in {} |-> NULL]] /\ err = "None" /\ fresh = 1 /\ saves = 0
Create(m) == /\ cfg[m] = NULL
             /\ \E p \in Phases, f \in Fabrics, r \in Regimes :
                  cfg' = [cfg EXCEPT ![m] = [phase |-> p, fabric |-> f, regime |-> r]]
             /\ hist' = [hist EXCEPT ![m] = << [o |-> <<m, 0>>, f |-> <<m, 0>>] >>]
             /\ fresh' = fresh /\ err' = "None" /\ UNCHANGED <<nUpd, disk, saves>>
CanUpdate(m, par) == Accepted(cfg[m].regime) /\ ValidPair(cfg[m].phase, cfg[m].fabric) /\ InAsm(cfg[m].phase, par.asm)
UpdateOk(m) == /\ cfg[m] # NULL /\ nUpd[m] < MaxUpd
               /\ \E fl \in Flows, par \in Pars :
                    /\ CanUpdate(m, par)
                    /\ LET last == Last(hist[m])
                           nullf == NullReg(cfg[m].regime) \/ fl = "zero"
                           newO == IF nullf THEN last.o ELSE <<m, nUpd[m] + 1>>
                           newF == IF nullf \/ (par.M0 /\ par.chi0) THEN last.f ELSE <<m, nUpd[m] + 1>>
                       IN hist' = [hist EXCEPT ![m] = Append(@, [o |-> newO, f |-> newF])]
               /\ nUpd' = [nUpd EXCEPT ![m] = @ + 1] /\ fresh' = fresh /\ err' = "None"
               /\ UNCHANGED <<cfg, disk, saves>>
UpdateRejected(m) == /\ cfg[m] # NULL
                     /\ \E par \in Pars : ~CanUpdate(m, par)
                     /\ err' = (IF Accepted(cfg[m].regime) /\ ValidPair(cfg[m].phase, cfg[m].fabric) THEN "RuntimeError" ELSE "ValueError")
                     /\ UNCHANGED <<cfg, hist, nUpd, disk, fresh, saves>>
Key(name, pf) == <<name, pf>>
Rec(m) == [meta |-> cfg[m], hist |-> hist[m]]
Extend(d, k, v) == [x \in (DOMAIN d) \cup {k} |-> IF x = k THEN v ELSE d[x]]
SavePostfix(m) == /\ cfg[m] # NULL /\ saves < MaxSaves
                  /\ \E f \in Files, pf \in Postfixes :
                       /\ Key("rec", pf) \notin DOMAIN disk[f]
                       /\ disk' = [disk EXCEPT ![f] = Extend(@, Key("rec", pf), Rec(m))]
                  /\ saves' = saves + 1 /\ err' = "None" /\ UNCHANGED <<cfg, hist, nUpd, fresh>>
SaveWholeFile(m) == /\ cfg[m] # NULL /\ saves < MaxSaves
                    /\ \E f \in Files : disk' = [disk EXCEPT ![f] = Extend([k \in {} |-> NULL], Key("rec", "none"), Rec(m))]
                    /\ saves' = saves + 1 /\ err' = "None" /\ UNCHANGED <<cfg, hist, nUpd, fresh>>
Load(m) == /\ cfg[m] # NULL
           /\ \E f \in Files : \E k \in DOMAIN disk[f] :
                /\ cfg' = [cfg EXCEPT ![m] = disk[f][k].meta]
                /\ hist' = [hist EXCEPT ![m] = disk[f][k].hist]
           /\ err' = "None" /\ UNCHANGED <<nUpd, disk, fresh, saves>>
Next == \E m \in Minerals : Create(m) \/ UpdateOk(m) \/ UpdateRejected(m) \/ SavePostfix(m) \/ SaveWholeFile(m) \/ Load(m)
Spec == Init /\ [][Next]_vars
AppendOnlyExceptLoad == [][\A m \in Minerals : (cfg[m] # NULL /\ cfg'[m] = cfg[m] /\ disk' = disk /\ hist'[m] # hist[m]) =>
                              (IsPrefix(hist[m], hist'[m]) /\ Len(hist'[m]) = Len(hist[m]) + 1) \/ (\E f \in Files : \E k \in DOMAIN disk[f] : hist'[m] = disk[f][k].hist)]_vars
FailureAtomic == [][err' # "None" => hist' = hist]_vars
SavedIntact == \A f \in Files : \A k \in DOMAIN disk[f] : Len(disk[f][k].hist) >= 1
StateLimit == fresh <= 14
====
