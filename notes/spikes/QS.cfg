SPECIFICATION Spec
CHECK_DEADLOCK FALSE
INVARIANT HexLemmas
INVARIANT Isometry
