---- MODULE TS ----
EXTENDS Integers, Sequences, FiniteSets, TLC, FiniteSetsExt
RECURSIVE GCD(_,_)
GCD(a,b) == IF b = 0 THEN a ELSE GCD(b, a % b)
Abs(x) == IF x < 0 THEN -x ELSE x
Norm(n,d) == LET g == GCD(Abs(n),Abs(d)) s == IF d < 0 THEN -1 ELSE 1 IN IF n = 0 THEN <<0,1>> ELSE <<s*(n \div g), s*(d \div g)>>
QAdd(a,b) == Norm(a[1]*b[2]+b[1]*a[2], a[2]*b[2])
QMul(a,b) == Norm(a[1]*b[1], a[2]*b[2])
Q(n) == <<n,1>>
Z == Q(0)
I3 == 1..3
I6 == 1..6
Sum3(f(_)) == QAdd(QAdd(f(1),f(2)),f(3))
QuatRot(q) == LET w==q[1] x==q[2] y==q[3] z==q[4] N==w*w+x*x+y*y+z*z IN
  [i \in I3 |-> [j \in I3 |->
     Norm( CASE i=1 /\ j=1 -> w*w+x*x-y*y-z*z [] i=1 /\ j=2 -> 2*(x*y-w*z) [] i=1 /\ j=3 -> 2*(x*z+w*y)
            [] i=2 /\ j=1 -> 2*(x*y+w*z) [] i=2 /\ j=2 -> w*w-x*x+y*y-z*z [] i=2 /\ j=3 -> 2*(y*z-w*x)
            [] i=3 /\ j=1 -> 2*(x*z-w*y) [] i=3 /\ j=2 -> 2*(y*z+w*x) [] i=3 /\ j=3 -> w*w-x*x-y*y+z*z, N)]]
Quats == {q \in (-1..1) \X (-1..1) \X (-1..1) \X (-1..1) : q[1]*q[1]+q[2]*q[2]+q[3]*q[3]+q[4]*q[4] \in {1,2,3,4}}
Rots == {QuatRot(q) : q \in Quats}
\* Voigt index of (p,q), 1-based: diag -> p ; offdiag -> 9-p-q (i.e. 7-p-q in 0-based +... ) 
VI(p,q) == IF p = q THEN p ELSE 9 - p - q
Basis == {<<i,j>> \in I6 \X I6 : i <= j}
BasisMat(b) == [i \in I6 |-> [j \in I6 |-> IF (<<i,j>> = b \/ <<j,i>> = b) THEN Q(1) ELSE Z]]
I4 == I3 \X I3 \X I3 \X I3
ToTensor(M) == TLCEval([x \in I4 |-> M[VI(x[1],x[2])][VI(x[3],x[4])]])
R1(T,R) == TLCEval([x \in I4 |-> LET f(a) == QMul(R[x[1]][a], T[<<a,x[2],x[3],x[4]>>]) IN Sum3(f)])
R2(T,R) == TLCEval([x \in I4 |-> LET f(a) == QMul(R[x[2]][a], T[<<x[1],a,x[3],x[4]>>]) IN Sum3(f)])
R3(T,R) == TLCEval([x \in I4 |-> LET f(a) == QMul(R[x[3]][a], T[<<x[1],x[2],a,x[4]>>]) IN Sum3(f)])
R4(T,R) == TLCEval([x \in I4 |-> LET f(a) == QMul(R[x[4]][a], T[<<x[1],x[2],x[3],a>>]) IN Sum3(f)])
Rotate(T,R) == R4(R3(R2(R1(T,R),R),R),R)
Frob2(T) == FoldSet(LAMBDA x, acc : QAdd(QMul(T[x],T[x]), acc), Z, I4)
MatMul(A,B) == [i \in I3 |-> [j \in I3 |-> LET f(k) == QMul(A[i][k],B[k][j]) IN Sum3(f)]]
VARIABLE st
Init == \E b \in Basis : st = [phase |-> "go", b |-> b]
Next == st.phase = "go" /\ \E R \in Rots, S \in Rots : st' = [phase |-> "case", b |-> st.b, R |-> R, S |-> S]
Spec == Init /\ [][Next]_st
Lemma == st.phase = "case" =>
   LET T == ToTensor(TLCEval(BasisMat(st.b))) TR == Rotate(T, st.R)
   IN /\ Frob2(TR) = Frob2(T)
      /\ Rotate(TR, st.S) = Rotate(T, MatMul(st.S, st.R))
      /\ \A x \in I4 : TR[x] = TR[<<x[2],x[1],x[3],x[4]>>] /\ TR[x] = TR[<<x[3],x[4],x[1],x[2]>>]
====
