---- MODULE MT ----
EXTENDS Integers, Sequences, FiniteSets, TLC, TLCExt, Json, IOUtils, SequencesExt
\* All traces concatenated; each event has tid, ev, ok, len, digests, ortho (1e-9 units), dstrain (1e-6 units)
TraceLog == ndJsonDeserialize(IOEnv.TRACE_FILE)
VARIABLES l, hist, nUpd, strain, bad
vars == <<l, hist, nUpd, strain, bad>>
Budget(n, e6) == 5000000 + 1000000 * n + 2 * e6      \* 5e-3 + 1e-3*(N + 2*strain) in 1e-9 units
Init == l = 1 /\ hist = <<>> /\ nUpd = 0 /\ strain = 0 /\ bad = "none"
Ev == TraceLog[l]
NewTrace == IF l = 1 THEN TRUE ELSE TraceLog[l].tid # TraceLog[l-1].tid
Create == /\ Ev.ev = "Create" /\ NewTrace
          /\ hist' = Ev.digests /\ nUpd' = 0 /\ strain' = 0
          /\ bad' = IF Len(Ev.digests) # 1 THEN "create-len" ELSE IF Ev.ortho > Budget(0,0) THEN "create-ortho" ELSE "none"
UpdateOk == /\ Ev.ev = "Update" /\ Ev.ok /\ ~NewTrace
            /\ hist' = Ev.digests /\ nUpd' = nUpd + 1 /\ strain' = strain + Ev.dstrain
            /\ bad' = IF ~IsPrefix(hist, Ev.digests) THEN "history-rewritten"
                      ELSE IF Len(Ev.digests) # Len(hist) + 1 THEN "not-one-per-update"
                      ELSE IF Ev.ortho > Budget(nUpd + 1, strain + Ev.dstrain) THEN "ortho-budget"
                      ELSE "none"
UpdateFail == /\ Ev.ev = "Update" /\ ~Ev.ok /\ ~NewTrace
              /\ hist' = Ev.digests /\ UNCHANGED <<nUpd, strain>>
              /\ bad' = IF Ev.digests # hist THEN "failed-update-touched-history" ELSE "none"
Next == l <= Len(TraceLog) /\ l' = l + 1 /\ (Create \/ UpdateOk \/ UpdateFail)
Spec == Init /\ [][Next]_vars
\* verdict printing: one line per violating event, never stop
Report == IF bad = "none" THEN TRUE ELSE PrintT(<<"REJECT", TraceLog[l-1].tid, l-1, bad>>)
Accepted == TLCGet("stats").diameter - 1 = Len(TraceLog)
====
