# Prototype of the published D-Rex grain kernel in exact arithmetic with floats only for the leaf functions.
import numpy as np, itertools, logging, pydrex
from fractions import Fraction as Fr
from pydrex import core
pydrex.logger.CONSOLE_LOGGER.setLevel(logging.CRITICAL)
INF=None
CRSS={0:[1,2,3,INF],1:[3,2,1,INF],2:[3,2,INF,1],3:[1,1,3,INF],4:[3,1,2,INF],5:[INF,INF,INF,1]}
DIR=[0,0,2,2]; NRM=[1,2,1,0]
def rot(q):
    w,x,y,z=q; N=w*w+x*x+y*y+z*z
    M=[[w*w+x*x-y*y-z*z,2*(x*y-w*z),2*(x*z+w*y)],[2*(x*y+w*z),w*w-x*x+y*y-z*z,2*(y*z-w*x)],[2*(x*z-w*y),2*(y*z+w*x),w*w-x*x-y*y+z*z]]
    return [[Fr(M[i][j],N) for j in range(3)] for i in range(3)]
def kernel(phase,fab,A,L,n,p,lam):
    D=[[ (L[i][j]+L[j][i])/2 for j in range(3)] for i in range(3)]
    tau=CRSS[fab]
    I=[sum(D[i][j]*A[DIR[s]][i]*A[NRM[s]][j] for i in range(3) for j in range(3)) for s in range(4)]
    if all(x==0 for x in I): return np.zeros((3,3)),0.0,'dead'
    act=[abs(I[s])/tau[s] if tau[s] is not None else Fr(0) for s in range(4)]
    flag=''
    if phase==0:
        order=sorted(range(4),key=lambda s:act[s])
        if len(set(a for a in act if a!=0))<len([a for a in act if a!=0]): flag='tie'
        inac,mn,it,mx=order
        if act[mx]==0: return None,None,'unresolved'
        def ratio(s): 
            if tau[s] is None: return Fr(0)
            return Fr(tau[mx])/I[mx]*I[s]/tau[s]
        beta=[0.0]*4
        for s in (mn,it):
            r=float(ratio(s)); beta[s]=r*abs(r)**(n-1)
        beta[mx]=1.0
    else:
        beta=[0.0,0,0,1.0 if abs(I[3])>1e-15 else 0.0]
    Af=np.array([[float(x) for x in r] for r in A]); Lf=np.array([[float(x) for x in r] for r in L])
    G=np.zeros((3,3))
    for s in range(4):
        G+=2*beta[s]*np.outer(Af[DIR[s]],Af[NRM[s]])
    R1=0;R2=0
    for j in range(3):
        k=(j+1)%3
        R2-= (Lf[j,k]-Lf[k,j])*(G[j,k]-G[k,j]); R1-=(G[j,k]-G[k,j])**2
        for l in range(3):
            R2+=2*G[j,l]*Lf[j,l]; R1+=2*G[j,l]**2
    g0=0.0 if abs(R1)<1e-15 else R2/R1
    w=np.array([((Lf[(j+2)%3,(j+1)%3]-Lf[(j+1)%3,(j+2)%3])-(G[(j+2)%3,(j+1)%3]-G[(j+1)%3,(j+2)%3])*g0)/2 for j in range(3)])
    eps=np.zeros((3,3,3)); 
    for a,b,c in ((0,1,2),(1,2,0),(2,0,1)): eps[a,b,c]=1; eps[a,c,b]=-1
    dA=np.einsum('qrs,ps,r->pq',eps,Af,w)
    E=0.0
    for i in range(3):
        t=0.0 if tau[i] is None else (1/tau[i])**(n-p)
        rho=t*abs(beta[i]*g0)**(p/n)
        E+=rho*np.exp(-lam*rho**2)
    return dA,E,flag
quats=[q for q in itertools.product(range(-2,3),repeat=4) if sum(x*x for x in q) in (3,5,6,7,9)]
rots={}
for q in quats:
    R=rot(q); rots[tuple(map(tuple,R))]=R
rots=list(rots.values()); print(len(rots),'rotations')
rng=np.random.default_rng(0)
Ls=[[[0,0,2],[0,0,0],[0,0,0]],[[1,0,0],[0,-1,0],[0,0,0]],[[1,2,0],[-1,0,1],[0,1,-2]],[[2,1,-1],[0,-1,3],[1,0,1]]]
worst=0;cnt=0;flags={}
import random; random.seed(1)
for fab in range(6):
    phase=0 if fab<5 else 1
    for A in random.sample(rots,60):
        for L in Ls:
            Lq=[[Fr(x) for x in r] for r in L]
            for (n,p,lam) in ((3.5,1.5,5.0),(2.0,2.0,0.0),(5.0,1.0,10.0)):
                for regime in (4,6):
                    dA,E,flag=kernel(phase,fab,A,Lq,n,p,lam)
                    flags[flag]=flags.get(flag,0)+1
                    # two-grain call with a second grain to observe energy: use identity-ish second grain
                    A2=rots[7]
                    dA2,E2,_=kernel(phase,fab,A2,Lq,n,p,lam)
                    Af=np.array([[[float(x) for x in r] for r in A],[[float(x) for x in r] for r in A2]])
                    Lf=np.array(L,float); Df=(Lf+Lf.T)/2
                    f=np.array([0.3,0.7]); M=125.0;phi=0.7
                    o,fd=core.derivatives(regime,phase,fab,2,Af,f,Df,Lf,np.zeros((3,3)),p,n,lam,M,phi)
                    k=1.0 if regime==4 else 0.3
                    Em=0.3*E+0.7*E2
                    exp_fd=phi*M*f*k*(Em-np.array([E,E2]))
                    dev=max(np.abs(o[0]-k*dA).max(),np.abs(o[1]-k*dA2).max(),np.abs(fd-exp_fd).max())
                    worst=max(worst,dev);cnt+=1
                    if dev>1e-9: print('DEV',fab,regime,n,p,lam,dev,flag)
print('cases',cnt,'worst dev',worst,flags)
