---- MODULE K ----
EXTENDS Integers, Sequences, FiniteSets, TLC, Json
RECURSIVE GCD(_,_)
GCD(a,b) == IF b = 0 THEN a ELSE GCD(b, a % b)
Abs(x) == IF x < 0 THEN -x ELSE x
Norm(n,d) == LET g == GCD(Abs(n),Abs(d)) s == IF d < 0 THEN -1 ELSE 1 IN IF n = 0 THEN <<0,1>> ELSE <<s*(n \div g), s*(d \div g)>>
QAdd(a,b) == Norm(a[1]*b[2]+b[1]*a[2], a[2]*b[2])
QMul(a,b) == Norm(a[1]*b[1], a[2]*b[2])
QNeg(a) == <<-a[1],a[2]>>
QSub(a,b) == QAdd(a,QNeg(b))
QDiv(a,b) == Norm(a[1]*b[2], a[2]*b[1])
QLt(a,b) == a[1]*b[2] < b[1]*a[2]
QAbs(a) == <<Abs(a[1]),a[2]>>
Q(n) == <<n,1>>
Z == Q(0)
I3 == 1..3
S4 == 1..4
QuatRot(q) == LET w==q[1] x==q[2] y==q[3] z==q[4] N==w*w+x*x+y*y+z*z IN
  [i \in I3 |-> [j \in I3 |->
     Norm( CASE i=1 /\ j=1 -> w*w+x*x-y*y-z*z [] i=1 /\ j=2 -> 2*(x*y-w*z) [] i=1 /\ j=3 -> 2*(x*z+w*y)
            [] i=2 /\ j=1 -> 2*(x*y+w*z) [] i=2 /\ j=2 -> w*w-x*x+y*y-z*z [] i=2 /\ j=3 -> 2*(y*z-w*x)
            [] i=3 /\ j=1 -> 2*(x*z-w*y) [] i=3 /\ j=2 -> 2*(y*z+w*x) [] i=3 /\ j=3 -> w*w-x*x-y*y+z*z, N)]]
Quats == {q \in (-2..2) \X (-2..2) \X (-2..2) \X (-2..2) : q[1]*q[1]+q[2]*q[2]+q[3]*q[3]+q[4]*q[4] \in {3,5,6,7,9}}
Rots == {QuatRot(q) : q \in Quats}
IntMat(m) == [i \in I3 |-> [j \in I3 |-> Q(m[i][j])]]
Ls == { IntMat(<<<<0,0,2>>,<<0,0,0>>,<<0,0,0>>>>), IntMat(<<<<1,0,0>>,<<0,-1,0>>,<<0,0,0>>>>),
        IntMat(<<<<1,2,0>>,<<-1,0,1>>,<<0,1,-2>>>>), IntMat(<<<<2,1,-1>>,<<0,-1,3>>,<<1,0,1>>>>) }
Sym(L) == [i \in I3 |-> [j \in I3 |-> QMul(<<1,2>>, QAdd(L[i][j],L[j][i]))]]
Sum3(f(_)) == QAdd(QAdd(f(1),f(2)),f(3))
SlipDir == <<1,1,3,3>>
SlipNrm == <<2,3,2,1>>
\* inverse CRSS (0 for infinity)
InvTau == [ A |-> <<Q(1),<<1,2>>,<<1,3>>,Z>>, B |-> <<<<1,3>>,<<1,2>>,Q(1),Z>>, C |-> <<<<1,3>>,<<1,2>>,Z,Q(1)>>,
            D |-> <<Q(1),Q(1),<<1,3>>,Z>>, E |-> <<<<1,3>>,Q(1),<<1,2>>,Z>> ]
Fabs == {"A","B","C","D","E"}
Inv(D,A,s) == LET S2(i) == LET g(j) == QMul(D[i][j], QMul(A[SlipDir[s]][i], A[SlipNrm[s]][j])) IN Sum3(g) IN Sum3(S2)
\* polynomials in (bi,bm): index 1..6 = 1, bi, bm, bi^2, bi*bm, bm^2
P6 == 1..6
PZero == [k \in P6 |-> Z]
PConst(c) == [k \in P6 |-> IF k = 1 THEN c ELSE Z]
PVar(v) == [k \in P6 |-> IF k = v THEN Q(1) ELSE Z]
PAdd(p,q) == [k \in P6 |-> QAdd(p[k],q[k])]
PSub(p,q) == [k \in P6 |-> QSub(p[k],q[k])]
PScale(c,p) == [k \in P6 |-> QMul(c,p[k])]
PMulLin(p,q) == <<QMul(p[1],q[1]), QAdd(QMul(p[1],q[2]),QMul(p[2],q[1])), QAdd(QMul(p[1],q[3]),QMul(p[3],q[1])),
                  QMul(p[2],q[2]), QAdd(QMul(p[2],q[3]),QMul(p[3],q[2])), QMul(p[3],q[3])>>
PSum3(f(_)) == PAdd(PAdd(f(1),f(2)),f(3))
Kernel(fab, A, L) ==
  LET D == TLCEval(Sym(L))
      it == InvTau[fab]
      I == TLCEval([s \in S4 |-> Inv(D,A,s)])
      act == TLCEval([s \in S4 |-> QMul(QAbs(I[s]), it[s])])
      Rank(s) == Cardinality({t \in S4 : QLt(act[t],act[s]) \/ (act[t] = act[s] /\ t < s)})
      Role(r) == CHOOSE s \in S4 : Rank(s) = r
      inac == Role(0) mn == Role(1) mid == Role(2) mx == Role(3)
      tie == \E s,t \in S4 : s # t /\ act[s] = act[t] /\ act[s] # Z
      ratio(s) == IF it[s] = Z THEN Z ELSE QMul(QDiv(QMul(I[s], it[s]), QMul(I[mx], it[mx])), Q(1))
      beta == TLCEval([s \in S4 |-> IF s = mx THEN PConst(Q(1)) ELSE IF s = mid THEN PVar(2) ELSE IF s = mn THEN PVar(3) ELSE PZero])
      GG == TLCEval([x \in I3 \X I3 |->
              LET t(s) == PScale(QMul(Q(2), QMul(A[SlipDir[s]][x[1]], A[SlipNrm[s]][x[2]])), beta[s])
              IN TLCEval(PAdd(PAdd(t(1),t(2)),PAdd(t(3),t(4))))])
      G == [i \in I3 |-> [j \in I3 |-> GG[<<i,j>>]]]
      nx(j) == (j % 3) + 1
      R2 == LET a(j) == LET k == nx(j) IN PScale(QNeg(QSub(L[j][k],L[k][j])), PSub(G[j][k],G[k][j]))
                b(j) == LET c(l) == PScale(QMul(Q(2),L[j][l]), G[j][l]) IN PSum3(c)
            IN PAdd(PSum3(a), PSum3(b))
      R1 == LET a(j) == LET k == nx(j) d == PSub(G[j][k],G[k][j]) IN PScale(Q(-1), PMulLin(d,d))
                b(j) == LET c(l) == PScale(Q(2), PMulLin(G[j][l],G[j][l])) IN PSum3(c)
            IN PAdd(PSum3(a), PSum3(b))
      \* spin = w0 - w1*g0 ; w0 rational, w1 linear
      r(j) == nx(j)  s(j) == nx(nx(j))
      w0 == TLCEval([j \in I3 |-> QMul(<<1,2>>, QSub(L[s(j)][r(j)], L[r(j)][s(j)]))])
      w1 == TLCEval([j \in I3 |-> TLCEval(PScale(<<1,2>>, PSub(G[s(j)][r(j)], G[r(j)][s(j)])))])
      eps(a,b,c) == IF <<a,b,c>> \in {<<1,2,3>>,<<2,3,1>>,<<3,1,2>>} THEN 1 ELSE IF <<a,b,c>> \in {<<1,3,2>>,<<3,2,1>>,<<2,1,3>>} THEN -1 ELSE 0
      U == [p \in I3 |-> [q \in I3 |-> LET f(rr) == LET g(ss) == QMul(Q(eps(q,rr,ss)), QMul(A[p][ss], w0[rr])) IN Sum3(g) IN Sum3(f)]]
      V == [p \in I3 |-> [q \in I3 |-> LET f(rr) == LET g(ss) == PScale(QMul(Q(eps(q,rr,ss)), A[p][ss]), w1[rr]) IN PSum3(g) IN PSum3(f)]]
  IN [ fab |-> fab, A |-> A, L |-> L, I |-> I, roles |-> <<inac,mn,mid,mx>>, tie |-> tie,
       rint |-> ratio(mid), rmin |-> ratio(mn), R1 |-> R1, R2 |-> R2, U |-> U, V |-> V ]
VARIABLE st
Init == \E fab \in Fabs, L \in Ls : st = [phase |-> "go", fab |-> fab, L |-> L]
Next == st.phase = "go" /\ \E A \in Rots : st' = [phase |-> "case", k |-> Kernel(st.fab,A,st.L)]
Spec == Init /\ [][Next]_st
\* skew lemma: A^T U skew and A^T V skew coefficientwise
T(M) == [i \in I3 |-> [j \in I3 |-> M[j][i]]]
SkewQ(A,U) == \A i,j \in I3 : LET f(k) == QAdd(QMul(A[k][i],U[k][j]), QMul(A[k][j],U[k][i])) IN Sum3(f) = Z
SkewP(A,V) == \A i,j \in I3 : LET f(k) == PAdd(PScale(A[k][i],V[k][j]), PScale(A[k][j],V[k][i])) IN PSum3(f) = PZero
InvSkew == st.phase = "case" => SkewQ(st.k.A, st.k.U) /\ SkewP(st.k.A, st.k.V)
Dump == st.phase = "case" => PrintT(<<"CASE", ToJson(st.k)>>)
====
