---- MODULE PoolImap ----
EXTENDS Integers, Sequences, FiniteSets, TLC
CONSTANTS N, W, Ordered
VARIABLES nextTask, running, done, delivered
vars == <<nextTask, running, done, delivered>>
Init == nextTask = 1 /\ running = {} /\ done = {} /\ delivered = <<>>
Dispatch == nextTask <= N /\ Cardinality(running) < W
            /\ running' = running \cup {nextTask} /\ nextTask' = nextTask + 1 /\ UNCHANGED <<done, delivered>>
Complete(i) == i \in running /\ running' = running \ {i} /\ done' = done \cup {i} /\ UNCHANGED <<nextTask, delivered>>
Delivered == {delivered[k] : k \in 1..Len(delivered)}
DeliverOrdered == Ordered /\ (Len(delivered) + 1) \in done
                  /\ delivered' = Append(delivered, Len(delivered) + 1) /\ UNCHANGED <<nextTask, running, done>>
DeliverAny(i) == ~Ordered /\ i \in done \ Delivered
                  /\ delivered' = Append(delivered, i) /\ UNCHANGED <<nextTask, running, done>>
Next == Dispatch \/ (\E i \in 1..N : Complete(i)) \/ DeliverOrdered \/ (\E i \in 1..N : DeliverAny(i))
Spec == Init /\ [][Next]_vars /\ WF_vars(Next)
\* the client stores the k-th delivered value at index k: correct iff delivered[k] = k
ResultInOrder == \A k \in 1..Len(delivered) : delivered[k] = k
Terminates == <>(Len(delivered) = N)
====
