import json, re, numpy as np, logging, pydrex
from pydrex import core
pydrex.logger.CONSOLE_LOGGER.setLevel(logging.CRITICAL)
FAB={'A':0,'B':1,'C':2,'D':3,'E':4}
q=lambda x: x[0]/x[1]
worst=0;n_cases=0;ties=0
for line in open('out.txt'):
    if not line.startswith('<<"CASE"'): continue
    s=line[line.index(', "')+3: line.rindex('"')]
    k=json.loads(s.encode().decode('unicode_escape'))
    A=np.array([[q(x) for x in r] for r in k['A']]); L=np.array([[q(x) for x in r] for r in k['L']]); D=(L+L.T)/2
    for n in (3.5,2.0,5.0):
        bi=q(k['rint']); bi=bi*abs(bi)**(n-1); bm=q(k['rmin']); bm=bm*abs(bm)**(n-1)
        mono=np.array([1,bi,bm,bi*bi,bi*bm,bm*bm])
        P=lambda c: float(np.dot([q(x) for x in c],mono))
        R1=P(k['R1']);R2=P(k['R2']); g0=0 if abs(R1)<1e-15 else R2/R1
        dA=np.array([[q(k['U'][p][j])-P(k['V'][p][j])*g0 for j in range(3)] for p in range(3)])
        o,f=core.derivatives(4,0,FAB[k['fab']],1,A[None],np.array([1.]),D,L,np.zeros((3,3)),1.5,n,5.0,125.,1.)
        dev=np.abs(o[0]-dA).max(); worst=max(worst,dev); n_cases+=1
        if dev>1e-9: print('DEV',k['fab'],n,dev,k['tie'],k['roles'])
    ties+=k['tie']
print('cases',n_cases,'worst',worst,'ties',ties)
