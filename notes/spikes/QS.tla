---- MODULE QS ----
EXTENDS Integers, Sequences, FiniteSets, TLC, FiniteSetsExt
RECURSIVE GCD(_,_)
GCD(a,b) == IF b = 0 THEN a ELSE GCD(b, a % b)
Abs(x) == IF x < 0 THEN -x ELSE x
Norm(n,d) == LET g == GCD(Abs(n),Abs(d)) s == IF d < 0 THEN -1 ELSE 1 IN IF n = 0 THEN <<0,1>> ELSE <<s*(n \div g), s*(d \div g)>>
QAdd(a,b) == Norm(a[1]*b[2]+b[1]*a[2], a[2]*b[2])
QMul(a,b) == Norm(a[1]*b[1], a[2]*b[2])
Q(n) == <<n,1>>
Z == Q(0)
\* a + b*sqrt2 as <<a,b>>
S(a,b) == <<a,b>>
SZ == S(Z,Z)
SQ(r) == S(r,Z)
SAdd(x,y) == S(QAdd(x[1],y[1]), QAdd(x[2],y[2]))
SMul(x,y) == S(QAdd(QMul(x[1],y[1]), QMul(Q(2),QMul(x[2],y[2]))), QAdd(QMul(x[1],y[2]), QMul(x[2],y[1])))
SScale(r,x) == S(QMul(r,x[1]), QMul(r,x[2]))
R2 == S(Z,Q(1))            \* sqrt(2)
IR2 == S(Z,<<1,2>>)        \* 1/sqrt(2)
I21 == 1..21
I6 == 1..6
\* voigt_matrix_to_vector over QSqrt2 (matrix entries rational), 1-based transcription
M2V(M) == TLCEval([k \in I21 |->
   LET i == ((k-1) % 3) blk == (k-1) \div 3
       a == ((i+1) % 3) + 1  b == ((i+2) % 3) + 1   i1 == i + 1
   IN CASE blk = 0 -> SQ(M[i1][i1])
        [] blk = 1 -> SMul(R2, SQ(M[a][b]))
        [] blk = 2 -> SScale(Q(2), SQ(M[i1+3][i1+3]))
        [] blk = 3 -> SScale(Q(2), SQ(M[i1][i1+3]))
        [] blk = 4 -> SScale(Q(2), SQ(M[b][i1+3]))
        [] blk = 5 -> SScale(Q(2), SQ(M[a][i1+3]))
        [] blk = 6 -> SScale(Q(2), SMul(R2, SQ(M[a+3][b+3])))])
Dot(x,y) == FoldSet(LAMBDA k, acc : SAdd(SMul(x[k],y[k]), acc), SZ, I21)
\* hex projector on a 21-vector over QSqrt2
Hex(x) == TLCEval([k \in I21 |->
   LET s01 == SAdd(x[1],x[2])
       c1 == SAdd(SAdd(SScale(<<3,8>>, s01), SScale(<<1,4>>, SMul(IR2, x[6]))), SScale(<<1,4>>, x[9]))
       c6 == SAdd(SAdd(SScale(<<1,4>>, SMul(IR2, s01)), SScale(<<3,4>>, x[6])), SScale(<<-1,2>>, SMul(IR2, x[9])))
       c9 == SAdd(SAdd(SScale(<<1,4>>, s01), SScale(<<-1,2>>, SMul(IR2, x[6]))), SScale(<<1,2>>, x[9]))
   IN CASE k \in {1,2} -> c1 [] k = 3 -> x[3]
        [] k \in {4,5} -> SScale(<<1,2>>, SAdd(x[4],x[5]))
        [] k = 6 -> c6
        [] k \in {7,8} -> SScale(<<1,2>>, SAdd(x[7],x[8]))
        [] k = 9 -> c9
        [] OTHER -> SZ])
E(k) == [j \in I21 |-> IF j = k THEN SQ(Q(1)) ELSE SZ]
\* Frobenius inner product of the 4th-order tensors of two symmetric Voigt matrices
VI(p,q) == IF p = q THEN p ELSE 9 - p - q
I3 == 1..3
I4 == I3 \X I3 \X I3 \X I3
Frob(M1,M2) == FoldSet(LAMBDA x, acc : QAdd(QMul(M1[VI(x[1],x[2])][VI(x[3],x[4])], M2[VI(x[1],x[2])][VI(x[3],x[4])]), acc), Z, I4)
Basis == {<<i,j>> \in I6 \X I6 : i <= j}
BasisMat(b) == [i \in I6 |-> [j \in I6 |-> IF (<<i,j>> = b \/ <<j,i>> = b) THEN Q(1) ELSE Z]]
VARIABLE st
Init == \E k \in I21, b \in Basis : st = [k |-> k, b |-> b]
Next == FALSE /\ st' = st
Spec == Init /\ [][Next]_st
HexLemmas == \A j \in I21 : /\ Hex(Hex(E(st.k))) = Hex(E(st.k))
                            /\ Dot(Hex(E(st.k)), E(j)) = Dot(E(st.k), Hex(E(j)))
Isometry == \A c \in Basis : Dot(M2V(BasisMat(st.b)), M2V(BasisMat(c))) = SQ(Frob(BasisMat(st.b), BasisMat(c)))
====
