SPECIFICATION Spec
CONSTANTS N = 4  W = 3  Ordered = TRUE
INVARIANT ResultInOrder
PROPERTY Terminates
CHECK_DEADLOCK FALSE
