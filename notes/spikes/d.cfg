SPECIFICATION Spec
CONSTANTS Minerals = {a, b}  Files = {f1}  Postfixes = {"p", "q"}  MaxUpd = 2  MaxSaves = 2
INVARIANT SavedIntact
PROPERTY AppendOnlyExceptLoad
PROPERTY FailureAtomic
CONSTRAINT StateLimit
CHECK_DEADLOCK FALSE
