"""Binding of the exact D-Rex kernel (spec/DRexKernel.tla, DRexRates.tla, DRexGen.tla) to
pydrex.core.derivatives: TLC emits one term program per case; this module evaluates it with
the generic evaluator and calls the implementation on the same (exactly representable) inputs.
"""

from __future__ import annotations

import json
import os
import subprocess
import sys

import numpy as np

from harness import evalterm
from harness.common import MachineryError, parse_printed_json, run_tlc

FAB = {"A": (0, 0), "B": (0, 1), "C": (0, 2), "D": (0, 3), "E": (0, 4), "EN": (1, 5)}

PARAM_GRID_QUICK = [
    dict(n=3.5, p=1.5, lam=5.0, M=125.0, phi=1.0),  # defaults
    dict(n=2.0, p=2.0, lam=0.0, M=12.5, phi=0.7),  # all-rational point, non-integer mobility
    dict(n=5.0, p=1.0, lam=10.0, M=200.0, phi=0.3),
    dict(n=3.0, p=1.5, lam=5.0, M=0.0, phi=1.0),
]
PARAM_GRID_THOROUGH = PARAM_GRID_QUICK + [
    dict(n=n, p=p, lam=lam, M=M, phi=phi)
    for n in (2.0, 3.5, 5.0)
    for p in (1.0, 2.0)
    for lam, M, phi in ((0.0, 125.0, 1.0), (5.0, 50.0, 0.7), (10.0, 200.0, 0.3))
]


def generate_cases(tier, workers=16):
    cfg = "DRexGen" if tier != "thorough" else "DRexGen_thorough"
    res = run_tlc("DRexGen", cfg, workers=workers, timeout=3000)
    cases = parse_printed_json(res.output, "CASE")
    if not cases:
        raise MachineryError("DRexGen emitted no cases")
    if not all(c["lemmas"] for c in cases):
        raise MachineryError("a kernel lemma is false in an emitted case")
    return cases, res


def rat(x):
    return x[0] / x[1]


def mat(m):
    return np.array([[rat(x) for x in row] for row in m], dtype=float)


DELTAS = (1e-5, 1e-7, 3e-9)   # perturbation sizes for the nearly degenerate (limit) cases


def case_inputs(case, delta=None):
    A = np.array([mat(a) for a in case["As"]])
    if case.get("limit"):
        from scipy.linalg import expm

        A[0] = expm((delta if delta is not None else DELTAS[1]) * mat(case["W"])) @ A[0]
    L = mat(case["L"])
    f = np.array([rat(x) for x in case["f"]], dtype=float)
    return A, L, f


def expected(case, par):
    """Evaluate the spec's term program: returns (dA[g,3,3], df[g], kappa)."""
    env = dict(par)
    kappa = 1.0
    for g, defs in enumerate(case["defs"], start=1):
        evalterm.run_program(defs, env)
        # conditioning of the guarded least-squares quotient: 1 / R1(bi, bm)
        g0def = next(d for n_, d in defs if n_ == f"g0_{g}")
        if g0def[0] == "mul":  # limit case: delta * gdivpoly(...)
            g0def = g0def[2]
        den = evalterm.ev(["polyat", g0def[2], g0def[3], g0def[4]], env)
        if abs(den) > 0:
            kappa = max(kappa, 1.0 / abs(den))
    env["Ebar"] = evalterm.ev(case["ebar"], env)
    dA = np.array([[[evalterm.ev(t, env) for t in row] for row in g] for g in case["dA"]])
    df = np.array([evalterm.ev(t, env) for t in case["df"]])
    return dA, df, kappa


def call_impl(core, case, par, int_typed=False):
    phase, fabric = FAB[case["fab"]]
    A, L, f = case_inputs(case, par.get("delta"))
    if int_typed:     # the same orientations as an integer-typed array (only for integral entries)
        A = np.round(A).astype(np.int64)
    D = (L + L.T) / 2
    n = len(f)
    args = [A.copy(), f.copy(), D.copy(), L.copy(), np.zeros((3, 3))]
    out = core.derivatives(
        case["regime"], phase, fabric, n, args[0], args[1], args[2], args[3], args[4],
        par["p"], par["n"], par["lam"], par["M"], par["phi"],
    )
    # the rates are a function of the arguments: the caller's arrays (an aggregate state it may evaluate again with
    # other parameters) are left as they were
    for name, given, kept in zip(("orientations", "fractions", "strain_rate", "velocity_gradient", "deformation_gradient_spin"), args, (A, f, D, L, np.zeros((3, 3)))):
        if not np.array_equal(np.asarray(given, dtype=float), np.asarray(kept, dtype=float)):
            raise InputModified(name)
    return out


class InputModified(Exception):
    """derivatives changed one of the arrays it was handed"""


def case_key(case):
    return json.dumps([case["fab"], case["regime"], case["L"], case["As"], case["f"]])


def flagged(case):
    """A grain of the case is outside C02's quantifier (tie / nothing resolvable)."""
    return any(case["tie"]) or any(case["dead"]) or any(case["unresolved"])


def tol(exact, kappa, delta=None):
    scale = max(1.0, float(np.abs(exact).max()) if np.size(exact) else 1.0) * kappa
    if delta is not None:
        # first-order limit: the expected value is exact up to O(delta) (relative); constant 500 covers the
        # derivative of the rates with respect to the perturbation on the enumerated domain
        return 500.0 * delta * scale + 1e-9
    return 1e-9 * scale + 1e-12


# ---------------------------------------------------------------- interpreted (no-JIT) path
_NOJIT_SCRIPT = r"""
import json, sys, os
sys.path.insert(0, %(verif)r)
import numpy as np
from harness import kernel
from harness.common import quiet_pydrex
quiet_pydrex()
from pydrex import core
cases = json.load(open(sys.argv[1]))
out = []
for case, par in cases:
    try:
        o, f = kernel.call_impl(core, case, par)
        out.append(dict(ok=True, o=np.asarray(o).tolist(), f=np.asarray(f).tolist()))
    except Exception as e:
        out.append(dict(ok=False, exc=type(e).__name__))
json.dump(out, open(sys.argv[2], "w"))
"""


def run_nojit(pairs, scratch_dir):
    """Evaluate [(case, par)] with NUMBA_DISABLE_JIT=1 in a subprocess."""
    inp = os.path.join(scratch_dir, "nojit_in.json")
    outp = os.path.join(scratch_dir, "nojit_out.json")
    script = os.path.join(scratch_dir, "nojit.py")
    json.dump(pairs, open(inp, "w"))
    open(script, "w").write(_NOJIT_SCRIPT % dict(verif=str(os.path.dirname(os.path.dirname(os.path.abspath(__file__))))))
    env = dict(os.environ, NUMBA_DISABLE_JIT="1")
    p = subprocess.run([sys.executable, script, inp, outp], env=env, capture_output=True, text=True)
    if p.returncode != 0:
        raise MachineryError("interpreted-path subprocess failed:\n" + p.stderr[-2000:])
    return json.load(open(outp))
