"""Generic evaluator for the tiny expression language the specifications emit (DESIGN section 4).

A term is a JSON array whose head names the operator.  The evaluator knows arithmetic and
nothing about PyDRex; all formula knowledge lives in the TLA+ text that builds the terms.

  ["q", [n, d]]            rational constant          ["param", name]   run-time parameter
  ["var", name]            earlier definition         ["add"|"sub"|"mul"|"div", a, b]
  ["neg"|"abs"|"exp"|"sin"|"cos"|"sqrt"|"atan"|"acos"|"tan", a]
  ["gdiv", a, b]           a / b, but 0 when |b| < 1e-15 (the published guard)
  ["pow", a, b]            a ** b                      ["spow", a, e]    a * |a| ** (e - 1)
  ["atan2", y, x]
  ["poly", [c1..c6]]       c1 + c2*bi + c3*bm + c4*bi^2 + c5*bi*bm + c6*bm^2 with bi, bm from env
  ["sum", [t1, t2, ...]]
  ["polyat", [c1..c6], biname, bmname]      the same polynomial at the named environment variables
  ["gdivpoly", num6, den6, biname, bmname]  guarded quotient of two such polynomials
"""
import math
from fractions import Fraction


def q(x):
    return x[0] / x[1]


def qf(x):
    return Fraction(x[0], x[1])


def ev(t, env):
    op = t[0]
    if op == "q":
        return t[1][0] / t[1][1]
    if op in ("param", "var"):
        return env[t[1]]
    if op == "add":
        return ev(t[1], env) + ev(t[2], env)
    if op == "sub":
        return ev(t[1], env) - ev(t[2], env)
    if op == "mul":
        return ev(t[1], env) * ev(t[2], env)
    if op == "div":
        return ev(t[1], env) / ev(t[2], env)
    if op == "gdiv":
        b = ev(t[2], env)
        return 0.0 if abs(b) < 1e-15 else ev(t[1], env) / b
    if op == "neg":
        return -ev(t[1], env)
    if op == "abs":
        return abs(ev(t[1], env))
    if op == "pow":
        return ev(t[1], env) ** ev(t[2], env)
    if op == "spow":
        a = ev(t[1], env)
        return a * abs(a) ** (ev(t[2], env) - 1)
    if op == "exp":
        return math.exp(ev(t[1], env))
    if op == "sin":
        return math.sin(ev(t[1], env))
    if op == "cos":
        return math.cos(ev(t[1], env))
    if op == "tan":
        return math.tan(ev(t[1], env))
    if op == "sqrt":
        return math.sqrt(ev(t[1], env))
    if op == "atan":
        return math.atan(ev(t[1], env))
    if op == "acos":
        return math.acos(ev(t[1], env))
    if op == "atan2":
        return math.atan2(ev(t[1], env), ev(t[2], env))
    if op == "poly":
        c = [x[0] / x[1] for x in t[1]]
        bi, bm = env["bi"], env["bm"]
        return c[0] + c[1] * bi + c[2] * bm + c[3] * bi * bi + c[4] * bi * bm + c[5] * bm * bm
    if op in ("polyat", "gdivpoly"):
        def P(c, bi, bm):
            c = [x[0] / x[1] for x in c]
            return c[0] + c[1] * bi + c[2] * bm + c[3] * bi * bi + c[4] * bi * bm + c[5] * bm * bm
        if op == "polyat":
            return P(t[1], env[t[2]], env[t[3]])
        den = P(t[2], env[t[3]], env[t[4]])
        return 0.0 if abs(den) < 1e-15 else P(t[1], env[t[3]], env[t[4]]) / den
    if op == "sum":
        return sum(ev(x, env) for x in t[1])
    if op == "hatint":
        a, P = ev(t[1], env), ev(t[2], env)
        whole, r = divmod(a / P, 1.0)
        return P * (0.5 * whole + (r * r if r <= 0.5 else 0.5 - (1.0 - r) ** 2))
    raise ValueError(f"unknown term operator {op!r}")


def run_program(defs, env):
    """defs: ordered list of [name, term]; extends env in place and returns it."""
    for name, term in defs:
        env[name] = ev(term, env)
    return env
