"""Layer-B binding: replay behaviours of spec/PyDRex.tla on real pydrex objects, compare the
projected abstract state after every action, and record ndjson events for the trace spec.

Abstract -> concrete (concretisation) and concrete -> abstract (projection) live here.
"""

from __future__ import annotations

import hashlib
import json
import os
from pathlib import Path

import numpy as np

from harness.common import client_logging
from scipy.linalg import expm
from scipy.spatial.transform import Rotation

from harness.common import SEED, cap

NOCB = -99

# ---------------------------------------------------------------- concretisation tables
_S = 1.0


def _mat(rows):
    return np.array(rows, dtype=float)


def _unit_rate(L):
    """Scale so that the largest absolute principal strain rate is 1."""
    D = (L + L.T) / 2
    s = np.abs(np.linalg.eigvalsh(D)).max()
    return L / s if s > 0 else L


FLOWS = {
    "zero": np.zeros((3, 3)),
    "ss_xz": _mat([[0, 0, 2], [0, 0, 0], [0, 0, 0]]),
    "ss_zx": _mat([[0, 0, 0], [0, 0, 0], [2, 0, 0]]),
    "ss_yx": _mat([[0, 0, 0], [2, 0, 0], [0, 0, 0]]),
    "ss_xy": _mat([[0, 2, 0], [0, 0, 0], [0, 0, 0]]),
    "ss_yz": _mat([[0, 0, 0], [0, 0, 2], [0, 0, 0]]),
    "ss_zy": _mat([[0, 0, 0], [0, 0, 0], [0, 2, 0]]),
    "pure_xy": _mat([[1, 0, 0], [0, -1, 0], [0, 0, 0]]),
    "pure_xz": _mat([[1, 0, 0], [0, 0, 0], [0, 0, -1]]),
    "axi_c": _mat([[0.5, 0, 0], [0, 0.5, 0], [0, 0, -1]]),
    "axi_e": _mat([[-0.5, 0, 0], [0, -0.5, 0], [0, 0, 1]]),
    "axi_cy": _mat([[0.5, 0, 0], [0, -1, 0], [0, 0, 0.5]]),    # diagonal, extreme principal rate on y
    "axi_ex": _mat([[1, 0, 0], [0, -0.5, 0], [0, 0, -0.5]]),   # diagonal, extreme principal rate on x
    "gen3d": _unit_rate(_mat([[0.3, 0.9, -0.4], [-0.2, -0.5, 0.7], [0.6, 0.1, 0.2]])),
    "trace": _unit_rate(_mat([[0.8, 0.5, 0.0], [-0.3, 0.1, 0.4], [0.2, -0.6, -0.3]])),
    "rot": _mat([[0, -1, 0], [1, 0, 0], [0, 0, 0]]),  # pure vorticity: zero strain rate
    "pure_rot": _mat([[1, -0.7, 0], [0.7, -1, 0], [0, 0, 0]]),  # diagonal strain rate plus a rigid rotation about z
    "dil_rot": _mat([[-1, -0.6, 0], [0.6, -1, 0], [0, 0, -1]]),  # uniform compaction (isotropic strain rate) plus a rigid rotation
    "ss_int": _mat([[0, 0, 1], [0, 0, 0], [0, 0, 0]]),  # handed to the library as an INTEGER-typed array
}
PN_CLASSES = {0: (1.5, 3.5), 1: (1.0, 2.0), 2: (2.0, 5.0)}  # (p, n) classes of par.x[2]
DT = 0.2  # time span of one update call at unit strain rate (strain increment 0.2)


# time- and position-dependent commuting families L = g * M  (closed form: expm(M * int g))
# "spinup": the flow starts from REST - the velocity gradient is exactly zero at t = 0 (the start of the first update)
# and grows linearly afterwards, g(t) = 2 t
# "stop" / "stoprot": an INTERMITTENT flow - straining during the first half of every period of 0.26 (dimensionless
# time), and exactly at rest ("stop") or in rigid rotation only ("stoprot": zero strain rate, non-zero vorticity) during
# the second half; the period is incommensurate with the update span, so the strain rate vanishes and resumes INSIDE
# update calls.  "stoprot" is axisymmetric shortening along z plus a rotation about z: the two commute.
PERIOD = 0.26


def _on(t):
    return 1.0 if (t % PERIOD) < PERIOD / 2 else 0.0


def on_time(s):
    """int_0^s _on"""
    whole, r = divmod(s, PERIOD)
    return whole * PERIOD / 2 + min(r, PERIOD / 2)


TDEP = {"tdep": ("gen3d", lambda t, x: 1.0 + 0.5 * t), "xdep": ("trace", lambda t, x: 1.0 + 0.25 * x[0]), "spinup": ("gen3d", lambda t, x: 2.0 * t),
        "stop": ("gen3d", lambda t, x: _on(t)), "stoprot": ("axi_c", lambda t, x: _on(t))}
TADD = {"stoprot": 0.8 * np.array([[0.0, -1, 0], [1, 0, 0], [0, 0, 0]])}   # added to g * M
XVEL = np.array([0.7, -0.2, 0.1])  # pathline x(t) = XVEL * t for position-dependent flows


def flow_matrix(fl, rate=1.0, t=0.0):
    if fl in TDEP:
        base, g = TDEP[fl]
        return FLOWS[base] * rate * g(t * rate, XVEL * t * rate) + TADD.get(fl, 0.0) * rate
    return FLOWS[fl] * rate


def flow_callables(fl, rate=1.0):
    """(get_velocity_gradient(t, x), get_position(t)) for a flow class."""
    if fl in TDEP:
        base, g = TDEP[fl]
        M = FLOWS[base] * rate
        if fl in TADD:
            A = TADD[fl] * rate
            return (lambda t, x: M * g(t * rate, np.asarray(x) * 1.0) + A), (lambda t: XVEL * t * rate)
        return (lambda t, x: M * g(t * rate, np.asarray(x) * 1.0)), (lambda t: XVEL * t * rate)
    L = FLOWS[fl] * rate
    if fl.endswith("_int") and rate == 1.0:
        L = L.astype(int)   # hand-written integer velocity gradient
    return (lambda t, x: L), (lambda t: np.zeros(3))


def flow_integral(fl, t0, t1, rate=1.0):
    """int_{t0}^{t1} L dt for the commuting families (exact closed form)."""
    if fl == "tdep":
        s0, s1 = t0 * rate, t1 * rate
        return FLOWS["gen3d"] * ((s1 - s0) + 0.25 * (s1**2 - s0**2))
    if fl == "xdep":
        s0, s1 = t0 * rate, t1 * rate
        return FLOWS["trace"] * ((s1 - s0) + 0.125 * XVEL[0] * (s1**2 - s0**2))
    if fl == "spinup":
        s0, s1 = t0 * rate, t1 * rate
        return FLOWS["gen3d"] * (s1**2 - s0**2)
    if fl in ("stop", "stoprot"):
        s0, s1 = t0 * rate, t1 * rate
        return FLOWS[TDEP[fl][0]] * (on_time(s1) - on_time(s0)) + TADD.get(fl, 0.0) * (s1 - s0)
    return FLOWS[fl] * rate * (t1 - t0)


def strain_of(fl, t0, t1, rate=1.0, k=16):
    """accumulated strain int |dt| max|eig D| (midpoint rule; integrand is smooth)."""
    if fl in ("stop", "stoprot"):      # piecewise constant: exact
        M = FLOWS[TDEP[fl][0]]
        return abs(on_time(t1 * rate) - on_time(t0 * rate)) * np.abs(np.linalg.eigvalsh((M + M.T) / 2)).max()
    ts = np.linspace(t0, t1, k + 1)
    tm = (ts[1:] + ts[:-1]) / 2
    tot = 0.0
    for a, b, c in zip(ts[:-1], ts[1:], tm):
        L = flow_matrix(fl, rate, c)
        tot += (b - a) * np.abs(np.linalg.eigvalsh((L + L.T) / 2)).max()
    return tot


def make_params(par):
    import pydrex

    p = pydrex.DefaultParams().as_dict()
    asm = tuple(pydrex.MineralPhase(x) if x in (0, 1) else x for x in par["asm"])
    if len(asm) == 1:
        fr = (1.0,)
    else:
        ol = par["phiOl"] / 10.0
        fr = tuple(ol if a == 0 else 1.0 - ol for a in par["asm"])
    p["phase_assemblage"] = asm
    p["phase_fractions"] = fr
    p["gbm_mobility"] = par["M"]
    p["gbs_threshold"] = par["chi"] / 10.0
    x = par.get("x") or [5, 0]
    p["nucleation_efficiency"] = float(x[0])
    p["stress_exponent"], p["deformation_exponent"] = PN_CLASSES[x[1]]
    return p


def initial_texture(tex, n, seed):
    """Concrete initial (orientations, fractions) for a texture class; None = library default."""
    rng = np.random.default_rng([SEED, seed, n, sum(map(ord, tex))])
    if tex == "random":
        return None, None
    if tex == "replica":
        # grain i is an exact copy of grain i mod 3 (three generic orientations), equal volumes: copies of one grain
        # see the same arithmetic in every elementwise step of an update and must stay bit-identical
        base = Rotation.random(3, random_state=int(rng.integers(1 << 30))).as_matrix()
        return base[np.arange(n) % 3].copy(), np.full(n, 1.0 / n)
    if tex == "nonuniform":
        f = np.array([0.9] + [0.1 * 0.5 ** (k + 1) for k in range(n - 1)])
        f /= f.sum()
        o = Rotation.random(n, random_state=seed).as_matrix()
        return o, f
    if tex == "single":
        o = np.repeat(Rotation.random(1, random_state=seed).as_matrix(), n, axis=0)
        return o, np.full(n, 1.0 / n)
    if tex == "clustered":
        base = Rotation.random(1, random_state=seed)
        pert = Rotation.from_rotvec(rng.normal(scale=0.2, size=(n, 3)))
        return (pert * base).as_matrix(), np.full(n, 1.0 / n)
    if tex == "girdle":
        ang = rng.uniform(0, 2 * np.pi, n)
        o = Rotation.from_euler("zxz", np.c_[ang, np.full(n, np.pi / 2), rng.uniform(0, 2 * np.pi, n)]).as_matrix()
        return o, np.full(n, 1.0 / n)
    if tex == "aligned":
        return np.repeat(np.eye(3)[None], n, axis=0), np.full(n, 1.0 / n)
    if tex == "intaligned":
        # cube-group orientations written with integer literals (an integer-typed array), distinct per grain
        octa = np.round(Rotation.create_group("O").as_matrix()).astype(np.int64)
        return octa[rng.permutation(24)[np.arange(n) % 24]], np.full(n, 1.0 / n)
    if tex == "layoutc":   # the numbers of "layout" in plain C-ordered arrays
        return np.ascontiguousarray(Rotation.random(n, random_state=seed + 17).as_matrix()), np.full(n, 1.0 / n)
    if tex == "layout":
        # the client's arrays in an unusual memory representation: orientations as a transposed view of the
        # transposes (same values, not C-contiguous), volumes as a strided view into a larger array
        base = Rotation.random(n, random_state=seed + 17).as_matrix()
        form = (seed + n) % 3
        if form == 0:      # transposed view of the per-grain transposes
            o = np.ascontiguousarray(base.transpose(0, 2, 1)).transpose(0, 2, 1)
        elif form == 1:    # Fortran-ordered (what linear-algebra back ends and MATLAB files hand over)
            o = np.asfortranarray(base)
        else:              # a (3, 3, n) stack seen through moveaxis
            o = np.moveaxis(np.ascontiguousarray(np.moveaxis(base, 0, -1)), -1, 0)
        big = np.zeros(2 * n)
        big[::2] = 1.0 / n
        return o, big[::2]
    raise KeyError(tex)


# ---------------------------------------------------------------- projection
def sha(a):
    a = np.ascontiguousarray(np.asarray(a, dtype=np.float64))
    return hashlib.sha256(a.tobytes()).hexdigest()[:16]


class ClientFault(Exception):
    """The client's own exception, raised by a callable the client handed to the library (UpdateFaulted)."""


class FaultNotReached(Exception):
    """The planned fault point was never evaluated (harness bookkeeping, never a verdict)."""


def faulty_callables(fc, getL, getx, regime, t0, dt):
    """Wrap the client's callables so that ONE of them raises ClientFault at the point named by the fault code:
    "first"      - the velocity gradient, at its very first evaluation
    "vgrad_mid"  - the velocity gradient, at the first evaluation past the middle of the interval that comes after
                   its first three evaluations (update_orientations looks at start / end / midpoint values before
                   it integrates; those do not count, so the fault lands inside the integration)
    "vgrad_late" - the same past 95 % of the interval
    "pos_mid"    - the position callable, past the middle (after its first six evaluations)
    "regime_mid" - a regime callable that returns the mineral's current regime until it raises past the middle
    Returns (getL, getx, get_regime, fired) - fired() tells whether the fault was raised."""
    state = dict(nL=0, nx=0, fired=False)

    def fire():
        state["fired"] = True
        raise ClientFault(f"client callable failed ({fc})")

    def L(t, x):
        state["nL"] += 1
        if fc == "first":
            fire()
        if fc == "vgrad_mid" and state["nL"] > 3 and t > t0 + 0.5 * dt:
            fire()
        if fc == "vgrad_late" and state["nL"] > 3 and t > t0 + 0.95 * dt:
            fire()
        return getL(t, x)

    def X(t):
        state["nx"] += 1
        if fc == "pos_mid" and state["nx"] > 6 and t > t0 + 0.5 * dt:
            fire()
        return getx(t)

    def R(t, x):
        if t > t0 + 0.5 * dt:
            fire()
        return regime

    return L, X, (R if fc == "regime_mid" else None), (lambda: state["fired"])


def exc_class(e):
    if e is None:
        return "None"
    if isinstance(e, ClientFault):
        return "ClientFault"
    if isinstance(e, ValueError):
        return "ValueError"
    if isinstance(e, RuntimeError):
        return "RuntimeError"
    return "other:" + type(e).__name__


def replica_ok(o, f, n):
    """copies of one grain (i mod 3 equal) hold bit-identical orientations and volumes"""
    o, f = np.asarray(o), np.asarray(f)
    if o.shape != (n, 3, 3) or f.shape != (n,):
        return False
    idx = np.arange(n) % 3
    return bool(np.array_equal(o, o[idx]) and np.array_equal(f, f[idx]))


def snapshot_measures(o, f, n):
    """Integer validity measures of one stored snapshot (C01)."""
    o = np.asarray(o)
    f = np.asarray(f)
    shape_ok = o.shape == (n, 3, 3) and f.shape == (n,)
    finite = bool(np.all(np.isfinite(o)) and np.all(np.isfinite(f)))
    if not (shape_ok and finite):
        return dict(shapeOK=shape_ok, finite=finite, minFneg=True, sumDev_e15=cap(float("inf")), absLe1=False, detPos=False, ortho_e9=cap(float("inf")))
    dev = np.abs(np.einsum("nij,nkj->nik", o, o) - np.eye(3)).max()
    return dict(
        shapeOK=True,
        finite=True,
        minFneg=bool(f.min() < 0),
        sumDev_e15=cap(abs(f.sum() - 1.0) * 1e15),
        absLe1=bool(np.abs(o).max() <= 1.0),
        detPos=bool(np.linalg.det(o).min() > 0),
        ortho_e9=cap(dev * 1e9),
    )


class World:
    """The real objects a behaviour acts on, plus what the client would hold."""

    def __init__(self, scratch_dir, n_override=None, rate=1.0, dt=None, F0=None, solver_kw=None, origin=0.0):
        import pydrex

        # clock origin of the client: the library is called with times origin + t and the client's callables are
        # functions of the elapsed time t (they subtract the origin themselves), so every closed form below stays a
        # function of elapsed time.  An update over [T, T + dt] is an update over dt whatever the size of T.
        self.origin = float(origin)
        self.relative_to = None     # set by run_behaviours: writers spell archive paths relative to the working directory

        self.pydrex = pydrex
        self.dir = Path(scratch_dir)
        self.minerals = {}
        self.F = {}
        self.t = {}
        self.Fexp = {}  # reference F: product of matrix exponentials (leaf function)
        self.strain = {}
        self.nupd = {}
        self.fid_registry = {}  # sha -> canonical id of a fractions array
        self.fids = {}  # mineral -> list of canonical ids parallel to .fractions
        self.seed = {}  # mineral -> seed it was constructed with (None when built by from_file)
        self.rate = rate
        self.F0 = np.eye(3) if F0 is None else np.asarray(F0, dtype=float)   # deformation gradient the client starts from
        self.dt = (dt if dt is not None else DT) / rate
        self.n_override = n_override
        # documented pass-through keyword arguments of the update calls (handed on to the ODE solver); the same ones
        # are given to every per-mineral and every bulk update of this world
        self.solver_kw = dict(solver_kw or {})
        # every second world hands the library ONE parameter dictionary object for its whole history, edited in place
        # between calls (what a client does who changes one entry of its params before the next update); the other
        # worlds build a fresh dictionary per call
        World._count = getattr(World, "_count", 0) + 1
        self._params_obj = {} if World._count % 2 == 0 else None
        self.events = []

    # -- helpers
    def clocked(self, getL, getx):
        """The client's callables on the client's clock (elapsed time = clock time - origin)."""
        if self.origin == 0.0:
            return getL, getx
        o = self.origin
        return (lambda t, x: getL(t - o, x)), (lambda t: getx(t - o))

    def params(self, par):
        p = make_params(par)
        # the kind of container the client keeps its phase lists in differs from world to world: tuples, lists, or - for
        # the fractions - ONE float64 array per distinct value that the client built once and hands over with every call
        # of its history (what it holds must still hold the same numbers after a call: nobody else may write into it)
        kind = getattr(World, "_count", 0) % 3
        if kind == 1:
            p["phase_fractions"], p["phase_assemblage"] = list(p["phase_fractions"]), list(p["phase_assemblage"])
        elif kind == 2:
            self._held_fractions = getattr(self, "_held_fractions", {})
            key = tuple(p["phase_fractions"])
            if key not in self._held_fractions:
                self._held_fractions[key] = np.array(key, dtype=np.float64)
            p["phase_fractions"] = self._held_fractions[key]
        if self._params_obj is None:
            return p
        self._params_obj.clear()
        self._params_obj.update(p)
        return self._params_obj

    def file(self, f, op="save"):
        # deliberately different spellings of the SAME archive path: writers spell it with "/./", Mineral.load with the
        # canonical path and Mineral.from_file with a doubled separator - results must not depend on how the client
        # spells the path, nor on whether the reader spells it like the writer did
        if op == "load":
            return str(self.dir / f"{f}.npz")
        if self.relative_to is not None and op == "save":
            # the client works in a directory of its own (entered after pydrex was imported) and names the archive
            # relatively when it writes; readers use the absolute spelling
            return os.path.relpath(self.dir / f"{f}.npz", self.relative_to)
        if op == "from_file":
            return str(self.dir) + "//" + f"{f}.npz"
        return str(self.dir) + "/./" + f"{f}.npz"

    def canon_fid(self, arr, prev=None):
        s = sha(arr)
        if s in self.fid_registry:
            return self.fid_registry[s]
        if prev is not None:
            parr, pid = prev
            if np.shape(parr) == np.shape(arr) and np.all(np.isfinite(arr)) and np.abs(np.asarray(arr) - np.asarray(parr)).max() <= 1e-12:
                self.fid_registry[s] = pid
                return pid
        self.fid_registry[s] = s
        return s

    def refresh_fids(self, m):
        """Canonical ids for every stored fractions array of mineral m."""
        mn = self.minerals[m]
        ids = []
        prev = None
        for arr in mn.fractions:
            i = self.canon_fid(arr, prev)
            ids.append(i)
            prev = (arr, i)
        self.fids[m] = ids

    # -- actions
    def do(self, act):
        """Execute one abstract action; return the outcome class."""
        a = act["a"]
        try:
            # the client's logging configuration (as found / silenced / DEBUG) differs from world to world; what the
            # library does must not depend on it
            with client_logging(getattr(World, "_count", 0), debug_log=getattr(World, "debug_log", False)):
                getattr(self, "_" + a)(act)
            err = None
        except BaseException as e:  # noqa: BLE001 - outcome classification is the point
            if isinstance(e, (KeyboardInterrupt, SystemExit, MemoryError)):
                raise
            err = e
        self.last_exc = err
        return exc_class(err)

    def _Create(self, act):
        pd = self.pydrex
        c = act["c"]
        n = self.n_override or c["n"]
        o, f = initial_texture(act["tex"], n, act["seed"])
        kw = {}
        if o is not None:
            kw = dict(orientations_init=o, fractions_init=f)
        m = pd.Mineral(phase=c["phase"], fabric=c["fabric"], regime=c["regime"], n_grains=n, seed=act["seed"], **kw)
        name = act["m"]
        self.minerals[name] = m
        self.texture = getattr(self, "texture", {})
        self.texture[name] = act["tex"]
        self.seed[name] = act["seed"]
        self.F[name] = self.F0.copy()
        self.Fexp[name] = self.F0.copy()
        self.t[name] = 0.0
        self.strain[name] = 0.0
        self.nupd[name] = 0
        self.refresh_fids(name)

    def _update(self, name, fl, par, cb, F):
        m = self.minerals[name]
        dt = self.dt
        t0 = self.t[name]
        getL, getx = self.clocked(*flow_callables(fl, self.rate))
        o = self.origin
        if cb in (None, NOCB):
            get_regime = None
        elif cb >= 100:  # late switch: the current regime for the first half of the interval, then cb - 100
            r0, tmid = m.regime, o + t0 + 0.5 * dt
            get_regime = lambda t, x: r0 if t < tmid else cb - 100  # noqa: E731
        else:
            get_regime = lambda t, x: cb  # noqa: E731
        self.client_peeks_rates(m)
        Fn = m.update_orientations(self.params(par), F, getL, (o + t0, o + t0 + dt, getx), get_regime=get_regime, **dict(self.solver_kw))
        return Fn, fl, dt

    def client_peeks_rates(self, m):
        """A stuttering step of the Layer-B machine: in every third world the client evaluates the public rate function
        itself on the mineral's current state and regime before it asks for the update (its own diagnostics, its own
        integrator), and does what it likes with the arrays it gets back - they are the client's.  Nothing the
        specification talks about moves."""
        if getattr(World, "_count", 0) % 3 != 1:
            return
        try:
            from harness.chatter import scribble

            core = self.pydrex.core
            n = int(m.n_grains)
            L = np.array([[0.0, 2.0, 0.0], [0.0, 0.0, 0.0], [0.0, 0.0, 0.0]])
            D = (L + L.T) / 2
            for regime in (m.regime, core.DeformationRegime.min_viscosity, core.DeformationRegime.max_viscosity):
                out = core.derivatives(regime, m.phase, m.fabric, n, np.array(m.orientations[-1], dtype=float), np.array(m.fractions[-1], dtype=float), D, L, np.zeros((3, 3)), 3.5, 1.5, 5.0, 125.0, 1.0)
                held = (out, getattr(self, "_held_rates", None))
                scribble(out)
                self._held_rates = out
                del held
        except Exception:  # noqa: BLE001 - which regimes / pairs the rate function refuses is C07's dispatch table, judged elsewhere
            pass

    def _advance(self, name, fl, dt):
        t0 = self.t[name]
        self.Fexp[name] = expm(flow_integral(fl, t0, t0 + dt, self.rate)) @ self.Fexp[name]
        self.strain[name] += strain_of(fl, t0, t0 + dt, self.rate)
        self.t[name] = t0 + dt
        self.nupd[name] += 1

    def _after_ok(self, name, Fn, fl, dt):
        self.F[name] = Fn
        self._advance(name, fl, dt)

    def _UpdateOk(self, act):
        name = act["m"]
        # The client passes the reference deformation gradient of the mineral's flow path (a
        # function of the path only), not the previously returned one: returned values of
        # different minerals agree only to solver tolerance, and bit-for-bit comparisons across
        # interleavings need bit-identical inputs.  The returned F is still checked (C06).
        Fn, L, dt = self._update(name, act["fl"], act["par"], act.get("cb"), self.Fexp[name].copy())
        self._after_ok(name, Fn, L, dt)

    _UpdateRejected = _UpdateOk
    _UpdatePhaseAbsent = _UpdateOk

    def _Clone(self, act):
        import copy
        import pickle

        src, dst = act["m"], act["m2"]
        m = self.minerals[src]
        self.minerals[dst] = copy.deepcopy(m) if act["how"] == "deepcopy" else pickle.loads(pickle.dumps(m))
        for book in (self.F, self.Fexp):
            book[dst] = book[src].copy()
        for book in (self.t, self.strain, self.nupd, self.seed):
            book[dst] = book[src]
        self.texture = getattr(self, "texture", {})
        self.texture[dst] = self.texture.get(src)
        self.refresh_fids(dst)

    def _UpdateFaulted(self, act):
        name = act["m"]
        m = self.minerals[name]
        t0, dt = self.origin + self.t[name], self.dt
        getL, getx = self.clocked(*flow_callables(act["fl"], self.rate))
        L, X, R, fired = faulty_callables(act["fc"], getL, getx, m.regime, t0, dt)
        self.F_before_fault = self.Fexp[name].copy()
        Fin = self.Fexp[name].copy()
        try:
            m.update_orientations(self.params(act["par"]), Fin, L, (t0, t0 + dt, X), get_regime=R, **dict(self.solver_kw))
        finally:
            self.fault_F_untouched = bool(np.array_equal(Fin, self.F_before_fault))
        if not fired():
            raise FaultNotReached(act["fc"])

    def _UpdateAllFaulted(self, act):
        ms = act["ms"]
        t0, dt = self.origin + self.t[ms[0]], self.dt
        getL, getx = self.clocked(*flow_callables(act["fl"], self.rate))
        L, X, R, fired = faulty_callables(act["fc"], getL, getx, self.minerals[ms[0]].regime, t0, dt)
        Fin = self.Fexp[ms[0]].copy()
        keep = Fin.copy()
        try:
            self.pydrex.update_all([self.minerals[x] for x in ms], self.params(act["par"]), Fin, L, (t0, t0 + dt, X), get_regime=R, **dict(self.solver_kw))
        finally:
            self.fault_F_untouched = bool(np.array_equal(Fin, keep))
        if not fired():
            raise FaultNotReached(act["fc"])

    def _UpdateAllOk(self, act):
        pd = self.pydrex
        ms = act["ms"]
        fl = act["fl"]
        getL, getx = self.clocked(*flow_callables(fl, self.rate))
        dt = self.dt
        t0 = self.t[ms[0]]
        lens = {x: len(self.minerals[x].orientations) for x in ms}
        try:
            Fn = pd.update_all(
                [self.minerals[x] for x in ms],
                self.params(act["par"]),
                self.Fexp[ms[0]].copy(),
                getL,
                (self.origin + t0, self.origin + t0 + dt, getx),
                **dict(self.solver_kw),
            )
        finally:
            # bookkeeping for the minerals that did move on (UpdateAllPartial)
            for x in ms:
                if len(self.minerals[x].orientations) == lens[x] + 1:
                    self._advance(x, fl, dt)
                    self.F[x] = self.Fexp[x].copy()  # client has no returned value on failure
        for x in ms:
            self.F[x] = Fn

    _UpdateAllPartial = _UpdateAllOk

    def _UpdateBadArgs(self, act):
        name = act["m"]
        m = self.minerals[name]
        getL, getx = flow_callables("ss_xz", self.rate)
        par = dict(M=125, chi=3, asm=[int(m.phase)] if int(m.phase) in (0, 1) else [0], phiOl=10, x=[5, 0])
        if act["which"] == "velocity_gradient":
            getL = np.zeros((3, 3))          # an array instead of a callable
        else:
            getx = np.zeros(3)
        m.update_orientations(make_params(par), self.Fexp[name].copy(), getL, (self.origin + self.t[name], self.origin + self.t[name] + self.dt, getx))

    def _VoigtOk(self, act):
        ms = [self.minerals[x] for x in act["ms"]]
        p = make_params(act["par"])
        self.voigt_out = None
        out = self.pydrex.voigt_averages(ms, list(p["phase_assemblage"]), list(p["phase_fractions"]))
        self.voigt_out = out

    _VoigtRejected = _VoigtOk

    def _SavePostfix(self, act):
        # the postfix is handed over by keyword or positionally (same call): alternate by the postfix itself
        if len(act["pf"]) % 2 == 0:
            self.minerals[act["m"]].save(self.file(act["f"]), act["pf"])
        else:
            self.minerals[act["m"]].save(self.file(act["f"]), postfix=act["pf"])

    def _SaveWholeFile(self, act):
        self.minerals[act["m"]].save(self.file(act["f"]))

    def _SaveCorrupt(self, act):
        m = self.minerals[act["m"]]
        variant = (len(act["pf"]) + len(m.fractions) + sum(map(ord, act["m"]))) % 6
        path = self.file(act["f"])
        before = Path(path).read_bytes() if os.path.exists(path) else None
        listing = sorted(os.listdir(self.dir))
        self.corrupt_variant = variant
        try:
            if variant == 0:  # unequal snapshot counts
                m.fractions.append(m.fractions[-1])
                try:
                    m.save(path, postfix=act["pf"])
                finally:
                    m.fractions.pop()
            elif variant == 1:  # arrays do not match the grain count
                n = m.n_grains
                m.n_grains = n + 1
                try:
                    m.save(path, postfix=act["pf"])
                finally:
                    m.n_grains = n
            elif variant == 2:  # whole-file save of a corrupt mineral
                m.orientations.append(m.orientations[-1])
                try:
                    m.save(path)
                finally:
                    m.orientations.pop()
            else:
                # the LAST stored snapshot does not match the grain count (counts equal, first snapshot intact when
                # there is more than one): volumes (3), orientations (4) under a postfix, volumes in a whole-file save (5)
                which = m.orientations if variant == 4 else m.fractions
                keep = which[-1]
                which[-1] = keep[:-1] if len(keep) > 1 else np.concatenate([keep, keep])
                try:
                    if variant == 5:
                        m.save(path)
                    else:
                        m.save(path, postfix=act["pf"])
                finally:
                    which[-1] = keep
        finally:
            after = Path(path).read_bytes() if os.path.exists(path) else None
            self.corrupt_wrote = (before != after) or (sorted(os.listdir(self.dir)) != listing)

    def _Load(self, act):
        k = act["k"]
        if k == "none":           # whole file: no postfix argument at all / an explicit None, alternating
            if len(act["f"]) % 2 == 0 or act["m"] in ("b", "d"):
                self.minerals[act["m"]].load(self.file(act["f"], "load"))
            else:
                self.minerals[act["m"]].load(self.file(act["f"], "load"), postfix=None)
        elif len(k) % 2 == 0:     # keyword / positional
            self.minerals[act["m"]].load(self.file(act["f"], "load"), k)
        else:
            self.minerals[act["m"]].load(self.file(act["f"], "load"), postfix=k)
        self.refresh_fids(act["m"])

    def _FromFile(self, act):
        k = act["k"]
        name = act["m"]
        if k == "none":
            self.minerals[name] = self.pydrex.Mineral.from_file(self.file(act["f"], "from_file")) if name in ("a", "c") else self.pydrex.Mineral.from_file(self.file(act["f"], "from_file"), postfix=None)
        elif len(k) % 2 == 1:
            self.minerals[name] = self.pydrex.Mineral.from_file(self.file(act["f"], "from_file"), k)
        else:
            self.minerals[name] = self.pydrex.Mineral.from_file(self.file(act["f"], "from_file"), postfix=k)
        self.seed[name] = None
        self.F[name] = np.eye(3)
        self.Fexp[name] = np.eye(3)
        self.t[name] = 0.0
        self.strain[name] = 0.0
        self.nupd[name] = 0
        self.refresh_fids(name)

    def _LoadBadName(self, act):
        name = act["m"]
        bad = str(self.dir / "archive.npy")
        if name in self.minerals:
            self.minerals[name].load(bad)
        else:
            self.pydrex.Mineral.from_file(bad)

    # -- trace events (code -> spec)
    EVKIND = {"UpdateOk": "Update", "UpdateRejected": "Update", "UpdatePhaseAbsent": "Update", "VoigtOk": "Voigt", "VoigtRejected": "Voigt",
              "UpdateAllOk": "UpdateAll", "UpdateAllPartial": "UpdateAll"}
    # UpdateFaulted / UpdateAllFaulted keep their own event names: the trace specification binds them to the
    # fault actions (the client knows that its own callable raised)

    def observe(self, name, grew, dstrain):
        m = self.minerals[name]
        n = int(m.n_grains)
        if len(self.fids.get(name, [])) != len(m.fractions):
            self.refresh_fids(name)
        v = snapshot_measures(m.orientations[-1], m.fractions[-1], n)
        if getattr(self, "texture", {}).get(name) == "replica":
            v["replicaOK"] = replica_ok(m.orientations[-1], m.fractions[-1], n)
        return dict(
            cfg=dict(phase=int(m.phase), fabric=int(m.fabric), regime=int(m.regime), n=n),
            odig=[sha(o) for o in m.orientations],
            fdig=list(self.fids[name]),
            nf=len(m.fractions),
            v=v,
            dstrain_e6=cap(dstrain * 1e6) if grew else 0,
        )

    def disk_projection(self):
        out = {}
        for f, recs in self.project_disk().items():
            if recs:
                out[f] = {k: (dict(meta=r["meta"], n=r["n"], odig=[h["o"] for h in r["hist"]], fdig=[h["f"] for h in r["hist"]])
                              if "__unreadable__" not in r else dict(meta=[-1, -1, -1], n=-1, odig=[], fdig=[]))   # orphan / incomplete entry
                          for k, r in recs.items()}
        return out

    def event(self, tid, act, err, lens_before):
        a = act["a"]
        ev = dict(tid=tid, ev=self.EVKIND.get(a, a), exc=err)
        for k in ("m", "ms", "fl", "par", "cb", "f", "pf", "k", "which", "fc", "m2", "how"):
            if k in act:
                ev[k] = act[k]
        names = [act["m"]] if "m" in act else list(act.get("ms", []))
        if a == "Clone":
            names.append(act["m2"])
        obs = {}
        for name in names:
            if name in self.minerals:
                grew = len(self.minerals[name].orientations) == lens_before.get(name, 0) + 1
                ds = strain_of(act["fl"], self.t[name] - self.dt, self.t[name], self.rate) if ("fl" in act and grew) else 0.0
                obs[name] = self.observe(name, grew, ds)
        ev["obs"] = obs
        if a == "Create":
            f0 = self.minerals[act["m"]].fractions[0]
            ev["uniform"] = bool(np.all(f0 >= 1.0 / len(f0) * (1 - 1e-12)))
            ev["default"] = act.get("tex") == "random"      # constructed from the seed alone
        ev["disk"] = self.disk_projection()
        return ev

    # -- projection
    def project_disk(self):
        return self.project()["disk"]

    def project(self):
        st = {"cfg": {}, "hist": {}, "disk": {}}
        for name, m in self.minerals.items():
            st["cfg"][name] = dict(phase=int(m.phase), fabric=int(m.fabric), regime=int(m.regime), n=int(m.n_grains))
            if len(self.fids.get(name, [])) != len(m.fractions):
                self.refresh_fids(name)
            st["hist"][name] = [dict(o=sha(o), f=fid) for o, fid in zip(m.orientations, self.fids[name])]
            st.setdefault("lens", {})[name] = (len(m.orientations), len(m.fractions))
        for p in sorted(self.dir.glob("*.npz")):
            f = p.stem
            try:
                data = np.load(p)
                files = set(data.files)
            except Exception as e:  # noqa: BLE001
                st["disk"][f] = {"__unreadable__": repr(e)}
                continue
            recs = {}
            for key in files:
                if key == "meta" or key.startswith("meta_"):
                    k = "none" if key == "meta" else key[5:]
                    suf = "" if k == "none" else "_" + k
                    try:
                        fr = data["fractions" + suf]
                        ori = data["orientations" + suf]
                        recs[k] = dict(
                            meta=[int(x) for x in data[key]],
                            n=int(fr.shape[1]),
                            hist=[dict(o=sha(o), f=self.canon_fid(fa)) for o, fa in zip(ori, fr)],
                        )
                    except Exception as e:  # noqa: BLE001
                        recs[k] = {"__unreadable__": repr(e)}
            st["disk"][f] = recs
        return st


# ---------------------------------------------------------------- comparison
def term_key(t):
    return json.dumps(t, separators=(",", ":"))


class Comparator:
    """Compares projected implementation state with the specification's state.

    Mismatches are tagged with the property whose clause they break.
    """

    def __init__(self):
        self.omap = {}  # term -> digest   (bitwise: equal terms => identical arrays)
        self.fmap = {}
        self.mismatches = []  # (property, clause, detail)
        self.notes = {}

    def bad(self, prop, clause, **detail):
        self.mismatches.append((prop, clause, detail))

    def bind(self, table, term, digest, prop, clause, ctx):
        k = term_key(term)
        if k in table:
            if table[k] != digest:
                self.bad(prop, clause, term=term, digest=digest, expected=table[k], **ctx)
        else:
            table[k] = digest

    def compare(self, spec, impl, world, act, err_impl, step):
        ctx = dict(step=step, act=act)
        a = act["a"]
        # outcome class
        if spec["err"] != err_impl:
            if a.startswith("Voigt"):
                prop = "C10"
            elif a.startswith("Update"):
                prop = "C07"
            elif a in ("SaveCorrupt", "LoadBadName", "SavePostfix", "SaveWholeFile", "Load", "FromFile"):
                prop = "C17"
            else:
                prop = "C01"
            self.bad(prop, "outcome", expected=spec["err"], got=err_impl, exc=repr(getattr(world, "last_exc", None))[:200], **ctx)
        if a == "VoigtOk" and err_impl == "None":
            out = getattr(world, "voigt_out", None)
            ok = out is not None and out.shape == (act["steps"], 6, 6) and bool(np.all(np.isfinite(out))) and bool(np.allclose(out, np.transpose(out, (0, 2, 1)), rtol=1e-12, atol=1e-9))
            if not ok:
                self.bad("C10", "voigt-result-shape-or-symmetry", shape=None if out is None else list(out.shape), **ctx)
        if a == "SaveCorrupt" and getattr(world, "corrupt_wrote", False):
            self.bad("C17", "rejected-save-wrote", variant=world.corrupt_variant, **ctx)
        for name, c in spec["cfg"].items():
            live = isinstance(c, dict)
            if not live:
                continue
            if name not in impl["cfg"]:
                self.bad("C01", "mineral-missing", m=name, **ctx)
                continue
            ic = impl["cfg"][name]
            for k in ("phase", "fabric", "regime", "n"):
                if ic[k] != c[k]:
                    prop = "C17" if a in ("Load", "FromFile") else "C07"
                    self.bad(prop, "config-" + k, m=name, expected=c[k], got=ic[k], **ctx)
            sh = spec["hist"][name]
            ih = impl["hist"][name]
            lo, lf = impl["lens"][name]
            if lo != len(sh) or lf != len(sh):
                failed = spec["err"] != "None"
                prop = "C07" if (failed and a.startswith("Update")) else ("C17" if a in ("Load", "FromFile") else "C01")
                self.bad(prop, "history-length", m=name, expected=len(sh), got=[lo, lf], **ctx)
                if a.startswith("UpdateAll") and min(lo, lf) < len(sh):
                    # a bulk update took snapshots AWAY from a mineral: whatever happened to the call, this mineral no
                    # longer evolves as the single-phase mineral it is (C08: minerals share no hidden state)
                    self.bad("C08", "bulk-update-rewound-a-history", m=name, expected=len(sh), got=[lo, lf], **ctx)
                continue
            for k, (s, i) in enumerate(zip(sh, ih)):
                prop = "C17" if a in ("Load", "FromFile") else ("C01" if a == "Create" else "C08")
                self.bind(self.omap, s["o"], i["o"], prop, "content-function-o", dict(m=name, snap=k, **ctx))
                self.bind(self.fmap, s["f"], i["f"], prop, "content-function-f", dict(m=name, snap=k, **ctx))
        # the equality operator agrees with the abstract state (extension of the twins clause): two minerals
        # with the same configuration, the same construction seed and the same history terms compare equal;
        # minerals whose configurations differ compare unequal
        live = [n for n, c in spec["cfg"].items() if isinstance(c, dict) and n in world.minerals]
        for i, n1 in enumerate(live):
            for n2 in live[i + 1:]:
                try:
                    eq = bool(world.minerals[n1] == world.minerals[n2])
                except Exception as e:  # noqa: BLE001
                    self.bad("C08", "equality-operator-raised", m=[n1, n2], exc=repr(e)[:100], **ctx)
                    continue
                same_cfg = spec["cfg"][n1] == spec["cfg"][n2]
                same = same_cfg and spec["hist"][n1] == spec["hist"][n2] and world.seed.get(n1) == world.seed.get(n2)
                if same and not eq:
                    self.bad("C08", "equality-operator", m=[n1, n2], expected=True, got=eq, **ctx)
                elif not same_cfg and eq:
                    self.bad("C08", "equality-operator", m=[n1, n2], expected=False, got=eq, **ctx)
        # disk
        for f, recs in spec["disk"].items():
            irecs = impl["disk"].get(f, {})
            skeys = set(recs.keys()) if isinstance(recs, dict) else set()
            ikeys = set(irecs.keys())
            if skeys != ikeys:
                self.bad("C17", "archive-keys", file=f, expected=sorted(skeys), got=sorted(ikeys), **ctx)
                continue
            for k in skeys:
                r, ir = recs[k], irecs[k]
                if "__unreadable__" in ir:
                    self.bad("C17", "archive-unreadable", file=f, key=k, detail=ir["__unreadable__"], **ctx)
                    continue
                if list(r["meta"]) != ir["meta"] or r["n"] != ir["n"] or len(r["hist"]) != len(ir["hist"]):
                    self.bad("C17", "archive-record", file=f, key=k, expected=dict(meta=r["meta"], n=r["n"], len=len(r["hist"])), got=dict(meta=ir["meta"], n=ir["n"], len=len(ir["hist"])), **ctx)
                    continue
                for j, (s, i) in enumerate(zip(r["hist"], ir["hist"])):
                    self.bind(self.omap, s["o"], i["o"], "C17", "archive-content-o", dict(file=f, key=k, snap=j, **ctx))
                    self.bind(self.fmap, s["f"], i["f"], "C17", "archive-content-f", dict(file=f, key=k, snap=j, **ctx))


def budget(n, strain):
    return 5e-3 + 1e-3 * (n + 2 * strain)


def replay_behaviour(beh, scratch_dir, comparator, tid, events, n_override=None, rate=1.0, fcheck=True, dt=None, F0=None, solver_kw=None, origin=0.0, relative_to=None):
    """Run one behaviour (list of projected spec states, first = initial) on real objects."""
    w = World(scratch_dir, n_override=n_override, rate=rate, dt=dt, F0=F0, solver_kw=solver_kw, origin=origin)
    if relative_to is not None:
        w.relative_to = relative_to
    # pre-built minerals: replay their construction, compare once against the initial state
    pre = beh[0].get("pre") or []
    for k, a in enumerate(pre):
        lens_before = {name: len(m.orientations) for name, m in w.minerals.items()}
        err = w.do(a)
        events.append(w.event(tid, a, err, lens_before))
        if k == len(pre) - 1:
            comparator.compare(dict(beh[0], err="None"), w.project(), w, a, err, 0)
    for step, st in enumerate(beh[1:], start=1):
        act = st["act"]
        lens_before = {name: len(m.orientations) for name, m in w.minerals.items()}
        err = w.do(act)
        impl = w.project()
        n_before = len(comparator.mismatches)
        if act["a"] in ("UpdateFaulted", "UpdateAllFaulted"):
            if err == "other:FaultNotReached":
                # the integration ended without evaluating the planned fault point: no verdict on this call, and the
                # rest of the behaviour no longer matches the model's state
                comparator.notes["fault-not-reached"] = comparator.notes.get("fault-not-reached", 0) + 1
                break
            if err == "None":
                comparator.bad("C07", "client-fault-swallowed", step=step, act=act)
                events.append(w.event(tid, act, err, lens_before))
                break
            comparator.notes["faults-" + act["fc"]] = comparator.notes.get("faults-" + act["fc"], 0) + 1
            st = dict(st, err=err)     # whatever exception class comes out: only failure atomicity is demanded
        if act["a"] in ("UpdatePhaseAbsent",) or (act["a"] == "UpdateAllPartial" and st["err"] == "RuntimeError"):
            # named deviation, not promised by any property: only failure atomicity is demanded
            if err == "None":
                comparator.notes["phase-absent-accepted"] = comparator.notes.get("phase-absent-accepted", 0) + 1
                events.append(w.event(tid, act, err, lens_before))
                break
            st = dict(st, err=err)
        comparator.compare(st, impl, w, act, err, step)
        if len(comparator.mismatches) > n_before:
            comparator.notes["truncated-behaviours"] = comparator.notes.get("truncated-behaviours", 0) + 1
            events.append(w.event(tid, act, err, lens_before))
            break
        # F (C06): returned deformation gradient vs product of exponentials, budgeted
        if fcheck and err == "None" and act["a"] in ("UpdateOk", "UpdateAllOk"):
            for name in [act["m"]] if "m" in act else act["ms"]:
                ref = w.Fexp[name]
                rel = np.abs(w.F[name] - ref).max() / max(1.0, np.abs(ref).max())
                if not (rel <= budget(w.nupd[name], w.strain[name])):
                    comparator.bad("C06", "F-budget", m=name, rel=float(rel), step=step, act=act)
        # one event per call for the trace specification
        events.append(w.event(tid, act, err, lens_before))
    return w


# ---------------------------------------------------------------- TLC drivers
def generate_behaviours(module, cfg, num, depth, seed, workers=1, timeout=600):
    """Random behaviours of a Layer-B configuration (tlc -simulate), as lists of projected states."""
    from harness.common import parse_printed_json, run_tlc

    res = run_tlc(module, cfg, workers=workers, simulate=f"num={num}", depth=depth, seed=seed, timeout=timeout)
    behs = parse_printed_json(res.output, "BEH")
    m = __import__("re").search(r"The number of states generated: (\d+)", res.output)
    if m:
        res["generated"] = int(m.group(1))
        res["distinct"] = int(m.group(1))
    return behs, res


def enumerate_behaviours(module, cfg, workers=8, timeout=900):
    """All behaviours of a small configuration whose `log` is part of the state (no VIEW)."""
    from harness.common import parse_printed_json, run_tlc

    res = run_tlc(module, cfg, workers=workers, timeout=timeout)
    return parse_printed_json(res.output, "BEH"), res


def validate_trace(events, scratch_dir, timeout=900):
    """Validate recorded events against MineralTrace.tla; returns (rejects, TlcResult).

    rejects: list of (tid, line, clause)."""
    import re

    from harness.common import MachineryError, run_tlc, write_ndjson

    path = Path(scratch_dir) / "trace.ndjson"
    write_ndjson(path, events)
    res = run_tlc("MineralTrace", "MineralTrace", workers=1, env={"TRACE_FILE": str(path)}, timeout=timeout)
    rejects = []
    for line in res.output.splitlines():
        if line.startswith('<<"REJECT"'):
            for m in re.finditer(r'<<(\d+), (\d+), "([^"]*)">>', line):
                rejects.append((int(m.group(1)), int(m.group(2)), m.group(3)))
    done = re.search(r'<<"DONE", (\d+), (\d+)>>', res.output)
    if not done or int(done.group(1)) != len(events):
        raise MachineryError("trace specification did not consume the whole trace:\n" + res.output[-3000:])
    rejects = sorted(set(rejects))
    return rejects, res


# ---------------------------------------------------------------- shared driver for Layer-B checks
TRACE_CLAUSES = {
    "C07": ("update-accepted-where-spec", "update-raised", "failed-update-touched-history", "wrong-error-class", "null-forcing-changed-content", "bad-arguments-not-refused", "bad-arguments-touched-history", "client-fault-swallowed", "client-fault-changed-the-mineral"),
    "C01": ("history-rewritten", "not-one-snapshot-per-update", "snapshot-shape", "snapshot-not-finite", "negative-volume", "volumes-do-not-sum-to-1", "orientation-entry-outside-unit-interval", "orientation-left-handed", "orthonormality-beyond-budget", "copies-of-one-grain-diverged"),
    "C17": ("loaded-state-differs-from-archive", "archive-differs-after-save", "corrupt-save-not-refused", "corrupt-save-wrote", "no-spec-action-LoadBadName"),
    "C08": ("update-all-post-state-differs", "copy-differs-from-its-original"),
    "C10": ("voigt-accepted-where-spec-rejects", "voigt-rejected-where-spec-accepts", "voigt-touched-a-mineral"),
}


def run_behaviours(chk, prop, behs, *, n_override=None, rate=1.0, fcheck=True, sig_extra=None, dt_of=None, F0_of=None, solver_kw=None, origin_of=None):
    """Replay behaviours, validate the recorded calls with the trace spec, and report the
    mismatches / rejections whose clause belongs to `prop`.  Returns (events, comparator)."""
    from harness.common import scratch

    comp = Comparator()
    events = []
    cwd0 = os.getcwd()
    with scratch() as d:
      try:
        # the client changes its working directory AFTER the library was imported; every third behaviour spells the
        # archives it writes relative to it
        os.chdir(d)
        for tid, b in enumerate(behs):
            sub = d / f"b{tid}"
            sub.mkdir()
            replay_behaviour(b, sub, comp, tid, events, n_override=n_override, rate=rate, fcheck=fcheck, dt=dt_of(tid) if dt_of else None, F0=F0_of(tid) if F0_of else None, solver_kw=solver_kw, origin=origin_of(tid) if origin_of else 0.0,
                             relative_to=str(d) if tid % 3 == 2 else None)
            chk.count(("beh", json.dumps([s["act"] for s in b[1:]], sort_keys=True)))
            import shutil

            shutil.rmtree(sub, ignore_errors=True)
        for p, clause, detail in comp.mismatches:
            if p != prop:
                chk.skip(f"foreign-mismatch-{p}-{clause}")
                continue
            act = detail.get("act", {})
            sig = dict(level="replay", clause=clause, action=act.get("a"))
            if clause == "outcome":
                sig["got"] = detail.get("got")
                sig["flow"] = act.get("fl")
            if clause.startswith("config-"):
                sig["field"] = clause[7:]
            if sig_extra:
                sig.update(sig_extra(detail))
            chk.violation(sig, f"Layer-B replay: {clause}: {json.dumps(detail, default=str)[:400]}", detail)
        rejects, tr = validate_trace(events, d)
        chk.add_tlc("MineralTrace", tr, f"{len(events)} recorded calls of {len(behs)} behaviours")
        chk.cov["traces_validated_against_impl"] += len(behs)
        # minerals whose history contains an accepted matrix_diffusion update (known finding F2)
        tainted = set()
        taint_at = {}
        for i, ev in enumerate(events):
            if ev["ev"] in ("Update", "UpdateAll") and ev["exc"] == "None":
                for name, ob in ev["obs"].items():
                    if ob["cfg"]["regime"] == 1:
                        tainted.add((ev["tid"], name))
            elif ev["ev"] in ("Create", "FromFile", "Load") and "m" in ev:
                tainted.discard((ev["tid"], ev["m"]))
            taint_at[i] = set(tainted)
        for tid, line, clause in rejects:
            if clause.startswith(TRACE_CLAUSES[prop]):
                ev = events[line - 1]
                cfg = ev["obs"].get(ev.get("m"), {}).get("cfg", {}) if "m" in ev else {}
                sig = dict(level="trace", clause=clause.split("-where")[0], ev=ev["ev"],
                           after_matrix_diffusion=any((tid, n) in taint_at[line - 1] for n in ev["obs"]))
                if not sig["after_matrix_diffusion"]:
                    sig["regime"] = cfg.get("regime")
                chk.violation(sig, f"trace spec rejected call {line} (trace {tid}, {ev['ev']}): {clause}", dict(event=ev))
            else:
                chk.skip("foreign-reject-" + clause)
      finally:
        os.chdir(cwd0)
    for k, v in comp.notes.items():
        chk.cov.setdefault("replay_notes", {})[k] = chk.cov.get("replay_notes", {}).get(k, 0) + v
    return events, comp


def corrupt_and_validate(events, mutate):
    """Negative control helper: apply `mutate(events_copy)` -> prefix length, validate, return clauses."""
    from harness.common import scratch

    bad = json.loads(json.dumps(events))
    upto = mutate(bad)
    if upto is None:
        return None
    with scratch() as d:
        rj, _ = validate_trace(bad[:upto], d)
    return [c for _, _, c in rj]
