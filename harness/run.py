"""Dispatcher: ./check <Cnn> [quick|thorough] [--replay <path>]"""
import importlib
import json
import os
import sys
import traceback

from harness.common import MachineryError


def main(argv):
    if len(argv) < 2:
        print(__doc__)
        return 2
    pid = argv[1]
    rest = argv[2:]
    tier = os.environ.get("VERIF_TIER") or "quick"
    replay = None
    i = 0
    while i < len(rest):
        if rest[i] in ("quick", "thorough"):
            tier = rest[i]
        elif rest[i] == "--replay":
            replay = rest[i + 1]
            i += 1
        i += 1
    try:
        mod = importlib.import_module(f"harness.checks.{pid}")
        if replay:
            obj = json.load(open(replay))
            print(json.dumps(obj, indent=1)[:4000])
            if hasattr(mod, "replay"):
                return mod.replay(obj)
            return 0
        return mod.main(tier)
    except MachineryError as e:
        print(f"MACHINERY-FAILURE property={pid}: {e}", file=sys.stderr)
        return 2
    except Exception:
        traceback.print_exc()
        print(f"MACHINERY-FAILURE property={pid}: unexpected exception in the harness", file=sys.stderr)
        return 2


if __name__ == "__main__":
    sys.exit(main(sys.argv))
