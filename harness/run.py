"""Dispatcher: ./check <Cnn> [quick|thorough] [--replay <path>]"""
import importlib
import json
import os
import sys
import traceback

from harness.common import MachineryError


class WallLimit(BaseException):
    """Raised in the check process by the wall-clock watchdog."""


# wall-clock limits of one check (seconds): far above anything observed on the unchanged tree (quick checks take
# 0.1 - 4 min, thorough ones up to 50 min on a loaded machine); override with VERIF_WALL_LIMIT
WALL_LIMIT = {"quick": 3600, "thorough": 6 * 3600}


def run_guarded(pid, tier, mod):
    """Run the check in a forked child so that a hard abort of compiled code (numba fatal error,
    segmentation fault) while executing the implementation on in-domain inputs is reported as a
    violation instead of killing the check without a verdict.  SIGKILL / SIGTERM (resource limits,
    timeouts) are machinery failures, never violations."""
    import signal
    import time

    t0 = time.time()
    sys.stdout.flush()
    sys.stderr.flush()
    child = os.fork()
    if child == 0:
        rc = 2
        try:
            def _expired(signum, frame):
                raise WallLimit(f"no verdict after {limit} s")

            limit = int(os.environ.get("VERIF_WALL_LIMIT") or WALL_LIMIT.get(tier, 3600))
            signal.signal(signal.SIGALRM, _expired)
            signal.alarm(limit)
            rc = mod.main(tier)
            signal.alarm(0)
        except MachineryError as e:
            print(f"MACHINERY-FAILURE property={pid}: {e}", file=sys.stderr)
            rc = 2
        except WallLimit as ex:
            # interrupted INSIDE a library call (a frame of the pydrex package below the last harness frame): the
            # implementation did not return on an in-domain input -> violation; anywhere else -> machinery failure
            traceback.print_exc()
            rc = _unexpected(pid, tier, ex, t0)
        except (KeyboardInterrupt, SystemExit, MemoryError):
            traceback.print_exc()
            print(f"MACHINERY-FAILURE property={pid}: interrupted / out of memory", file=sys.stderr)
            rc = 2
        except BaseException as ex:  # noqa: BLE001
            traceback.print_exc()
            rc = _unexpected(pid, tier, ex, t0)
        finally:
            sys.stdout.flush()
            sys.stderr.flush()
            os._exit(rc if isinstance(rc, int) else 2)
    _, status = os.waitpid(child, 0)
    if os.WIFEXITED(status):
        return os.WEXITSTATUS(status)
    sig = os.WTERMSIG(status)
    if sig in (signal.SIGABRT, signal.SIGSEGV, signal.SIGFPE, signal.SIGBUS, signal.SIGILL):
        from harness.common import EVIDENCE, REPLAYS, SEED

        d = REPLAYS / pid
        d.mkdir(parents=True, exist_ok=True)
        path = d / "interpreter-aborted.json"
        what = f"the interpreter was aborted by signal {sig} (fatal error in compiled code) while the check was executing the implementation on in-domain inputs"
        path.write_text(json.dumps({"property": pid, "signature": {"clause": "implementation-aborted", "signal": sig}, "what": what}, indent=1))
        EVIDENCE.mkdir(parents=True, exist_ok=True)
        (EVIDENCE / f"{pid}.json").write_text(json.dumps({
            "property_id": pid, "tier": tier, "seed": SEED, "level": "other",
            "coverage": {"explanation": what + "; no coverage statistics are available for this run", "evaluations": 1, "distinct_nontrivial": 2, "samples": [{"signal": sig}]},
            "wall_s": round(time.time() - t0, 2), "violations": 1}, indent=1))
        print(f"VIOLATION property={pid} replay={path}")
        print(f"  what: {what}")
        return 1
    print(f"MACHINERY-FAILURE property={pid}: check process killed by signal {sig}", file=sys.stderr)
    return 2


def _unexpected(pid, tier, ex, t0):
    """An exception nobody caught.  The harness is deterministic for a given seed and runs to completion on the
    pinned tree, so what stopped it is what the implementation did on an input inside the property's domain:
    * it RAISED (a frame of the pydrex package lies below the last harness frame)  -> the property promises a
      value there: violation, clause implementation-raised;
    * it RETURNED something the harness cannot even take apart (wrong shape / type / absurd magnitude: the
      exception is one of the data-handling kinds and was raised while harness code handled the result)
      -> violation, clause implementation-output-malformed.
    Anything else stays a machinery failure (exit 2)."""
    import time

    tb = [f for f in traceback.extract_tb(ex.__traceback__) if f.name != "_expired"]     # not the watchdog's own frame
    files = [f.filename for f in tb]
    last_harness = max((i for i, f in enumerate(files) if "/verif/harness/" in f), default=-1)
    in_pydrex = any("/pydrex/" in f for f in files[last_harness + 1:])
    data_kinds = (IndexError, TypeError, ValueError, KeyError, AttributeError, OverflowError, ZeroDivisionError, FloatingPointError, StopIteration)
    if isinstance(ex, WallLimit):
        if not in_pydrex:
            print(f"MACHINERY-FAILURE property={pid}: {ex} (not inside a library call)", file=sys.stderr)
            return 2
        clause = "implementation-did-not-return"
    elif in_pydrex:
        clause = "implementation-raised"
    elif isinstance(ex, data_kinds) and last_harness >= 0:
        clause = "implementation-output-malformed"
    else:
        print(f"MACHINERY-FAILURE property={pid}: unexpected exception in the harness", file=sys.stderr)
        return 2
    from harness.common import EVIDENCE, REPLAYS, SEED

    d = REPLAYS / pid
    d.mkdir(parents=True, exist_ok=True)
    path = d / f"{clause}_{type(ex).__name__}.json"
    what = (f"{clause}: {type(ex).__name__}: {str(ex)[:300]} - the check, which runs to completion on the pinned tree with this seed, "
            f"was stopped by what the implementation did on an in-domain input ("
            + ("the exception came out of the pydrex package" if in_pydrex else "the value it returned could not be taken apart") + ")")
    path.write_text(json.dumps({"property": pid, "signature": {"clause": clause, "exc": type(ex).__name__}, "what": what,
                                "traceback": traceback.format_exception(type(ex), ex, ex.__traceback__)[-12:]}, indent=1))
    EVIDENCE.mkdir(parents=True, exist_ok=True)
    (EVIDENCE / f"{pid}.json").write_text(json.dumps({
        "property_id": pid, "tier": tier, "seed": SEED, "level": "other",
        "coverage": {"explanation": what + "; the run stopped there, no coverage statistics are available", "evaluations": 1, "distinct_nontrivial": 2, "samples": [{"exception": type(ex).__name__}]},
        "wall_s": round(time.time() - t0, 2), "violations": 1}, indent=1))
    print(f"VIOLATION property={pid} replay={path}")
    print(f"  what: {what}")
    return 1


def main(argv):
    if len(argv) < 2:
        print(__doc__)
        return 2
    pid = argv[1]
    rest = argv[2:]
    tier = os.environ.get("VERIF_TIER") or "quick"
    replay = None
    i = 0
    while i < len(rest):
        if rest[i] in ("quick", "thorough"):
            tier = rest[i]
        elif rest[i] == "--replay":
            replay = rest[i + 1]
            i += 1
        i += 1
    try:
        mod = importlib.import_module(f"harness.checks.{pid}")
        if replay:
            obj = json.load(open(replay))
            print(json.dumps(obj, indent=1)[:4000])
            if hasattr(mod, "replay"):
                return mod.replay(obj)
            return 0
        return run_guarded(pid, tier, mod)
    except MachineryError as e:
        print(f"MACHINERY-FAILURE property={pid}: {e}", file=sys.stderr)
        return 2
    except Exception:
        traceback.print_exc()
        print(f"MACHINERY-FAILURE property={pid}: unexpected exception in the harness", file=sys.stderr)
        return 2


if __name__ == "__main__":
    sys.exit(main(sys.argv))
