"""Shared machinery for the PyDRex model-based checks.

* run_tlc        — run a TLA+ model under `timeout`, parse statistics, coverage, PrintT records
* Check          — per-property bookkeeping: violations vs known findings, evidence, exit code
* scratch        — temporary directory outside /repo and /verif, removed afterwards

Exit codes of every check: 0 = property held on everything explored (known findings are
announced with KNOWN-FINDING lines), 1 = at least one violation not listed in
known_findings.json, 2 = the machinery itself failed (TLC crashed, a negative control did not
fire, a model had an unvisited action).  2 is never reported as a violation.
"""

from __future__ import annotations

import contextlib
import json
import os
import re
import shutil
import subprocess
import sys
import tempfile
import time
from pathlib import Path

VERIF = Path(__file__).resolve().parent.parent
SPEC = VERIF / "spec"
# VERIF_OUT_DIR redirects evidence and replay files (used by tools/mutcheck.py so that runs against a
# mutated scratch copy never overwrite the evidence of the real tree)
_OUT = Path(os.environ["VERIF_OUT_DIR"]) if os.environ.get("VERIF_OUT_DIR") else VERIF
EVIDENCE = _OUT / "evidence"
REPLAYS = _OUT / "replays"
REPO = Path("/repo")
TLA_JAR = "/opt/veriftools/tla/tla2tools.jar:/opt/veriftools/tla/CommunityModules-deps.jar"

SEED = int(os.environ.get("VERIF_SEED", "0") or 0)


class MachineryError(RuntimeError):
    """Something in the verification machinery (not in PyDRex) went wrong -> exit 2."""


@contextlib.contextmanager
def scratch(prefix="pydrexvp-"):
    d = tempfile.mkdtemp(prefix=prefix)
    try:
        yield Path(d)
    finally:
        shutil.rmtree(d, ignore_errors=True)


# --------------------------------------------------------------------------- TLC


def _match_brackets(text, start):
    """Return index one past the bracket matching text[start] (one of < [ { ( )."""
    depth = 0
    i = start
    in_str = False
    n = len(text)
    while i < n:
        c = text[i]
        if in_str:
            if c == "\\":
                i += 1
            elif c == '"':
                in_str = False
        else:
            if c == '"':
                in_str = True
            elif c in "[{(":
                depth += 1
            elif c in "]})":
                depth -= 1
                if depth == 0:
                    return i + 1
        i += 1
    return n


def parse_printed_json(output, tag):
    """Collect ToJson payloads printed by `PrintT(<<"tag", ToJson(x)>>)`.

    TLC prints the tuple as  <<"tag", "<json with escaped quotes>">>  on one line per call
    (with one worker, or interleaved at line granularity with several).
    """
    recs = []
    prefix = '<<"%s", "' % tag
    for line in output.splitlines():
        if not line.startswith(prefix):
            continue
        body = line[len(prefix) : line.rindex('"')]
        # undo TLA+ string escaping (\" and \\)
        body = body.replace('\\"', '"').replace("\\\\", "\\")
        try:
            recs.append(json.loads(body))
        except json.JSONDecodeError as e:  # pragma: no cover
            raise MachineryError(f"cannot parse TLC JSON payload for {tag}: {e}: {body[:200]}")
    return recs


def parse_printed_tuples(output, tag):
    """Collect simple tuples printed by PrintT(<<"tag", a, b, ...>>) as lists of raw strings."""
    out = []
    prefix = '<<"%s"' % tag
    for line in output.splitlines():
        if line.startswith(prefix) and line.rstrip().endswith(">>"):
            inner = line.strip()[2:-2]
            parts = _split_top(inner)
            out.append([p.strip().strip('"') for p in parts[1:]])
    return out


def _split_top(s):
    parts, depth, cur, in_str = [], 0, [], False
    i = 0
    while i < len(s):
        c = s[i]
        if in_str:
            cur.append(c)
            if c == "\\":
                i += 1
                cur.append(s[i])
            elif c == '"':
                in_str = False
        else:
            if c == '"':
                in_str = True
                cur.append(c)
            elif c in "<[{(":
                depth += 1
                cur.append(c)
            elif c in ">]})":
                depth -= 1
                cur.append(c)
            elif c == "," and depth == 0:
                parts.append("".join(cur))
                cur = []
            else:
                cur.append(c)
        i += 1
    parts.append("".join(cur))
    return parts


class TlcResult(dict):
    __getattr__ = dict.get


def run_tlc(
    module,
    cfg=None,
    *,
    workers=None,
    timeout=600,
    env=None,
    simulate=None,
    depth=None,
    seed=None,
    coverage=False,
    deque=False,
    extra=(),
    expect_violation=False,
    cwd=None,
):
    """Run TLC on spec/<module>.tla with spec/<cfg>.cfg.  Returns TlcResult.

    keys: ok (no error reported), violated (name of violated invariant/property or None),
    generated, distinct, depth, output, wall_s, coverage (dict action->(distinct,total)) when
    requested.  Raises MachineryError on TLC crashes / parse errors / timeouts unless a property
    violation was reported (which is a normal verdict).
    """
    cwd = Path(cwd or SPEC)
    cfg = cfg or module
    # the per-model timeouts in the checks were measured on an idle machine (models finish in 1 - 60 s); on a machine
    # that runs many checks at once the same models needed 5 - 10 times longer and timed out, which turned healthy runs
    # into machinery failures.  A timeout only has to end a hung TLC, so it is never shorter than this floor.
    timeout = max(int(timeout), int(os.environ.get("VERIF_TLC_MIN_TIMEOUT", "2400")))
    workers = workers or os.cpu_count() or 4
    with scratch("tlcmeta-") as meta:
        cmd = [
            "timeout",
            str(int(timeout)),
            "java",
            "-XX:+UseParallelGC",
            "-Xss16m",
        ]
        if deque:
            cmd.append("-Dtlc2.tool.queue.IStateQueue=StateDeque")
        cmd += [
            "-cp",
            TLA_JAR,
            "tlc2.TLC",
            "-workers",
            str(workers),
            "-metadir",
            str(meta),
            "-noGenerateSpecTE",
            "-config",
            f"{cfg}.cfg",
        ]
        if coverage:
            cmd += ["-coverage", "1"]
        if simulate:
            cmd += ["-simulate", simulate]
        if depth:
            cmd += ["-depth", str(depth)]
        if seed is not None:
            cmd += ["-seed", str(seed)]
        cmd += list(extra)
        cmd.append(f"{module}.tla")
        e = dict(os.environ)
        e.pop("JAVA_TOOL_OPTIONS", None)
        if env:
            e.update({k: str(v) for k, v in env.items()})
        t0 = time.time()
        p = subprocess.run(cmd, cwd=cwd, env=e, capture_output=True, text=True)
        wall = time.time() - t0
    out = p.stdout + p.stderr
    res = TlcResult(output=out, wall_s=wall, returncode=p.returncode, cmd=" ".join(cmd[2:]))
    m = re.search(r"(\d+) states generated, (\d+) distinct states found", out)
    if m:
        res["generated"], res["distinct"] = int(m.group(1)), int(m.group(2))
    else:
        res["generated"], res["distinct"] = 0, 0
    m = re.search(r"The depth of the complete state graph search is (\d+)", out)
    res["depth"] = int(m.group(1)) if m else 0
    viol = None
    m = re.search(r"Error: Invariant (\S+) is violated", out)
    if m:
        viol = m.group(1)
    m2 = re.search(r"Error: Action property (\S+) is violated", out)
    if m2:
        viol = m2.group(1)
    if "Error: Temporal properties were violated" in out:
        viol = viol or "temporal"
    m3 = re.search(r"Error: Postcondition (\S+)? ?.*violated", out)
    if "Error: Deadlock reached" in out:
        viol = viol or "deadlock"
    if re.search(r"postcondition.*(violated|false)", out, re.I):
        viol = viol or "postcondition"
    res["violated"] = viol
    res["ok"] = viol is None and p.returncode == 0
    if coverage:
        cov = {}
        for m in re.finditer(r"<(\w+) line \d+, col \d+ to line \d+, col \d+ of module (\w+)(?: \([\d ]+\))?>: (\d+):(\d+)", out):
            cov[m.group(1)] = (int(m.group(3)), int(m.group(4)))
        res["coverage"] = cov
    if p.returncode == 124:
        raise MachineryError(f"TLC timed out after {timeout}s on {module}/{cfg}")
    if viol is None and p.returncode != 0:
        tail = "\n".join(out.splitlines()[-40:])
        raise MachineryError(f"TLC failed on {module}/{cfg} (rc={p.returncode}):\n{tail}")
    if viol is not None and not expect_violation:
        # a design-level invariant failed: that is a defect of the specification, not of PyDRex
        tail = "\n".join(out.splitlines()[-60:])
        raise MachineryError(f"TLC reports {viol} violated in {module}/{cfg}:\n{tail}")
    return res


def run_tlaps(module, timeout=600):
    """Check the TLAPS proofs of spec/<module>.tla with tlapm (fresh cache in a scratch directory).
    Returns dict(proved=<obligations>, wall_s).  Any unproved obligation or tool failure is a machinery failure:
    a proof about the specification says nothing about PyDRex, so it can never be a violation."""
    t0 = time.time()
    with scratch("tlaps-") as d:
        for f in SPEC.glob("*.tla"):
            if f.stem in (module, "HistoryLaws"):
                shutil.copy(f, d / f.name)
        p = subprocess.run(["timeout", str(max(int(timeout), 2400)), "tlapm", "-I", "/opt/veriftools/tlapm/lib/tlapm/stdlib", f"{module}.tla"],
                           cwd=d, capture_output=True, text=True)
    out = p.stdout + p.stderr
    m = re.search(r"All (\d+) obligations? proved", out)
    if p.returncode != 0 or not m:
        raise MachineryError(f"tlapm did not prove {module}: rc={p.returncode}\n" + "\n".join(out.splitlines()[-15:]))
    return dict(proved=int(m.group(1)), wall_s=round(time.time() - t0, 2))


def sany(module, cwd=None):
    p = subprocess.run(
        ["java", "-cp", TLA_JAR, "tla2sany.SANY", f"{module}.tla"],
        cwd=cwd or SPEC,
        capture_output=True,
        text=True,
    )
    ok = p.returncode == 0 and "error" not in p.stdout.lower().replace("semantic errors:\n", "")
    return ok, p.stdout + p.stderr


# --------------------------------------------------------------------------- findings / evidence


def load_findings():
    f = VERIF / "known_findings.json"
    if not f.exists():
        return []
    out = []
    for e in json.loads(f.read_text())["findings"]:
        out.append(e)
        # "also": further signatures of the SAME finding (the same failing input seen at another column position)
        for alt in e.get("also", []):
            out.append(dict(e, signature=alt))
    return out


def _sig_match(entry_sig, sig):
    """An entry matches when every key it lists equals the observed signature's value.
    A list value in the entry means 'one of'."""
    for k, v in entry_sig.items():
        if k not in sig:
            return False
        if isinstance(v, list):
            if sig[k] not in v:
                return False
        elif sig[k] != v:
            return False
    return True


class Check:
    def __init__(self, pid, tier, level="model_checking", dry=False):
        self.dry = dry  # probe instance for negative controls: nothing is written
        self.pid = pid
        self.tier = tier
        self.level = level
        self.t0 = time.time()
        self.violations = []  # (signature, what, replay_path)
        self.known_hits = {}  # finding id -> count
        self.findings = [] if dry else [f for f in load_findings() if f["property"] == pid]
        self.cov = {
            "states": 0,
            "transitions": 0,
            "traces_validated_against_impl": 0,
            "evaluations": 0,
            "distinct_nontrivial": 0,
            "samples": [],
            "models": [],
            "skipped": {},
            "maxima": {},
            "negative_controls": [],
        }
        self.assumptions = []
        self.failed_controls = []
        self._distinct = set()

    # --- coverage bookkeeping
    def add_tlc(self, name, res, note=""):
        self.cov["states"] += int(res.get("distinct") or 0)
        self.cov["transitions"] += int(res.get("generated") or 0)
        self.cov["models"].append(
            {
                "model": name,
                "distinct_states": res.get("distinct"),
                "states_generated": res.get("generated"),
                "depth": res.get("depth"),
                "wall_s": round(res.get("wall_s", 0), 2),
                "note": note,
            }
        )

    def count(self, key=None, nontrivial=True):
        """Count one evaluation against the implementation; key identifies distinct cases."""
        self.cov["evaluations"] += 1
        if nontrivial and key is not None:
            self._distinct.add(key)
        if not self.dry:
            # stuttering steps of every specification: unrelated library traffic between the judged calls
            from harness import chatter

            chatter.tick(self.pid)

    def sample(self, obj, limit=6):
        if len(self.cov["samples"]) < limit:
            self.cov["samples"].append(obj)

    def skip(self, why):
        self.cov["skipped"][why] = self.cov["skipped"].get(why, 0) + 1

    def maximum(self, name, value):
        try:
            v = float(value)
        except (TypeError, ValueError):
            return
        if v != v:
            return
        cur = self.cov["maxima"].get(name)
        if cur is None or v > cur:
            self.cov["maxima"][name] = v

    def control(self, name, fired, detail="", impl_dependent=False):
        """Negative control.  A control that presupposes a correct implementation (impl_dependent) is
        recorded but not enforced once this run has already found violations: a broken tree must be
        reported as exit 1, never as a machinery failure."""
        self.cov["negative_controls"].append({"control": name, "fired": bool(fired), "detail": detail, "impl_dependent": bool(impl_dependent)})
        if not fired:
            # judged at the end of the run (finish): a control that did not fire is a machinery failure ONLY if the
            # run found no violation - many controls are built from what the implementation returned, and a broken
            # implementation must be reported as exit 1, never hidden behind exit 2
            self.failed_controls.append(f"negative control '{name}' did not fire: {detail}")

    def machinery_doubt(self, message):
        """A condition that would be a machinery failure on a correct implementation (e.g. no usable case for a
        control because every output was non-finite).  Deferred like a failed control."""
        self.failed_controls.append(message)

    # --- verdicts
    def violation(self, signature, what, replay=None):
        """Report a property violation observed against the real code.

        signature: dict of discrete facts (scenario class + failing clause);
        replay: JSON-serialisable object sufficient to reproduce.
        """
        for f in self.findings:
            if f.get("status") == "known" and _sig_match(f["signature"], signature):
                self.known_hits.setdefault(f["id"], {"n": 0, "what": f["what"]})["n"] += 1
                return "known"
        key = json.dumps(signature, sort_keys=True)
        if any(k == key for k, _, _ in self.violations):
            return "dup"
        if self.dry:
            self.violations.append((key, what, None))
            return "new"
        path = None
        d = REPLAYS / self.pid
        d.mkdir(parents=True, exist_ok=True)
        name = re.sub(r"[^A-Za-z0-9_.-]+", "_", key)[:120] or "violation"
        path = d / f"{name}.json"
        path.write_text(json.dumps({"property": self.pid, "signature": signature, "what": what, "replay": replay}, indent=1, default=str))
        self.violations.append((key, what, path))
        return "new"

    def finish(self, rule, exhaustive=False, trusted=None, extra=None):
        cov = self.cov
        cov["distinct_nontrivial"] = len(self._distinct)
        from harness import chatter

        cov["stuttering_steps"] = chatter.summary()
        cov["rule"] = rule
        cov["exhaustive"] = bool(exhaustive)
        cov["known_findings_hit"] = self.known_hits
        if extra:
            cov.update(extra)
        if self.failed_controls and not self.violations:
            raise MachineryError("; ".join(self.failed_controls[:3]))
        cov["controls_not_fired_on_a_violating_tree"] = list(self.failed_controls)
        if cov["states"] < 1 or cov["transitions"] < 1:
            raise MachineryError("no TLC model was run by this check")
        if not cov["samples"]:
            raise MachineryError("no samples recorded")
        ev = {
            "property_id": self.pid,
            "tier": self.tier,
            "seed": SEED,
            "level": self.level,
            "coverage": cov,
            "assumptions": self.assumptions
            + (trusted or [])
            + ["TLC 1.8 and the TLA+ transcription in /verif/spec", "projection/replay code in /verif/harness"],
            "wall_s": round(time.time() - self.t0, 2),
            "violations": len(self.violations),
        }
        EVIDENCE.mkdir(parents=True, exist_ok=True)
        (EVIDENCE / f"{self.pid}.json").write_text(json.dumps(ev, indent=1, default=str))
        for fid, h in self.known_hits.items():
            print(f"KNOWN-FINDING: property={self.pid} {h['what']} [{fid}; {h['n']} occurrence(s)]")
        for key, what, path in self.violations:
            print(f"VIOLATION property={self.pid} replay={path}")
            print(f"  what: {what}")
        if self.violations:
            return 1
        print(
            f"OK property={self.pid} tier={self.tier} states={cov['states']} transitions={cov['transitions']} "
            f"impl_evaluations={cov['evaluations']} distinct={cov['distinct_nontrivial']} "
            f"traces={cov['traces_validated_against_impl']} wall={ev['wall_s']}s"
        )
        return 0


@contextlib.contextmanager
def client_logging(i, debug_log=False):
    """Process-level state that belongs to the CLIENT: how verbose it wants the library's logger to be.  Cycles through
    'as found', silenced (CRITICAL), DEBUG (to no handler of ours) and a debug log kept through pydrex.io.logfile_enable; what the library returns, refuses or writes must
    not depend on it.  Restored on exit."""
    import logging

    log = logging.getLogger("pydrex")
    old = log.level
    with contextlib.ExitStack() as stack:
        try:
            if i % 4 == 1:
                log.setLevel(logging.CRITICAL)
            elif i % 4 == 2:
                log.setLevel(logging.DEBUG)
            elif i % 4 == 3 and debug_log:
                # the client keeps a debug log through the library's own documented interface (a handler that listens at
                # DEBUG on the library's logger; the stream form is the one the library documents for tests)
                import io as _io

                import pydrex.io

                stack.enter_context(pydrex.io.logfile_enable(_io.StringIO(), level=logging.DEBUG))
            yield
        finally:
            log.setLevel(old)


def quiet_pydrex():
    import logging
    import warnings

    warnings.filterwarnings("ignore")
    import pydrex  # noqa

    pydrex.logger.CONSOLE_LOGGER.setLevel(logging.CRITICAL)
    return pydrex


def write_ndjson(path, events):
    with open(path, "w") as f:
        for e in events:
            f.write(json.dumps(e, separators=(",", ":")) + "\n")


def cap(x, hi=2_000_000_000):
    """Integer measure capped below 2^31; NaN/inf -> cap."""
    try:
        if x != x or x in (float("inf"), float("-inf")):
            return hi
        return int(min(hi, max(0, x)))
    except (OverflowError, ValueError, TypeError):
        return hi


# --------------------------------------------------------------------------- input representations
REPRESENTATIONS = ("c", "fortran", "strided", "readonly", "c", "int", "list")


_BUFFERS = {}


def represent(a, kind):
    """The same array VALUE in a different in-memory representation.  The properties quantify over values; a
    library function must not care whether an array is C- or Fortran-ordered, a strided view into a larger
    array, read-only, integer-typed (when every entry is integral) or a nested list.  Kinds that do not apply
    to the value (\"int\" for non-integral entries) fall back to the plain C-ordered float64 array."""
    import numpy as np

    x = np.array(a, dtype=float)
    if kind == "buffer":
        # ONE preallocated array object per shape, refilled in place for every call: what a caller does who re-uses a
        # work buffer for the next snapshot.  Only for arguments handed straight to a library call (nothing else may
        # keep a reference to the buffer).  A result cached by the IDENTITY of its argument is stale on the next call.
        buf = _BUFFERS.get(x.shape)
        if buf is None:
            buf = _BUFFERS[x.shape] = np.empty(x.shape, dtype=float)
        buf[...] = x
        return buf
    if kind == "fortran" and x.ndim >= 2:
        return np.asfortranarray(x)
    if kind == "strided" and x.ndim >= 1:
        big = np.zeros(tuple(2 * n for n in x.shape), dtype=float)
        sl = tuple(slice(None, None, 2) for _ in x.shape)
        big[sl] = x
        return big[sl]
    if kind == "readonly":
        x.setflags(write=False)
        return x
    if kind == "int" and x.size and np.all(np.isfinite(x)) and np.all(x == np.round(x)) and np.abs(x).max() < 2**31:
        return x.astype(np.int64)
    if kind == "list":
        return x.tolist()
    return x


def representation_of(index):
    return REPRESENTATIONS[index % len(REPRESENTATIONS)]
