"""Size sweeps: the kernel laws at EVERY grain count up to a bound, not at a handful of sizes.

Why: an implementation may treat an aggregate differently depending on its size (blocked loops, buffers sized from a
cache, a fast path above or below a threshold).  A defect in the hand-over - the ragged last block, the one count that
falls between two branches - shows at one grain count, or at the multiples of one block length, and nowhere else; a
list of "interesting" sizes cannot contain it.  The sweep visits every count 1..nmax.

Oracle: spec/DRexRates.tla.  Kernels(c) is a pointwise map (the spin and the strain energy of a grain depend on its
own orientation and on the flow only), and LumpLemma (checked by TLC in AggGen over every replication pattern with up
to three copies of up to four grains) gives the volume rates of an aggregate holding r[g] identical copies of grain g
from the rates of the lumped aggregate.  So the exact per-grain terms that TLC emitted for a k-grain case give the
expected rates of the cyclic n-grain aggregate (grain i is a copy of case grain i mod k) for every n.  The frame
variant applies the TLC-checked covariance lemma (DRexGen.FrameLemma) to the same expectation.
"""
import multiprocessing as mp

import numpy as np

from harness import kernel

DAMP = {4: 1.0, 6: 0.3}
OCTA = None


def _octa():
    global OCTA
    if OCTA is None:
        from scipy.spatial.transform import Rotation

        OCTA = np.round(Rotation.create_group("O").as_matrix())
    return OCTA


def base_table(cases, pars):
    """Per (fabric, regime): a multi-grain generic exact case with its per-grain expectation at each parameter point."""
    table = {}
    for c in cases:
        if kernel.flagged(c) or c.get("limit") or len(c["f"]) < 3 or any(x[0] == 0 for x in c["f"]):
            continue
        key = (c["fab"], c["regime"])
        if key in table:
            continue
        A, L, f = kernel.case_inputs(c)
        per_par = []
        for par in pars:
            env = dict(par)
            for defs in c["defs"]:
                kernel.evalterm.run_program(defs, env)
            E = np.array([env[f"E_{g}"] for g in range(1, len(f) + 1)])
            # the orientation-rate terms do not refer to the mean energy
            dA = np.array([[[kernel.evalterm.ev(t, env) for t in row] for row in g] for g in c["dA"]])
            _, _, kappa = kernel.expected(c, par)
            per_par.append(dict(par=par, E=E, dA=dA, kappa=kappa))
        table[key] = dict(fab=c["fab"], regime=c["regime"], A=A, L=L, W=f, per_par=per_par, case=dict(fab=c["fab"], regime=c["regime"], L=c["L"], As=c["As"], f=c["f"]))
    return table


def aggregate(base, n, zero_every=0):
    """Cyclic n-grain aggregate of a base case: orientations, volumes, index of the lumped grain per grain."""
    k = len(base["W"])
    idx = np.arange(n) % k
    present = np.unique(idx)
    W = np.zeros(k)
    W[present] = base["W"][present] / base["W"][present].sum()
    r = np.bincount(idx, minlength=k)
    f = W[idx] / r[idx]
    if zero_every and n > zero_every:
        # some copies carry no volume (dead grains): their share goes to the first copy of the same lumped grain
        dead = (np.arange(n) % zero_every == zero_every - 1) & (np.arange(n) >= k)
        for g in present:
            sel = dead & (idx == g)
            f[g] += f[sel].sum()
        f[dead] = 0.0
    return base["A"][idx].copy(), f, idx


def expected(base, pp, f, idx):
    par = pp["par"]
    ebar = float(np.sum(f * pp["E"][idx]))
    df = DAMP[base["regime"]] * par["phi"] * par["M"] * f * (ebar - pp["E"][idx])
    return pp["dA"][idx], df


def _one(core, base, pp, n, frame, zero_every, companions=False):
    A, f, idx = aggregate(base, n, zero_every)
    L = base["L"]
    exp_o, exp_f = expected(base, pp, f, idx)
    if frame is not None:
        # crystal two-folds on every other round of copies (TwoFold lemma), then the frame rotation (Covariant lemma):
        # octahedral (exact) at even counts, a generic rotation at odd counts
        S = np.diag([[1.0, -1.0, -1.0], [-1.0, 1.0, -1.0], [-1.0, -1.0, 1.0]][n % 3])
        mask = (np.arange(n) // len(base["W"])) % 2 == 1
        A = A.copy()
        exp_o = exp_o.copy()
        A[mask] = S @ A[mask]
        exp_o[mask] = S @ exp_o[mask]
        if n % 2 == 0:
            Q = _octa()[frame]
        else:
            from scipy.spatial.transform import Rotation

            Q = Rotation.random(random_state=n).as_matrix()
        A = A @ Q.T
        L = Q @ L @ Q.T
        exp_o = exp_o @ Q.T
    par = pp["par"]
    phase, fabric = kernel.FAB[base["fab"]]

    def call(M, phi):
        return core.derivatives(base["regime"], phase, fabric, n, A.copy(), f.copy(), (L + L.T) / 2, L, np.zeros((3, 3)), par["p"], par["n"], par["lam"], M, phi)

    o, df = call(par["M"], par["phi"])
    o, df = np.asarray(o, dtype=float), np.asarray(df, dtype=float)
    if o.shape != (n, 3, 3) or df.shape != (n,):
        return dict(bad="shape")
    if not (np.all(np.isfinite(o)) and np.all(np.isfinite(df))):
        return dict(bad="non-finite")
    sk = np.einsum("gki,gkj->gij", A, o)
    extra = {}
    if companions and n % 3 == 0:
        # one companion call per third count, its kind cycling: linear in M*, linear in the phase fraction, M* = 0
        kind = (n // 3) % 3
        s = max(1.0, float(np.abs(df).max()))
        if kind == 0:
            extra["linM"] = float(np.abs(np.asarray(call(0.3 * par["M"], par["phi"])[1]) - 0.3 * df).max()) / (0.3 * s)
        elif kind == 1:
            extra["linPhi"] = float(np.abs(np.asarray(call(par["M"], 0.5 * par["phi"])[1]) - 0.5 * df).max()) / s
        else:
            extra["m0OK"] = bool(np.all(np.asarray(call(0.0, par["phi"])[1]) == 0))
    decisive = (np.abs(exp_f) > 1e-9 * max(1.0, float(np.abs(exp_f).max()))) & (f > 0)
    return dict(extra, grow_mismatch=int(np.sum(np.sign(df[decisive]) != np.sign(exp_f[decisive]))),
                do=float(np.abs(o - exp_o).max()), so=max(1.0, float(np.abs(exp_o).max())),
                dfd=float(np.abs(df - exp_f).max()), sf=max(1.0, float(np.abs(exp_f).max())),
                worst_o=int(np.abs(o - exp_o).reshape(n, -1).max(axis=1).argmax()), worst_f=int(np.abs(df - exp_f).argmax()),
                skew=float(np.abs(sk + np.transpose(sk, (0, 2, 1))).max()) / max(1.0, float(np.abs(o).max())),
                sum=abs(float(df.sum())) / max(1.0, float(np.abs(df).sum())), dead_ok=bool(np.all(df[f == 0] == 0)))


def _worker(args):
    sizes, keys, table, frames, zero_every, companions = args
    from harness.common import quiet_pydrex

    quiet_pydrex()
    from pydrex import core

    out = []
    for n in sizes:
        for regime in (4, 6):
            fabs = [k for k in keys if k[1] == regime]
            key = fabs[n % len(fabs)]
            base = table[key]
            pp = base["per_par"][(n // len(fabs)) % len(base["per_par"])]
            frame = (1 + n % 23) if frames else None
            try:
                r = _one(core, base, pp, n, frame, zero_every, companions)
            except Exception as e:  # noqa: BLE001
                r = dict(bad="raised-" + type(e).__name__)
            r.update(n=n, fab=key[0], regime=regime, par=pp["par"], kappa=pp["kappa"], frame=frame)
            out.append(r)
    return out


def run(cases, nmax, pars, frames=False, zero_every=0, procs=14, nmin=1, companions=False):
    """Returns one record per (n, regime) for n in nmin..nmax."""
    table = base_table(cases, pars)
    keys = sorted(table)
    if len({k[1] for k in keys}) < 2 or len(keys) < 8:
        from harness.common import MachineryError

        raise MachineryError(f"size sweep: only {len(keys)} base cases among the emitted ones")
    sizes = list(range(nmin, nmax + 1))
    # interleave large and small counts so that the workers finish together
    chunks = [sizes[j::procs * 8] for j in range(procs * 8)]
    ctx = mp.get_context("fork")
    with ctx.Pool(procs) as pool:
        res = pool.map(_worker, [(ch, keys, table, frames, zero_every, companions) for ch in chunks if ch])
    return [r for part in res for r in part], table


def tolerances(r):
    return 1e-9 * r["so"] * r["kappa"] + 1e-12, 1e-9 * r["sf"] * r["kappa"] + 1e-12
