"""Unrelated library traffic between the judged calls ("chatter").

A TLA+ specification is insensitive to stuttering: `[][Next]_vars` allows any number of steps that leave the variables
unchanged between two steps of `Next`.  Every specification under /verif/spec therefore already says what happens to
the state it talks about when the client does something ELSE with the library in between - nothing.  The replayers and
recorders used to realise only behaviours without such steps: between two judged calls nothing else touched the
library.  This module supplies the stuttering steps: every public, side-effect-free entry point of the library, called
with small canonical arguments of its own, from a rotating programme.  `Check.count()` (called once per evaluation
against the implementation by every check) runs one step every few evaluations, so the judged results - which are
compared with the specification's values as before - must not depend on what else the process did with the library.

A step's own result is NOT judged here (each function has its own property and check); a step that raises is counted
and otherwise ignored.  Steps never use numpy's global random state and hand fresh arrays to the library.

Groups let a check leave out steps that would pass through an attribute it has replaced for observation (C09 wraps
pydrex.utils.apply_gbs; the suite recorder wraps the Mineral methods).
"""
import os
import tempfile

import numpy as np

_STATE = {"i": 0, "ok": 0, "failed": 0, "by_step": {}}
EVERY = int(os.environ.get("VERIF_CHATTER_EVERY", "40"))
ENABLED = os.environ.get("VERIF_CHATTER", "1") != "0"

# checks whose observation wrappers sit on paths a group passes through
EXCLUDE = {
    "C09": {"mineral"},
    "X04": {"mineral", "kernel", "flows", "io", "stats", "diag", "tensors", "geom", "params"},
    "X01": {"io"},
}


def _rots(n, seed):
    rng = np.random.default_rng(seed)
    q = rng.normal(size=(n, 4))
    q /= np.linalg.norm(q, axis=1)[:, None]
    w, x, y, z = q.T
    return np.stack(
        [
            np.stack([1 - 2 * (y * y + z * z), 2 * (x * y - z * w), 2 * (x * z + y * w)], axis=-1),
            np.stack([2 * (x * y + z * w), 1 - 2 * (x * x + z * z), 2 * (y * z - x * w)], axis=-1),
            np.stack([2 * (x * z - y * w), 2 * (y * z + x * w), 1 - 2 * (x * x + y * y)], axis=-1),
        ],
        axis=1,
    )


def scribble(x, depth=0):
    """What a step returned belongs to the client: write into every array of it (in place).  A library that hands out
    views of its own tables or work buffers is changed by this; one that returns fresh objects is not."""
    if depth > 4:
        return
    if isinstance(x, np.ndarray):
        if x.flags.writeable and x.dtype.kind in "fiuc" and x.size:
            try:
                x[...] = x * 0 + (7 if x.dtype.kind in "iu" else 7.25)
            except (ValueError, TypeError):
                pass
    elif isinstance(x, (list, tuple)):
        for y in x:
            scribble(y, depth + 1)
    elif isinstance(x, dict):
        for key in list(x):
            v = x[key]
            if isinstance(v, (np.ndarray, list, tuple, dict)):
                scribble(v, depth + 1)
            elif isinstance(v, bool):
                x[key] = not v
            elif isinstance(v, (int, float)):
                x[key] = v * 3 + 1
    elif hasattr(x, "_fields"):
        scribble(tuple(x), depth + 1)


def _steps():
    import pydrex
    from pydrex import core, diagnostics, geometry, io, minerals, pathlines, stats, tensors, utils, velocity

    P, F, R = core.MineralPhase, core.MineralFabric, core.DeformationRegime
    S = []

    def step(group):
        def deco(f):
            S.append((group, f.__name__, f))
            return f

        return deco

    C_ol = np.array(minerals.StiffnessTensors().olivine, dtype=float)
    C_en = np.array(minerals.StiffnessTensors().enstatite, dtype=float)

    def kern(k):
        combos = [(P.olivine, F.olivine_A), (P.olivine, F.olivine_C), (P.enstatite, F.enstatite_AB), (P.olivine, F.olivine_E), (P.olivine, F.olivine_B), (P.olivine, F.olivine_D)]
        ph, fb = combos[k % len(combos)]
        n = [7, 3, 64, 1, 129, 20][k % 6]
        o = _rots(n, 100 + k)
        f = np.full(n, 1.0 / n)
        L = np.array([[0.3, 2.0, 0.0], [0.0, -0.5, 0.4], [1.0, 0.0, 0.2]]) * (1.0 if k % 2 else 1e-14)
        D = (L + L.T) / 2
        scale = np.abs(np.linalg.eigvalsh(D)).max()
        regime = [R.matrix_dislocation, R.frictional_yielding, R.min_viscosity, R.matrix_dislocation, R.max_viscosity, R.matrix_diffusion][k % 6]
        return core.derivatives(regime, ph, fb, n, o, f, D / scale, L / scale, np.zeros((3, 3)), 1.5 + (k % 4) * 0.5, 3.5 if k % 2 else 2.0, 5.0 if k % 3 else 0.0, 125.0 if k % 2 else 10.0, 1.0 if k % 5 else 0.3)

    @step("kernel")
    def derivatives(k):
        return [kern(k), kern(k + 1), kern(k + 6)]      # several results held at once

    @step("kernel")
    def get_crss(k):
        return [core.get_crss(P.olivine, [F.olivine_A, F.olivine_B, F.olivine_C, F.olivine_D, F.olivine_E][k % 5]), core.get_crss(P.enstatite, F.enstatite_AB)]

    @step("tensors")
    def voigt_maps(k):
        C = (C_ol if k % 2 else C_en) * (1.0 + 0.01 * (k % 7))
        t = tensors.voigt_to_elastic_tensor(C)
        v = tensors.voigt_matrix_to_vector(C)
        out = [t, tensors.elastic_tensor_to_voigt(tensors.rotate(t, _rots(1, k)[0])), v, tensors.voigt_vector_to_matrix(v), tensors.voigt_decompose(C)]
        out += [proj(v.copy()) for proj in (tensors.mono_project, tensors.ortho_project, tensors.tetr_project, tensors.hex_project)]
        return out

    @step("tensors")
    def second_order(k):
        m = np.random.default_rng(k).normal(size=(3, 3)) * 10.0 ** ((k % 5) - 2)
        flag = [True, False, np.True_, np.False_][k % 4]
        return [tensors.polar_decompose(m.copy(), left=flag), tensors.invariants_second_order(m.copy()), tensors.upper_tri_to_symmetric(m.copy())]

    @step("diag")
    def elasticity(k):
        C = tensors.elastic_tensor_to_voigt(tensors.rotate(tensors.voigt_to_elastic_tensor(C_ol if k % 2 else C_en), _rots(1, 7 * k + 1)[0]))
        return diagnostics.elasticity_components(np.stack([C] * (1 + k % 3)))

    @step("diag")
    def texture_diagnostics(k):
        o = _rots([5, 50, 2, 300][k % 4], 31 * k)
        out = []
        for ax in "abc":
            out += [diagnostics.bingham_average(o, axis=ax), diagnostics.symmetry_pgr(o, axis=ax)]
        out += [diagnostics.coaxial_index(o), diagnostics.finite_strain(np.eye(3) + np.random.default_rng(k).normal(size=(3, 3)) * 0.2)]
        out.append(diagnostics.smallest_angle(np.array([1.0, 0.2, 0.0]), np.array([0.0, 1.0, 0.5])))
        return out

    @step("stats")
    def m_index(k):
        o = _rots([12, 40, 3][k % 3], 17 * k + 3)
        systems = [geometry.LatticeSystem.orthorhombic, geometry.LatticeSystem.triclinic, geometry.LatticeSystem.hexagonal, geometry.LatticeSystem.monoclinic]
        return [diagnostics.misorientation_index(o, systems[k % len(systems)]), stats.misorientations_random(0, 120, geometry.LatticeSystem.orthorhombic)]

    @step("stats")
    def resample_and_density(k):
        n = [6, 30, 2][k % 3]
        o = _rots(n, k)
        f = np.random.default_rng(k).random(n)
        f /= f.sum()
        out = [stats.resample_orientations(np.stack([o, o[::-1]]), np.stack([f, f[::-1]]), seed=k, n_samples=[None, 5, 100][k % 3])]
        x, y, z = geometry.poles(o, ref_axes=["xz", "yx", "zy"][k % 3], hkl=[[1, 0, 0], [0, 1, 0], [0, 0, 1]][k % 3])
        kernels = list(stats.SPHERICAL_COUNTING_KERNELS)
        if k % 4 == 3:
            out.append(stats.point_density(x.copy(), y.copy(), z.copy(), kernel=kernels[k % len(kernels)]))        # the documented default grid
        else:
            out.append(stats.point_density(x.copy(), y.copy(), z.copy(), gridsteps=[21, 11, 31, 51][k % 4], kernel=kernels[k % len(kernels)], axial=bool(k % 2)))
        out.append((x, y, z))
        return out

    @step("geom")
    def geometry_maps(k):
        rng = np.random.default_rng(k)
        v = rng.normal(size=(3, 9))
        u = v / np.linalg.norm(v, axis=0)
        return [
            geometry.to_cartesian(*geometry.to_spherical(*v.copy())),
            geometry.lambert_equal_area(*u.copy()),
            geometry.shirley_concentric_squaredisk(rng.uniform(-1, 1, 9), rng.uniform(-1, 1, 9)),
            geometry.to_indices2d("xyz"[k % 3], "yzx"[k % 3]),
            geometry.symmetry_operations(list(geometry.LatticeSystem)[k % len(list(geometry.LatticeSystem))]),
        ]

    @step("flows")
    def flows(k):
        ax = [("X", "Z"), ("Y", "X"), ("Z", "Y")][k % 3]
        f1, g1 = velocity.simple_shear_2d(ax[0], ax[1], 1e-5 * (1 + k % 3))
        f2, g2 = velocity.cell_2d(ax[0], ax[1], 1.5, edge_length=2 + (k % 2))
        f3, g3 = velocity.corner_2d(ax[0], ax[1], 1.0)
        x = np.array([0.3, -0.2, 0.4])
        x3 = -np.abs(x) - 0.1
        out = [f1(0.0, x.copy()), g1(0.0, x.copy()), f2(0.0, x.copy()), g2(0.0, x.copy()), f3(0.0, x3.copy()), g3(0.0, x3.copy())]
        out += [utils.strain_increment(0.7, g1(0.0, x)), utils.angle_fse_simpleshear(0.5 + k % 3)]
        return out

    @step("flows")
    def pathline(k):
        ax = [("X", "Z"), ("Y", "X"), ("Z", "Y")][k % 3]
        f, g = velocity.simple_shear_2d(ax[0], ax[1], 1.0)
        t, x = pathlines.get_pathline(np.array([0.1 * (k % 5), 0.2, -0.1 * (k % 3)]), f, g, np.array([-2.0, -2.0, -2.0]), np.array([2.0, 2.0, 2.0]), max_strain=0.5 + 0.25 * (k % 3), regular_steps=[None, 5][k % 2])
        return [t, x(t[0]), x(t[-1])]

    @step("mineral")
    def mineral_life(k, n=None):
        combos = [(P.olivine, F.olivine_A), (P.enstatite, F.enstatite_AB), (P.olivine, F.olivine_D)]
        ph, fb = combos[k % 3]
        m = minerals.Mineral(ph, fb, R.matrix_dislocation, n_grains=n or [4, 9, 33][k % 3], seed=1000 + k)
        ax = [("X", "Z"), ("Y", "X"), ("Z", "Y")][k % 3]
        f, g = velocity.simple_shear_2d(ax[0], ax[1], 1.0)
        par = dict(pydrex.DefaultParams().as_dict())
        par["gbs_threshold"] = [0.3, 0.0][k % 2]
        par["number_of_grains"] = m.n_grains
        par["phase_assemblage"], par["phase_fractions"] = [ph], [1.0]
        t1 = 0.15 + 0.05 * (k % 3)
        Fret = m.update_orientations(par, np.eye(3), g, pathline=(0.0, t1, lambda t: np.zeros(3)))
        if n is not None:
            return [Fret, par]
        with tempfile.TemporaryDirectory(prefix="chatter-") as d:
            path = os.path.join(d, "c.npz")
            pf = [None, "q", "olivine"][k % 3]
            m.save(path, postfix=pf)
            m2 = minerals.Mineral.from_file(path, postfix=pf)
            m2.load(path, postfix=pf)
        return [Fret, par, m.orientations, m.fractions, m2.orientations, m2.fractions]

    @step("mineral")
    def voigt_average(k):
        m1 = minerals.Mineral(P.olivine, F.olivine_A, R.matrix_dislocation, n_grains=6, seed=k)
        m2 = minerals.Mineral(P.enstatite, F.enstatite_AB, R.matrix_dislocation, n_grains=6, seed=k + 1)
        w = [0.7, 0.25, 1.0][k % 3]
        if k % 2:
            out = minerals.voigt_averages([m1, m2], [P.olivine, P.enstatite], [w, 1 - w])
        else:
            out = minerals.voigt_averages([m2, m1], [P.enstatite, P.olivine], [1 - w, w])
        return [out, minerals.peridotite_solidus(2.0 + k % 3), m1.orientations, m2.fractions]

    @step("io")
    def scsv_files(k):
        out = [io.parse_scsv_schema("d,m-:colA(s)colB(s:N/A:...)colC()colD(i:999999)colE(f:NaN:%)")]
        with tempfile.TemporaryDirectory(prefix="chatter-") as d:
            path = os.path.join(d, "c.scsv")
            schema = {"delimiter": [",", ";", "|"][k % 3], "missing": "-", "fields": [{"name": "a", "type": "integer", "fill": 999}, {"name": "b", "type": "float", "fill": "NaN"}, {"name": "c", "type": "string", "fill": "n/a"}]}
            io.save_scsv(path, schema, [[1, 999, 3 + k], [0.5, float("nan"), -1e-300], ["u", "n/a", "w w"]])
            out.append(io.read_scsv(path))
            cfg = os.path.join(d, "c.toml")
            # a configuration that leaves whole optional tables to their documented defaults
            open(cfg, "w").write('name = "chatter"\n[input]\ntimestep = 0.5\nlocations_final = "l.scsv"\nlocations_initial = "i.scsv"\nvelocity_gradient = ["simple_shear_2d", "Y", "X", 5e-6]\n' + ["", "strain_final = 2.5\n"][k % 2])
            open(os.path.join(d, "l.scsv"), "w").write("---\nschema:\n  delimiter: ','\n  missing: '-'\n  fields:\n    - name: X\n      type: float\n      fill: NaN\n    - name: Z\n      type: float\n      fill: NaN\n---\nX,Z\n1.0,-1.0\n2.0,-2.0\n")
            open(os.path.join(d, "i.scsv"), "w").write("---\nschema:\n  delimiter: ','\n  missing: '-'\n  fields:\n    - name: X\n      type: float\n      fill: NaN\n    - name: Y\n      type: float\n      fill: NaN\n    - name: Z\n      type: float\n      fill: NaN\n---\nX,Y,Z\n0.0,0.0,0.0\n0.5,0.5,0.5\n")
            try:
                out.append(io.parse_config(cfg))
            except Exception:  # noqa: BLE001  (which configurations are accepted is C19's business)
                pass
        out += [io.stringify("a b/c%d" % k), io.resolve_path("x/../y%d" % k)]
        return out

    @step("params")
    def params(k):
        from pydrex import mock

        out = [pydrex.DefaultParams().as_dict(), hash(pydrex.DefaultParams())]
        for name in dir(mock):
            if name.startswith("PARAMS_"):
                out.append(dict(getattr(mock, name)))
        return out

    @step("utils")
    def array_helpers(k):
        a = np.arange(12.0).reshape(3, 4) + k
        return [
            utils.remove_dim(a[:3, :3].copy(), k % 3),
            utils.add_dim(np.arange(2.0) + k, k % 3, val=k),
            utils.diff_like(np.cumsum(np.arange(5.0) + k)),
            utils.remove_nans(np.array([1.0, np.nan, k])),
            utils.pad_with([[1, 2], [k]]),
            utils.extract_vars(np.arange(9 + 3 * 10.0), 3),
            utils.default_ncpus(),
            utils.quat_product(np.array([1.0, 0.0, 0.5, 0.0]), np.array([0.2, 0.1 * k, 0.0, 1.0])),
            utils.lag_2d_corner_flow(0.3 + 0.1 * (k % 4)),
        ]

    return S


_CACHE = {}


class NestedClient:
    """A client callable that, at its FIRST evaluation after `arm()`, makes a library call of its own before it answers.

    `update_orientations` evaluates the client's callables a few times before it starts its ODE solver; at those points the
    library has handed control to the client and nothing of it is running (the solver itself is not re-entrant, so a
    client cannot call back into an update from inside the integration - the unchanged library refuses that).  A client
    that advances its second phase from the first callback of an interval is such a client.  To every specification the
    nested call is a step that leaves the variables of the outer call alone."""

    def __init__(self, fn, action):
        self.fn, self.action = fn, action
        self.count, self.ran, self.raised = 0, 0, 0

    def arm(self):
        self.count = 0

    def __call__(self, *a, **kw):
        self.count += 1
        if self.count == 1:
            try:
                self.action()
                self.ran += 1
            except KeyboardInterrupt:
                raise
            except BaseException:  # noqa: BLE001  the nested call's own fate is not judged here
                self.raised += 1
        return self.fn(*a, **kw)


def nested_mineral_update(n_grains, k=0):
    """The action of a NestedClient: one update of ANOTHER mineral with the same grain count."""
    if "steps" not in _CACHE:
        _CACHE["steps"] = _steps()
    fn = next(f for g, name, f in _CACHE["steps"] if name == "mineral_life")
    state = {"k": k}

    def act():
        state["k"] += 1
        scribble(fn(state["k"], n=n_grains))

    return act


def tick(pid):
    """One evaluation was made against the implementation; every EVERY-th one is followed by a chatter step."""
    if not ENABLED:
        return
    _STATE["i"] += 1
    if _STATE["i"] % EVERY:
        return
    if "steps" not in _CACHE:
        try:
            _CACHE["steps"] = _steps()
        except BaseException as ex:  # noqa: BLE001  a library that cannot even be set up is the checks' business, not chatter's
            if isinstance(ex, KeyboardInterrupt):
                raise
            _CACHE["steps"] = []
    steps = [s for s in _CACHE["steps"] if s[0] not in EXCLUDE.get(pid, ())]
    if not steps:
        return
    r = _STATE["i"] // EVERY
    group, name, fn = steps[r % len(steps)]
    k = r // len(steps)
    import warnings

    try:
        with warnings.catch_warnings():
            warnings.simplefilter("ignore")
            # what a step returns belongs to the client, who writes into it
            scribble(fn(k))
        _STATE["ok"] += 1
        _STATE["by_step"][name] = _STATE["by_step"].get(name, 0) + 1
    except KeyboardInterrupt:
        raise
    except BaseException:  # noqa: BLE001
        _STATE["failed"] += 1
        _STATE["by_step"]["failed:" + name] = _STATE["by_step"].get("failed:" + name, 0) + 1
    # whatever process state a step (that is: the library) left behind is deliberately NOT restored: a library call that
    # changes numpy's error handling, the logger or a module-level table for the rest of the process is exactly what
    # the judged calls are meant to be exposed to


def summary():
    return dict(steps_run=_STATE["ok"], steps_raised=_STATE["failed"], by_step=dict(_STATE["by_step"]), every=EVERY, enabled=ENABLED)
