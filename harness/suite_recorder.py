"""pytest plugin (-p harness.suite_recorder): records the public Mineral calls made by the REPOSITORY'S OWN tests as
ndjson events in the format of spec/MineralTrace.tla, one trace (tid) per test.  No source hook is needed: the methods
are wrapped by attribute replacement inside the pytest process.  Environment: SUITE_TRACE_DIR (output directory; one
file per process so that pytest-xdist workers do not collide)."""
import os
import zlib

import numpy as np

from harness import layerb

_STATE = dict(events=[], tid=0, names={}, order=[], fids={}, registry={}, strain={}, t_last={}, orig={})
MAXM = 4  # the trace configuration has four mineral handles per trace


def _name(m):
    k = id(m)
    if k not in _STATE["names"]:
        if len(_STATE["order"]) >= MAXM:
            return None
        _STATE["names"][k] = "abcd"[len(_STATE["order"])]
        _STATE["order"].append(m)          # keeps the object alive: ids are not reused within a test
    return _STATE["names"][k]


def _canon_fid(arr, prev):
    s = layerb.sha(arr)
    reg = _STATE["registry"]
    if s in reg:
        return reg[s]
    if prev is not None:
        parr, pid = prev
        if np.shape(parr) == np.shape(arr) and np.all(np.isfinite(arr)) and np.abs(np.asarray(arr) - np.asarray(parr)).max() <= 1e-12:
            reg[s] = pid
            return pid
    reg[s] = s
    return s


def _obs(m, grew, dstrain):
    n = int(m.n_grains)
    ids, prev = [], None
    for arr in m.fractions:
        i = _canon_fid(arr, prev)
        ids.append(i)
        prev = (arr, i)
    return dict(cfg=dict(phase=int(m.phase), fabric=int(m.fabric), regime=int(m.regime), n=n),
                odig=[layerb.sha(o) for o in m.orientations], fdig=ids, nf=len(m.fractions),
                v=layerb.snapshot_measures(m.orientations[-1], m.fractions[-1], n), dstrain_e6=layerb.cap(dstrain * 1e6) if grew else 0)


def _par(params):
    asm = [int(p) for p in params["phase_assemblage"]]
    fr = list(params["phase_fractions"])
    phi_ol = fr[asm.index(0)] if 0 in asm else 0.0
    return dict(M=int(round(float(params["gbm_mobility"]))), chi=int(round(float(params["gbs_threshold"]) * 10)), asm=asm,
                phiOl=int(round(phi_ol * 10)), x=[int(round(float(params["nucleation_efficiency"]))), 0])


def _strain(getL, pathline, k=8):
    t0, t1, getx = pathline
    ts = np.linspace(t0, t1, k + 1)
    tot, zero = 0.0, True
    for a, b in zip(ts[:-1], ts[1:]):
        c = 0.5 * (a + b)
        L = np.asarray(getL(c, getx(c)), dtype=float)
        zero = zero and not np.any(L)
        tot += abs(b - a) * np.abs(np.linalg.eigvalsh((L + L.T) / 2)).max()
    return tot, zero


def _emit(ev):
    ev["tid"] = _STATE["tid"]
    ev["disk"] = {}
    _STATE["events"].append(ev)


def install():
    import pydrex
    from pydrex import minerals

    M = minerals.Mineral
    if _STATE["orig"]:
        return
    _STATE["orig"]["post"] = M.__post_init__
    _STATE["orig"]["upd"] = M.update_orientations

    def post(self):
        was_default = getattr(self, "orientations_init", None) is None
        _STATE["orig"]["post"](self)
        name = _name(self)
        if name is None:
            return
        f0 = self.fractions[0]
        _emit(dict(ev="Create", m=name, exc="None", obs={name: _obs(self, False, 0.0)}, uniform=bool(np.all(f0 >= 1.0 / len(f0) * (1 - 1e-12))),
                   default=bool(was_default)))

    def upd(self, params, deformation_gradient, get_velocity_gradient, pathline, get_regime=None, **kw):
        name = _name(self)
        before = len(self.orientations)
        exc = None
        try:
            return _STATE["orig"]["upd"](self, params, deformation_gradient, get_velocity_gradient, pathline, get_regime=get_regime, **kw)
        except BaseException as e:  # noqa: BLE001
            exc = e
            raise
        finally:
            if name is not None:
                try:
                    ds, zero = _strain(get_velocity_gradient, pathline)
                    grew = len(self.orientations) == before + 1
                    cb = layerb.NOCB
                    if get_regime is not None:
                        cb = int(get_regime(pathline[1], pathline[2](pathline[1])))
                    _emit(dict(ev="Update", m=name, exc=layerb.exc_class(exc), fl="zero" if zero else "flow", par=_par(params), cb=cb,
                               obs={name: _obs(self, grew, ds)}))
                except Exception as e:  # noqa: BLE001 - the recorder must never change the outcome of a test
                    _STATE["events"].append(dict(tid=_STATE["tid"], ev="RecorderError", exc=repr(e)[:200], disk={}, obs={}))

    M.__post_init__ = post
    M.update_orientations = upd


def pytest_configure(config):
    install()


def pytest_runtest_setup(item):
    _STATE["tid"] = zlib.crc32(item.nodeid.encode()) % 1_000_000
    _STATE["names"].clear()
    _STATE["order"].clear()
    _STATE["registry"].clear()
    _STATE.setdefault("nodes", {})[_STATE["tid"]] = item.nodeid


def pytest_sessionfinish(session, exitstatus):
    d = os.environ.get("SUITE_TRACE_DIR")
    if not d:
        return
    import json

    os.makedirs(d, exist_ok=True)
    with open(os.path.join(d, f"suite-{os.getpid()}.ndjson"), "w") as f:
        for e in _STATE["events"]:
            f.write(json.dumps(e, separators=(",", ":"), default=str) + "\n")
    with open(os.path.join(d, f"nodes-{os.getpid()}.json"), "w") as f:
        json.dump(_STATE.get("nodes", {}), f)
