"""C13 - eigenvalue-based texture and strain diagnostics are objective.

Spec:  spec/Diagnostics.tla (Layer A, exact rationals).
       * generator cfgs Diagnostics / Diagnostics_thorough: TLC proves the lemmas (P+G+R = 1 and
         bounds on all count triples <= 12; scatter = Q diag(c) Q^T on rotated octahedral
         multisets; permutation / two-fold invariance incl. the generator lemma; finite-strain
         eigen-structure, F -> F.Q' and F -> Q'.F; simple-shear closed form) and emits one CASE
         record per (count triple x axis x frame rotation x pattern), (stretch triple x Q x
         (R', Q')) and (tan theta x shear geometry), plus the SCEN table of float scenario classes.
       * cfg DiagnosticsNeg: non-vacuity control (a wrong lemma must be refuted by TLC).
       * cfg DiagnosticsJudge: the law (thresholds and quantifier exclusions) for the integer
         measures recorded on floating-point concretisations.
Bind:  spec -> code replay of every CASE into pydrex.diagnostics / pydrex.utils (1e-9 * kappa, axes
       up to sign; kappa = exact conditioning factor emitted by the spec);
       code -> spec: for every SCEN class x seeded repetitions the harness draws floats, calls the
       real functions on the set and on its permuted / two-folded / re-framed copies, projects to
       integer deviation measures and lets TLC judge them.
This file contains no formula of P, G, R, the coaxial index or the closed-form angle: expected
values come from the TLA+ text; the float part only compares the implementation with itself under
the transformations and with numpy's eigen-solver residuals.
"""
import json
import math
import os
import zlib

import numpy as np

from harness import evalterm
from harness.common import SEED, Check, MachineryError, cap, parse_printed_json, quiet_pydrex, run_tlc, scratch, write_ndjson

PID = "C13"
WORKERS = int(os.environ.get("VERIF_TLC_WORKERS", "8") or 8)  # other checks share the machine
AXES = "abc"
TOL = 1e-9


# --------------------------------------------------------------------------- helpers
def _q(x):
    return x[0] / x[1]


def _vec(v):
    return np.array([_q(x) for x in v], dtype=float)


def _mat(m):
    return np.array([[_q(x) for x in r] for r in m], dtype=float)


def _close(got, exact, kappa=1.0):
    """DESIGN section 6: |impl - exact| <= 1e-9 * max(1, |exact|_inf) * kappa + 1e-12; returns (ok, deviation)."""
    got = np.asarray(got, dtype=float)
    exact = np.asarray(exact, dtype=float)
    if got.shape != exact.shape or not np.all(np.isfinite(got)):
        return False, float("inf")
    dev = float(np.max(np.abs(got - exact))) if got.size else 0.0
    return dev <= TOL * max(1.0, float(np.max(np.abs(exact)))) * max(1.0, kappa) + 1e-12, dev


def _axis_dev(v, direction):
    """Deviation of unit vector v from the (not necessarily normalised) direction, up to sign."""
    d = np.asarray(direction, dtype=float)
    d = d / np.linalg.norm(d)
    v = np.asarray(v, dtype=float)
    if v.shape != (3,) or not np.all(np.isfinite(v)):
        return float("inf")
    return float(min(np.linalg.norm(v - d), np.linalg.norm(v + d)))


class ImplError(Exception):
    """The implementation raised on an input inside the property's domain."""

    def __init__(self, call, exc):
        super().__init__(f"{call} raised {type(exc).__name__}: {exc}")
        self.call, self.exc_name = call, type(exc).__name__


def _guard(call):
    def deco(fn):
        def wrapped(*a, **k):
            try:
                return fn(*a, **k)
            except Exception as ex:  # noqa: BLE001 - whatever pydrex raises is a fact about pydrex
                raise ImplError(call, ex) from ex

        return wrapped

    return deco


class Impl:
    """The functions under test.  `mutant` variants exist only for the negative controls."""

    def __init__(self, pd, mutant=None):
        from pydrex import diagnostics, utils

        self.d, self.u, self.mutant = diagnostics, utils, mutant

    # ("buffer" entries come in runs: a result remembered for the IDENTITY of the argument of the previous call is stale
    #  when the caller has refilled that same array object in the meantime)
    O_REPR = ("c", "buffer", "buffer", "buffer", "grain-transposed-view", "buffer", "buffer", "fortran", "buffer", "buffer", "buffer", "strided", "readonly")
    F_REPR = ("c", "buffer", "buffer", "fortran", "strided", "buffer", "buffer", "buffer", "readonly")

    def _o(self, o):
        # mutant "columns": an implementation that builds the scatter matrix from columns
        if self.mutant == "columns":
            return np.transpose(o, (0, 2, 1)).copy()
        # the same orientation set in different in-memory representations, cycling over the calls (the
        # diagnostics are functions of the set of matrices, not of how the array happens to be laid out)
        from harness.common import represent

        self.n_o = getattr(self, "n_o", 0) + 1
        kind = self.O_REPR[self.n_o % len(self.O_REPR)]
        o = np.asarray(o, dtype=float)
        if kind == "grain-transposed-view" and o.ndim == 3:
            return np.ascontiguousarray(o.transpose(0, 2, 1)).transpose(0, 2, 1)
        return represent(o, kind)

    @_guard("symmetry_pgr")
    def pgr(self, o, axis):
        return tuple(float(x) for x in self.d.symmetry_pgr(self._o(o), axis=axis))

    @_guard("bingham_average")
    def mean(self, o, axis):
        return np.asarray(self.d.bingham_average(self._o(o), axis=axis), dtype=float).reshape(-1)

    @_guard("coaxial_index")
    def coax(self, o, a1=None, a2=None):
        if a1 is None:
            return float(self.d.coaxial_index(self._o(o)))
        return float(self.d.coaxial_index(self._o(o), axis1=a1, axis2=a2))

    @_guard("finite_strain")
    def fse(self, F):
        F = np.asarray(F, dtype=float)
        # mutant "rightCG": an implementation that uses F^T.F instead of F.F^T
        if self.mutant != "rightCG":
            from harness.common import represent

            self.n_f = getattr(self, "n_f", 0) + 1
            F = represent(F, self.F_REPR[self.n_f % len(self.F_REPR)])
        e, v = self.d.finite_strain(F.T.copy() if self.mutant == "rightCG" else F)
        return float(e), np.asarray(v, dtype=float).reshape(-1)

    @_guard("angle_fse_simpleshear")
    def angle(self, strain):
        return float(self.u.angle_fse_simpleshear(strain))


# --------------------------------------------------------------------------- spec -> code replay
def replay_tex(impl, c, chk):
    """Replay one exact texture case; returns the number of violated clauses."""
    o = np.array([_mat(m) for m in c["oris"]], dtype=float)
    bad = 0
    desc = f"c={c['c']} row={c['row']} pat={c['pat']}"
    for ax in c["ax"]:
        a = ax["axis"]
        exp = [_q(x) for x in ax["pgr"]]
        ok, dev = _close(impl.pgr(o, a), exp)
        chk.maximum("exact_pgr_dev", dev if math.isfinite(dev) else 1e9)
        if not ok:
            bad += 1
            chk.violation(dict(level="exact", clause="pgr-value", axis=a), f"symmetry_pgr(axis={a}) = {impl.pgr(o, a)} but the specification gives {exp} ({desc})", dict(case=c))
        v = impl.mean(o, a)
        S, lmax, n = _mat(ax["S"]), _q(ax["lam"][0]), float(c["n"])
        unit = abs(float(np.linalg.norm(v)) - 1.0) if np.all(np.isfinite(v)) else float("inf")
        res = float(np.linalg.norm(S @ v - lmax * v)) / n if np.all(np.isfinite(v)) else float("inf")
        chk.maximum("exact_mean_unit_dev", unit if math.isfinite(unit) else 1e9)
        chk.maximum("exact_mean_eigen_residual", res if math.isfinite(res) else 1e9)
        if unit > TOL:
            bad += 1
            chk.violation(dict(level="exact", clause="mean-not-unit", axis=a), f"bingham_average(axis={a}) has norm deviating by {unit:.3g} ({desc})", dict(case=c))
        if res > TOL:
            bad += 1
            chk.violation(dict(level="exact", clause="mean-not-principal-eigenvector", axis=a), f"bingham_average(axis={a}) = {v.tolist()} is not an eigenvector of the exact scatter matrix for its largest eigenvalue {lmax} (residual {res:.3g}; {desc})", dict(case=c))
        if ax["meanDefined"]:
            k = _q(ax["kappa"])
            dv = _axis_dev(v, _vec(ax["mean"]))
            chk.maximum("exact_mean_axis_dev_over_kappa", dv / max(1.0, k) if math.isfinite(dv) else 1e9)
            if dv > TOL * max(1.0, k) + 1e-12:
                bad += 1
                chk.violation(dict(level="exact", clause="mean-axis", axis=a), f"bingham_average(axis={a}) = {v.tolist()} but the specification gives +-{_vec(ax['mean']).tolist()} ({desc})", dict(case=c))
        else:
            chk.skip("exact: principal eigenvalue not simple - direction of the mean axis not compared")
    for cx in c["coax"]:
        if not cx["defined"]:
            chk.skip("exact: scatter matrix exactly isotropic - coaxial index undefined")
            continue
        got = impl.coax(o, cx["a1"], cx["a2"])
        ok, dev = _close(got, _q(cx["val"]))
        chk.maximum("exact_coaxial_dev", dev if math.isfinite(dev) else 1e9)
        if not ok:
            bad += 1
            chk.violation(dict(level="exact", clause="coaxial-value", a1=cx["a1"], a2=cx["a2"]), f"coaxial_index({cx['a1']},{cx['a2']}) = {got} but the specification gives {_q(cx['val'])} ({desc})", dict(case=c))
        if (cx["a1"], cx["a2"]) == ("b", "a"):
            got0 = impl.coax(o)
            if not _close(got0, _q(cx["val"]))[0]:
                bad += 1
                chk.violation(dict(level="exact", clause="coaxial-default-axes"), f"coaxial_index() = {got0} but the specification gives {_q(cx['val'])} for the default pair (b, a) ({desc})", dict(case=c))
    return bad


def replay_fse(impl, c, chk):
    bad = 0
    k = max(1.0, _q(c["kappa"]))
    exp = _q(c["stretch"])
    for name, key, axkey in (("F", "F", "axis"), ("F.Q'", "FQ", "axis"), ("Q'.F", "QF", "axisCorot")):
        e, v = impl.fse(_mat(c[key]))
        ok, dev = _close(e, exp)
        chk.maximum("exact_stretch_dev", dev if math.isfinite(dev) else 1e9)
        if not ok:
            bad += 1
            chk.violation(dict(level="exact", clause="stretch", arg=name), f"finite_strain({name}) stretch {e} but the specification gives {exp} (s={c['s']})", dict(case=c))
        if c["axisDefined"]:
            dv = _axis_dev(v, _vec(c[axkey]))
            unit = abs(float(np.linalg.norm(v)) - 1.0)
            chk.maximum("exact_fse_axis_dev_over_kappa", dv / k if math.isfinite(dv) else 1e9)
            if dv > TOL * k + 1e-12 or unit > TOL:
                bad += 1
                chk.violation(dict(level="exact", clause="long-axis", arg=name), f"finite_strain({name}) axis {v.tolist()} but the specification gives +-{_vec(c[axkey]).tolist()} (s={c['s']})", dict(case=c))
        else:
            chk.skip("exact: largest principal stretch not simple - long axis not compared")
    return bad


def _angle_from(v, n, d):
    """Angle in degrees, in [0, 180), of the bidirectional axis v measured from e_n towards e_d."""
    return math.degrees(math.atan2(v[d], v[n])) % 180.0


def replay_shear(impl, c, chk):
    bad = 0
    k = max(1.0, _q(c["kappa"]))
    strain = _q(c["strain"])
    want = evalterm.ev(c["angleDeg"], {})
    got = impl.angle(strain)
    ok, dev = _close(got, want)
    chk.maximum("exact_helper_angle_dev_deg", dev if math.isfinite(dev) else 1e9)
    geom = "docstring" if c["docstringFrame"] else "relabelled"
    if not ok:
        bad += 1
        chk.violation(dict(level="exact", clause="helper-closed-form"), f"angle_fse_simpleshear({strain}) = {got} but the specification gives {want}", dict(case=c))
    e, v = impl.fse(_mat(c["F"]))
    if not _close(e, _q(c["stretch"]))[0]:
        bad += 1
        chk.violation(dict(level="exact", clause="shear-stretch", geometry=geom), f"finite_strain(simple shear) stretch {e}, specification {_q(c['stretch'])}", dict(case=c))
    dv = _axis_dev(v, _vec(c["axis"]))
    chk.maximum("exact_shear_axis_dev_over_kappa", dv / k if math.isfinite(dv) else 1e9)
    if dv > TOL * k + 1e-12:
        bad += 1
        chk.violation(dict(level="exact", clause="shear-long-axis", geometry=geom), f"finite_strain(simple shear d={c['d']} n={c['n']}) axis {v.tolist()}, specification +-{_vec(c['axis']).tolist()} (unnormalised)", dict(case=c))
    # the statement's last clause: the axis of finite_strain agrees with the angle helper
    if np.all(np.isfinite(v)):
        th = _angle_from(v, c["n"] - 1, c["d"] - 1)
        dd = abs(th - got)
        chk.maximum("exact_axis_vs_helper_deg_over_kappa", dd / k)
        if dd > TOL * 90.0 * k + 1e-12:
            bad += 1
            chk.violation(dict(level="exact", clause="axis-disagrees-with-angle-helper", geometry=geom), f"finite_strain axis is at {th} deg from the gradient axis, angle_fse_simpleshear({strain}) = {got}", dict(case=c))
    return bad


REPLAYERS = {"tex": replay_tex, "fse": replay_fse, "shear": replay_shear}


def _nontrivial(c):
    """tex: the frame rotation is not axis-aligned (non-diagonal scatter matrix); fse: F is not symmetric
    and the long axis is defined; shear: always."""
    if c["kind"] == "tex":
        return any(x[1] != 1 for r in c["Q"] for x in r)
    if c["kind"] == "fse":
        return bool(c["axisDefined"]) and c["F"] != [list(r) for r in zip(*c["F"])]
    return True


def _case_key(c):
    if c["kind"] == "tex":
        return ("tex", tuple(c["c"]), c["row"], c["pat"], json.dumps(c["Q"]))
    if c["kind"] == "fse":
        return ("fse", json.dumps(c["s"]), json.dumps(c["Q"]), json.dumps(c["Qp"]), json.dumps(c["F"]))
    return ("shear", json.dumps(c["t"]), c["d"], c["n"])


# --------------------------------------------------------------------------- float concretisation
def _rng(*parts):
    return np.random.default_rng([SEED & 0xFFFFFFFF, zlib.crc32(json.dumps(parts).encode())])


def _rot(rng, n=None):
    from scipy.spatial.transform import Rotation

    return Rotation.random(n, random_state=rng).as_matrix()


def make_texture(cls, n, axis, rng):
    """Concrete orientation matrices (n, 3, 3) of the class, in a random (not axis-aligned) frame."""
    from scipy.spatial.transform import Rotation

    if cls == "random":
        return _rot(rng, n)
    a0 = _rot(rng)
    if cls == "single":
        return np.repeat(a0[None], n, axis=0)
    if cls == "clustered":
        pert = Rotation.from_rotvec(0.15 * rng.normal(size=(n, 3))).as_matrix()
        return pert @ a0
    if cls == "girdle":
        r = AXES.index(axis)
        pole = a0[(r + 1) % 3]  # another crystal axis: the chosen axis sweeps the great circle normal to it
        spin = Rotation.from_rotvec(rng.uniform(0, 2 * np.pi, size=(n, 1)) * pole[None]).as_matrix()
        noise = Rotation.from_rotvec(0.03 * rng.normal(size=(n, 3))).as_matrix()
        return noise @ (a0[None] @ np.transpose(spin, (0, 2, 1)))
    raise MachineryError(f"unknown texture class {cls}")


TWOFOLDS = np.array([[1, 1, 1], [1, -1, -1], [-1, 1, -1], [-1, -1, 1]], dtype=float)


def _sin_angle(u, v):
    u, v = np.asarray(u, float), np.asarray(v, float)
    if not (np.all(np.isfinite(u)) and np.all(np.isfinite(v))):
        return float("nan")
    return float(np.linalg.norm(np.cross(u, v)))


def _absdiff(a, b):
    a, b = np.asarray(a, float), np.asarray(b, float)
    return float(np.max(np.abs(a - b))) if np.all(np.isfinite(a)) and np.all(np.isfinite(b)) else float("nan")


def measure_texture(impl, o, axis, rng):
    """Project one concretised texture scenario to the integer measures judged by Diagnostics.tla."""
    n = len(o)
    r = AXES.index(axis)
    a2 = AXES[(r - 1) % 3]  # axis "b" is paired with "a": the documented default pair
    perm = rng.permutation(n)
    folds = TWOFOLDS[rng.integers(0, 4, size=n)]
    Q = _rot(rng)
    variants = {"perm": o[perm], "fold": o * folds[:, :, None], "frame": o @ Q.T}

    def coax_of(x):
        try:
            return impl.coax(x) if (axis, a2) == ("b", "a") else impl.coax(x, axis, a2)
        except ImplError:
            return float("nan")  # judged like a non-finite value: demanded only when the scatter matrices are anisotropic

    pgr, v, cx = np.array(impl.pgr(o, axis)), impl.mean(o, axis), coax_of(o)
    # independent float scatter matrix and its spectrum (numpy leaf) for the residual and the margins
    rows = o[:, r, :]
    S = np.einsum("gi,gj->ij", rows, rows)
    w = np.linalg.eigvalsh(S)
    rows2 = o[:, AXES.index(a2), :]
    w2 = np.linalg.eigvalsh(np.einsum("gi,gj->ij", rows2, rows2))
    m = dict(
        below0=cap(max(0.0, -float(np.min(pgr))) * 1e15),
        above1=cap(max(0.0, float(np.max(pgr)) - 1.0) * 1e15),
        sum1=cap(abs(float(np.sum(pgr)) - 1.0) * 1e15),
        unit=cap(abs(float(np.linalg.norm(v)) - 1.0) * 1e15),
        eigres=cap(float(np.linalg.norm(S @ v - w[2] * v)) / n * 1e15),
        coaxOut=cap(max(0.0, -cx, cx - 1.0) * 1e15 if math.isfinite(cx) else float("nan")),
        gap_e9=cap((w[2] - w[1]) / n * 1e9),
        iso_e9=cap(min(1.0 - 3.0 * w[0] / n, 1.0 - 3.0 * w2[0] / n) * 1e9),
    )
    for name, x in variants.items():
        pgr_x, v_x, cx_x = np.array(impl.pgr(x, axis)), impl.mean(x, axis), coax_of(x)
        m[name + "Scal"] = cap(_absdiff(pgr_x, pgr) * 1e15)
        m[name + "Axis"] = cap(_sin_angle(v_x, Q @ v if name == "frame" else v) * 1e15)
        m[name + "Coax"] = cap(abs(cx_x - cx) * 1e15)
    finite = bool(np.all(np.isfinite(pgr)) and np.all(np.isfinite(v)))
    return dict(kind="tex", finite=finite, m=m)


def make_F(cls, rng):
    from scipy.spatial.transform import Rotation  # noqa: F401

    if cls in ("gaussian", "reflected"):
        while True:
            F = rng.normal(size=(3, 3))
            if abs(np.linalg.det(F)) > 0.05:
                break
        if cls == "reflected" and np.linalg.det(F) > 0:
            F[0] = -F[0]
        return F, None
    if cls == "polar":
        Q, R = _rot(rng), _rot(rng)
        kind = int(rng.integers(0, 3))
        if kind == 0:
            # NEAR-SPECIAL: a generic stretch times a rigid rotation of 1e-5 .. 1e-8 rad - not symmetric, but far closer
            # to a symmetric matrix than any random draw (the laws hold to rounding, not to the size of the rotation)
            w = rng.normal(size=3)
            w = w / np.linalg.norm(w) * (1e-5, 1e-6, 1e-7, 1e-8)[int(rng.integers(0, 4))]
            W = np.array([[0, -w[2], w[1]], [w[2], 0, -w[0]], [-w[1], w[0], 0]])
            R = np.eye(3) + W + W @ W / 2
        return Q @ np.diag(np.exp(0.7 * rng.normal(size=3))) @ Q.T @ R, None
    if cls == "oblique_shear":
        Q = _rot(rng)
        return np.eye(3) + rng.uniform(0.1, 5.0) * np.outer(Q[:, 0], Q[:, 1]), None
    if cls == "simple_shear_yx":
        strain = float(np.exp(rng.uniform(np.log(0.02), np.log(5.0))))
        F = np.eye(3)
        F[1, 0] = 2.0 * strain  # velocity along Y growing along X; velocity gradient = 2 x strain rate
        return F, strain
    raise MachineryError(f"unknown deformation-gradient class {cls}")


def measure_fse(impl, cls, F, strain, rng):
    Q = _rot(rng)
    e, v = impl.fse(F)
    er, vr = impl.fse(F @ Q)
    el, vl = impl.fse(Q @ F)
    B = F @ F.T
    w = np.linalg.eigvalsh(B)
    smax = float(np.linalg.norm(F, 2))  # largest singular value = largest principal stretch (numpy leaf)
    m = dict(
        stretch=cap(abs((e + 1.0) - smax) / smax * 1e15),
        unit=cap(abs(float(np.linalg.norm(v)) - 1.0) * 1e15),
        eigres=cap(float(np.linalg.norm(B @ v - (e + 1.0) ** 2 * v)) / w[2] * 1e15),
        rightStretch=cap(abs(er - e) / smax * 1e15),
        leftStretch=cap(abs(el - e) / smax * 1e15),
        rightAxis=cap(_sin_angle(vr, v) * 1e15),
        leftAxis=cap(_sin_angle(vl, Q @ v) * 1e15),
        gap_e9=cap((w[2] - w[1]) / w[2] * 1e9),
        helperDeg=0,
    )
    if strain is not None:
        m["helperDeg"] = cap(abs(_angle_from(v, 0, 1) - impl.angle(strain)) * 1e15)
    finite = bool(all(math.isfinite(x) for x in (e, er, el)) and np.all(np.isfinite(np.concatenate([v, vr, vl]))))
    return dict(kind="fse", finite=finite, m=m)


ZERO_TEX = {k: 0 for k in ("below0 above1 sum1 unit eigres coaxOut gap_e9 iso_e9 permScal permAxis permCoax foldScal foldAxis foldCoax frameScal frameAxis frameCoax").split()}
ZERO_FSE = {k: 0 for k in "stretch unit eigres rightStretch leftStretch rightAxis leftAxis gap_e9 helperDeg".split()}


def concretise(impl, scen, reps_tex, reps_fse, tag=""):
    """All float scenario events (one per scenario class x repetition)."""
    events = []
    for s in sorted(scen, key=lambda x: json.dumps(x, sort_keys=True)):
        if s["kind"] == "texscen":
            for rep in range(reps_tex if s["n"] < 10000 else max(1, reps_tex // 2)):
                rng = _rng("tex", s["cls"], s["n"], s["axis"], rep)
                o = make_texture(s["cls"], s["n"], s["axis"], rng)
                try:
                    ev = measure_texture(impl, o, s["axis"], rng)
                except ImplError as ex:
                    ev = dict(kind="tex", finite=False, m=dict(ZERO_TEX), raised=str(ex))
                ev.update(sid=f"{tag}tex/{s['cls']}/{s['n']}/{s['axis']}/{rep}", cls=s["cls"], n=s["n"], axis=s["axis"], rep=rep)
                events.append(ev)
        else:
            for rep in range(reps_fse):
                rng = _rng("fse", s["cls"], rep)
                F, strain = make_F(s["cls"], rng)
                try:
                    ev = measure_fse(impl, s["cls"], F, strain, rng)
                except ImplError as ex:
                    ev = dict(kind="fse", finite=False, m=dict(ZERO_FSE), raised=str(ex))
                ev.update(sid=f"{tag}fse/{s['cls']}/{rep}", cls=s["cls"], n=0, axis="-", rep=rep)
                events.append(ev)
    return events


def judge(events, d):
    """Let TLC evaluate the law on the recorded measures: returns {sid: (clauses, skips)} and the TlcResult."""
    import re

    path = d / "measures.ndjson"
    write_ndjson(path, events)
    res = run_tlc("Diagnostics", "DiagnosticsJudge", workers=1, timeout=600, env={"TRACE_FILE": str(path)})
    verdicts = {v["sid"]: (list(v["bad"]), list(v["skip"])) for v in parse_printed_json(res.output, "VERDICT")}
    done = re.search(r'<<"DONE", (\d+)>>', res.output)
    if not done or int(done.group(1)) != len(events) or len(verdicts) != len({e["sid"] for e in events}):
        raise MachineryError("judge specification did not consume every recorded measure line:\n" + res.output[-2000:])
    return verdicts, res


# --------------------------------------------------------------------------- main
def main(tier):
    chk = Check(PID, tier)
    quick = tier != "thorough"
    cfg = "Diagnostics" if quick else "Diagnostics_thorough"
    res = run_tlc("Diagnostics", cfg, workers=WORKERS, timeout=200 if quick else 1500)
    chk.add_tlc(cfg, res, "lemmas on all count triples <= 12; rotated octahedral textures x axes x frame rotations x patterns; "
                          "F = Q diag(s) Q^T R' with F.Q' and Q'.F; Pythagorean simple shear; scenario table")
    cases = parse_printed_json(res.output, "CASE")
    scen = parse_printed_json(res.output, "SCEN")
    cases.sort(key=lambda c: json.dumps(c, sort_keys=True))  # TLC workers print in arbitrary order
    kinds = {}
    for c in cases:
        kinds[c["kind"]] = kinds.get(c["kind"], 0) + 1
    if kinds.get("tex", 0) < 5000 or kinds.get("fse", 0) < 2000 or kinds.get("shear", 0) < 30 or len(scen) != 53:
        raise MachineryError(f"case table incomplete: {kinds}, {len(scen)} scenario classes")
    if 2 * (len(cases) + len(scen)) > res.distinct:
        raise MachineryError("more emitted records than generator states")
    # ---- the count triples of the P, G, R lemmas (total <= 12) replayed as axis-aligned textures of m copies of every
    # grain (PgrScaleFree: the proportions decide), m = 1, 11, 50, 128 - up to 1536 grains - handed over as float64 and,
    # being exactly representable there, as int8 / int16 / int32 / int64 / float32 arrays
    pgrs = parse_printed_json(res.output, "PGR")
    pd = quiet_pydrex()
    pgrs.sort(key=lambda c: json.dumps(c["c"]))
    if len(pgrs) != 454:
        raise MachineryError(f"{len(pgrs)} count triples instead of 454")
    CUBE = {0: np.eye(3), 1: np.array([[0.0, 1, 0], [-1, 0, 0], [0, 0, 1]]), 2: np.array([[0.0, 0, 1], [0, 1, 0], [-1, 0, 0]])}
    DT = (np.float64, np.int8, np.int16, np.int32, np.int64, np.float32)
    for j, rec in enumerate(pgrs):
        if quick and j % 3:
            continue
        c = rec["c"]
        exp = [_q(x) for x in rec["pgr"]]
        for mi, mult in enumerate((1, 11, 50, 128)):
            if quick and (j // 3 + mi) % 2:
                continue
            # crystal axis a (row 0) along x / y / z for c[0] / c[1] / c[2] grains (times the multiplier); the other rows follow
            o = np.concatenate([np.repeat(CUBE[k][None, :, :], mult * c[k], axis=0) for k in range(3)])
            dt = DT[(j + mi) % len(DT)]
            arr = o.astype(dt)
            chk.count(("pgr-scaled", json.dumps(c), mult, dt.__name__))
            try:
                got = tuple(float(x) for x in pd.diagnostics.symmetry_pgr(arr, axis="a"))
                ok, dev = _close(got, exp)
                if not ok:
                    chk.violation(dict(level="exact", clause="pgr-value", axis="a", texture="axis-aligned-counts", dtype=dt.__name__ if dt is not np.float64 else "float64"),
                                  f"symmetry_pgr(axis=a) = {got} on {mult} copies of the count triple {c} handed over as {dt.__name__}; the specification gives {exp}", dict(kind="pgr-scaled", c=c, mult=mult, dtype=dt.__name__))
                kmax = [k for k in range(3) if c[k] == max(c)]
                if len(kmax) == 1:
                    v = np.asarray(pd.diagnostics.bingham_average(arr, axis="a"), dtype=float).reshape(-1)
                    e = np.zeros(3); e[kmax[0]] = 1.0
                    if not (v.shape == (3,) and np.all(np.isfinite(v)) and min(np.abs(v - e).max(), np.abs(v + e).max()) < 1e-9):
                        chk.violation(dict(level="exact", clause="mean-axis", axis="a", texture="axis-aligned-counts", dtype=dt.__name__ if dt is not np.float64 else "float64"),
                                      f"bingham_average(axis=a) = {v.tolist()} on {mult} copies of the count triple {c} handed over as {dt.__name__}; the specification gives +-{e.tolist()}", dict(kind="pgr-scaled", c=c, mult=mult, dtype=dt.__name__))
            except Exception as ex:  # noqa: BLE001
                chk.violation(dict(level="exact", clause="raised", call="symmetry_pgr/bingham_average", exc=type(ex).__name__), f"{ex!r} on {mult} copies of the count triple {c} handed over as {dt.__name__}", dict(kind="pgr-scaled", c=c, mult=mult, dtype=dt.__name__))

    neg = run_tlc("Diagnostics", "DiagnosticsNeg", workers=2, timeout=200, expect_violation=True)
    chk.add_tlc("DiagnosticsNeg", neg, "non-vacuity: the column-scatter 'lemma' must be refuted")
    chk.control("tlc-refutes-column-scatter-lemma", neg.violated == "NegColumnScatter", str(neg.violated))

    pd = quiet_pydrex()
    impl = Impl(pd)

    # ---- 1. spec -> code replay of every exact case
    shown = set()
    for c in cases:
        try:
            bad = REPLAYERS[c["kind"]](impl, c, chk)
        except ImplError as ex:
            bad = 1
            chk.violation(dict(level="exact", clause="raised", call=ex.call, exc=ex.exc_name), f"{ex} on an exact {c['kind']} case", dict(case=c))
        chk.count(_case_key(c), nontrivial=_nontrivial(c))
        if c["kind"] not in shown and bad == 0 and (c["kind"] != "tex" or (c["n"] >= 3 and c["pat"] != 0)):
            shown.add(c["kind"])
            chk.sample(dict(kind="exact-" + c["kind"], case=c))
    chk.cov["exact_cases"] = kinds

    # negative controls for the replayers: wrong expected values and mutant implementations must be flagged
    def fires(fn, imp, case):
        probe = Check(PID, tier, dry=True)
        try:
            fn(imp, case, probe)
        except ImplError:
            return ["raised"]
        return sorted({json.loads(k)["clause"] for k, _, _ in probe.violations})

    def impl_control(name, fired, detail=""):
        """Controls that run the real functions presuppose that those functions satisfy the property
        (a 'columns' mutant of an implementation that already uses columns is the correct program).
        When this run has already found violations such a control is recorded but not enforced, so
        that a broken implementation is reported as a violation (exit 1), not as machinery failure."""
        if not fired and (chk.violations or chk.known_hits):
            chk.cov["negative_controls"].append({"control": name, "fired": False, "detail": "not enforced - the implementation violates the property in this run; " + detail})
            return
        chk.control(name, fired, detail)

    def first(kind, pred):
        c = next((c for c in cases if c["kind"] == kind and pred(c)), None)
        if c is None:
            raise MachineryError(f"no {kind} case suitable for a negative control")
        return c

    def mutant_flagged(fn, mutant, kind, pred, clause=None, limit=200):
        cand = [c for c in cases if c["kind"] == kind and pred(c)][:limit]
        hits = [f for f in (fires(fn, Impl(pd, mutant), c) for c in cand) if (clause in f if clause else f)]
        return len(hits) > 0, f"{len(hits)} of {len(cand)} cases flagged"

    tex = first("tex", lambda c: c["n"] >= 3 and c["ax"][0]["meanDefined"] and c["ax"][0]["pgr"][0] != c["ax"][0]["pgr"][1]
                and any(x[1] == 3 for r in c["Q"] for x in r) and c["coax"][0]["defined"])
    wrong = json.loads(json.dumps(tex))
    wrong["ax"][0]["pgr"][0], wrong["ax"][0]["pgr"][1] = wrong["ax"][0]["pgr"][1], wrong["ax"][0]["pgr"][0]
    impl_control("replayer-flags-swapped-P-and-G", "pgr-value" in fires(replay_tex, impl, wrong))
    wrong = json.loads(json.dumps(tex))
    wrong["ax"][0]["mean"] = [[3, 5], [4, 5], [0, 1]]
    wrong["coax"][0]["val"] = [wrong["coax"][0]["val"][0] + 1, wrong["coax"][0]["val"][1] * 7]
    f = fires(replay_tex, impl, wrong)
    impl_control("replayer-flags-wrong-mean-axis-and-coaxial", "mean-axis" in f and "coaxial-value" in f, str(f))
    impl_control("replayer-flags-column-scatter-mutant", *mutant_flagged(replay_tex, "columns", "tex", lambda c: c["n"] >= 2))
    fse = first("fse", lambda c: c["axisDefined"])
    wrong = dict(fse, stretch=[fse["stretch"][0] * 1000 + 1, fse["stretch"][1] * 1000])
    impl_control("replayer-flags-wrong-stretch", "stretch" in fires(replay_fse, impl, wrong))
    impl_control("replayer-flags-right-Cauchy-Green-mutant", *mutant_flagged(replay_fse, "rightCG", "fse", lambda c: c["axisDefined"], "long-axis"))
    sh = first("shear", lambda c: c["docstringFrame"])
    wrong = json.loads(json.dumps(sh).replace(json.dumps(["atan", ["q", sh["t"]]]), json.dumps(["atan", ["q", [sh["t"][1], sh["t"][0]]]])))
    if wrong == sh:
        raise MachineryError("could not corrupt the angle term")
    impl_control("replayer-flags-complementary-angle", "helper-closed-form" in fires(replay_shear, impl, wrong))
    f = fires(replay_shear, Impl(pd, "rightCG"), sh)
    impl_control("replayer-flags-helper-disagreement-for-mutant", "axis-disagrees-with-angle-helper" in f, str(f))

    # ---- 2. code -> spec: float concretisation of the relational clauses, judged by TLC
    reps_tex, reps_fse = (3, 20) if quick else (24, 300)
    events = concretise(impl, scen, reps_tex, reps_fse)
    # controls ride in the same judge run: corrupted measure lines and a mutant implementation
    ctl = []
    base_tex = dict(kind="tex", finite=True, cls="control", n=50, axis="b", rep=0, m=dict(ZERO_TEX, gap_e9=500_000_000, iso_e9=500_000_000))
    for field, clause in (("sum1", "pgr-sum-not-1"), ("frameAxis", "mean-axis-does-not-corotate"), ("foldScal", "twofold-changes-scalars"), ("coaxOut", "coaxial-outside-unit-interval"), ("permCoax", "permutation-changes-coaxial"), ("eigres", "mean-not-principal-eigenvector")):
        e = json.loads(json.dumps(base_tex))
        e["m"][field] = 5_000_000  # 5e-9 > 1e-9
        e["sid"] = f"ctl/corrupt/{field}"
        ctl.append((e, clause, True))
    e = json.loads(json.dumps(base_tex))
    e["m"].update(frameAxis=2_000_000_000, permAxis=2_000_000_000, gap_e9=1000)  # ill-conditioned axis: excluded, not rejected
    e["sid"] = "ctl/excluded/axis"
    ctl.append((e, "axis-ill-conditioned", False))
    e = json.loads(json.dumps(base_tex))
    e["m"].update(coaxOut=2_000_000_000, frameCoax=2_000_000_000, iso_e9=10)
    e["sid"] = "ctl/excluded/coax"
    ctl.append((e, "scatter-isotropic", False))
    e = json.loads(json.dumps(base_tex))
    e.update(finite=False, sid="ctl/corrupt/finite")
    ctl.append((e, "not-finite", True))
    e = json.loads(json.dumps(base_tex))
    e["sid"] = "ctl/clean"
    ctl.append((e, None, False))
    base_fse = dict(kind="fse", finite=True, cls="simple_shear_yx", n=0, axis="-", rep=0, m=dict(ZERO_FSE, gap_e9=500_000_000))
    for field, clause in (("stretch", "not-largest-principal-stretch"), ("leftAxis", "axis-does-not-corotate"), ("rightStretch", "prior-rotation-changes-stretch")):
        e = json.loads(json.dumps(base_fse))
        e["m"][field] = 5_000_000
        e["sid"] = f"ctl/corrupt/{field}"
        ctl.append((e, clause, True))
    e = json.loads(json.dumps(base_fse))
    e["m"]["helperDeg"] = 500_000_000
    e["sid"] = "ctl/corrupt/helperDeg"
    ctl.append((e, "axis-disagrees-with-angle-helper", True))
    mut_scen = [s for s in scen if (s["kind"] == "texscen" and s["n"] == 50 and s["axis"] == "b") or (s["kind"] == "fsescen" and s["cls"] in ("gaussian", "simple_shear_yx"))]
    mut_events = concretise(Impl(pd, "columns"), [s for s in mut_scen if s["kind"] == "texscen"], 1, 0, tag="ctl/mutant-columns/")
    mut_events += concretise(Impl(pd, "rightCG"), [s for s in mut_scen if s["kind"] == "fsescen"], 0, 2, tag="ctl/mutant-rightCG/")

    with scratch() as d:
        verdicts, jr = judge(events + [e for e, _, _ in ctl] + mut_events, d)
    chk.add_tlc("DiagnosticsJudge", jr, f"{len(events)} recorded measure lines + {len(ctl) + len(mut_events)} control lines")
    chk.cov["traces_validated_against_impl"] += len(events)

    for e in events:
        clauses, skips = verdicts[e["sid"]]
        chk.count(("float", e["sid"]))
        for s in skips:
            chk.skip("float: " + s + (" - axis clauses not demanded" if s == "axis-ill-conditioned" else " within margin - coaxial clauses not demanded"))
        for k, x in e["m"].items():
            if k not in ("gap_e9", "iso_e9") and not ((k.endswith("Axis") or k == "helperDeg") and "axis-ill-conditioned" in skips) and not (("oax" in k) and "scatter-isotropic" in skips):
                chk.maximum(("float_%s_%s_e15" % (e["kind"], k)), x)
        for cl in clauses:
            sig = dict(level="float", clause=cl, cls=e["cls"])
            chk.violation(sig, f"{e['sid']}: {cl} ({e.get('raised') or 'measures ' + json.dumps(e['m'])}; seed {SEED})", dict(event=e, seed=SEED))
    chk.sample(dict(kind="float-texture-measures", event=next(e for e in events if e["kind"] == "tex" and e["n"] == 50)))
    chk.sample(dict(kind="float-finite-strain-measures", event=next(e for e in events if e["kind"] == "fse")))

    for e, clause, rejected in ctl:
        clauses, skips = verdicts[e["sid"]]
        if rejected:
            chk.control("judge-rejects-" + e["sid"], clauses == [clause], str(clauses))
        elif clause is None:
            chk.control("judge-accepts-" + e["sid"], clauses == [] and skips == [], f"{clauses} {skips}")
        else:
            chk.control("judge-excludes-" + e["sid"], clauses == [] and clause in skips, f"{clauses} {skips}")
    for tag, needed in (("ctl/mutant-columns/", {"frame-rotation-changes-scalars", "mean-axis-does-not-corotate"}), ("ctl/mutant-rightCG/", {"axis-does-not-corotate", "prior-rotation-changes-axis", "axis-disagrees-with-angle-helper"})):
        got = set()
        for e in mut_events:
            if e["sid"].startswith(tag):
                got |= set(verdicts[e["sid"]][0])
        impl_control("judge-rejects-" + tag.strip("/").split("/")[1], needed <= got, str(sorted(got)))

    return chk.finish(
        rule="exact: every CASE record TLC emits (count triple x crystal axis x rational frame rotation x permutation/two-fold pattern; "
        "stretch triple x principal frame x (R', Q'); tan(theta) x shear geometry), distinct by descriptor, non-trivial when the frame "
        "rotation is not axis-aligned (tex) / F is non-symmetric with a simple largest stretch (fse); float: every SCEN class "
        "(texture class x size x axis; deformation-gradient class) x seeded repetitions, each with a random permutation, two-fold "
        "pattern and frame rotation, distinct by scenario id",
        exhaustive=False,
        trusted=["numpy eigvalsh / 2-norm as leaf functions for residual and margin measures", "scipy Rotation.random for drawing floats inside a TLC-chosen class"],
    )


def replay(obj):
    """./check C13 --replay <file>: run the stored case against the current tree again."""
    pd = quiet_pydrex()
    impl = Impl(pd)
    rp = obj.get("replay") or {}
    probe = Check(PID, "quick", dry=True)
    if "case" in rp:
        REPLAYERS[rp["case"]["kind"]](impl, rp["case"], probe)
        for _, what, _ in probe.violations:
            print("still violated:", what)
        return 1 if probe.violations else 0
    print("float scenario: re-run ./check C13 with VERIF_SEED=%s (scenario %s)" % (rp.get("seed"), rp.get("event", {}).get("sid")))
    return 0
