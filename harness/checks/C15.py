"""C15 - volume-weighted resampling draws grains in proportion to their volume.

Spec:  Resample (Layer A): inverse-CDF law proved exhaustively on all volume vectors with
       denominator 12 and M <= 5 (6 in the thorough tier); shape decision table; the
       32-bit-safe integer form of the 6-sigma binomial region.
       ResampleTrace (Layer C): observational judgement of recorded calls.
Bind:  (spec -> code) the TLC-enumerated shape table is replayed into
       pydrex.stats.resample_orientations (ndarray and nested-list inputs) and the outcome /
       output shapes are compared with the table;
       (code -> spec) the real function is called with real seeds on scenario classes
       N x M x volume class x n_samples - including "drift" stacks (consecutive snapshots ~1e-9
       apart, equal grains swapping rank) and pooled replicate calls (same inputs, distinct
       seeds, counts added) for n_samples = 1, default, and 1 < n_samples < M;
       per (snapshot, grain) integer facts are logged and
       judged by TLC (ResampleTrace): pair membership, zero-volume grains, 6-sigma counts,
       shapes, default n_samples, reproducibility, ValueError for malformed shapes.
The harness only builds inputs, counts bit-equal rows and writes integers; the laws are in
the .tla files.  A 6-sigma excursion is confirmed on two fresh seeds (again judged by TLC)
before it is reported, so a correct sampler is not flagged by chance.
"""
import json
import re

import numpy as np

from harness.common import SEED, Check, MachineryError, cap, parse_printed_json, quiet_pydrex, run_tlc, scratch, write_ndjson

PID = "C15"
TRACE_DEFECT = "trace-"  # clauses of the trace spec that blame the recorder, not PyDRex


# ----------------------------------------------------------------------------- inputs
def _rotations(shape, rng):
    """Random proper rotation matrices, shape + (3, 3); all distinct with probability 1."""
    q = rng.normal(size=tuple(shape) + (4,))
    q /= np.linalg.norm(q, axis=-1, keepdims=True)
    w, x, y, z = (q[..., k] for k in range(4))
    m = np.empty(tuple(shape) + (3, 3))
    m[..., 0, 0] = 1 - 2 * (y * y + z * z)
    m[..., 0, 1] = 2 * (x * y - z * w)
    m[..., 0, 2] = 2 * (x * z + y * w)
    m[..., 1, 0] = 2 * (x * y + z * w)
    m[..., 1, 1] = 1 - 2 * (x * x + z * z)
    m[..., 1, 2] = 2 * (y * z - x * w)
    m[..., 2, 0] = 2 * (x * z - y * w)
    m[..., 2, 1] = 2 * (y * z + x * w)
    m[..., 2, 2] = 1 - 2 * (x * x + y * y)
    return m


def _positive_composition(total, parts, rng):
    """Random sequence of `parts` positive integers summing to `total`."""
    cuts = np.sort(rng.choice(np.arange(1, total), size=parts - 1, replace=False)) if parts > 1 else np.array([], int)
    edges = np.concatenate([[0], cuts, [total]])
    return np.diff(edges).astype(int)


VOLUME_CLASSES = ("uniform", "zeros", "duplicates", "dominant", "simplex")


def volume_numerators(cls, M, rng):
    """Integer numerators num[k] and denominator D of one snapshot's volumes (sum num = D)."""
    if M == 1:
        return np.array([1]), 1
    if cls == "uniform":
        return np.ones(M, int), M
    D = 12 if M <= 5 else 90
    if cls == "zeros":
        z = max(1, M // 2)
        v = np.concatenate([np.zeros(z, int), _positive_composition(D, M - z, rng)])
    elif cls == "duplicates":
        h = M // 2
        if M % 2 == 0:
            w = _positive_composition(D // 2, h, rng)
            v = np.concatenate([w, w])
        else:
            w = _positive_composition(D // 2 - 1, h, rng)
            v = np.concatenate([w, w, [D - 2 * w.sum()]])
    elif cls == "dominant":
        v = np.concatenate([np.ones(M - 1, int), [D - (M - 1)]])
    elif cls == "simplex":
        v = rng.multinomial(D, np.full(M, 1.0 / M))
    else:  # pragma: no cover
        raise MachineryError(f"unknown volume class {cls}")
    v = np.asarray(v, int)
    rng.shuffle(v)
    if v.sum() != D or v.min() < 0 or len(v) != M:
        raise MachineryError(f"volume generator broken for {cls}, M={M}: {v}")
    return v, D


def classes_for(M):
    if M == 1:
        return ("single",)
    if M == 2:
        return ("uniform", "zeros", "dominant", "simplex")  # duplicates == uniform for two grains
    return VOLUME_CLASSES


# ----------------------------------------------------------------------------- calling / projecting
_CALLS = [0]


def call(fn, o, f, nreq, seed):
    """Outcome class and (orientations, volumes) of one call; nreq = 0 means n_samples not given."""
    kw = {} if nreq == 0 else {"n_samples": nreq}
    if isinstance(o, np.ndarray) and isinstance(f, np.ndarray) and o.dtype.kind == "f" and f.dtype.kind == "f":
        # well-formed ndarray inputs are handed over in one of several in-memory representations of the same values
        from harness.common import represent

        _CALLS[0] += 1
        kind = ("c", "fortran", "strided", "readonly", "buffer", "buffer", "c")[_CALLS[0] % 7]
        o, f = represent(o, kind), represent(f, "strided" if kind == "fortran" else kind)
    try:
        out = fn(o, f, seed=seed, **kw)
    except ValueError:
        return "ValueError", None
    except Exception as ex:  # noqa: BLE001
        return "other:" + type(ex).__name__, None
    try:
        oo, ff = out
        return "None", (np.asarray(oo), np.asarray(ff))
    except Exception:  # noqa: BLE001
        return "None", (np.asarray(0.0), np.asarray(0.0))


def _rows(o, f):
    """(k, 10) float64 rows [orientation | volume], -0.0 canonicalised, as 80-byte records."""
    k = f.shape[0]
    r = np.ascontiguousarray(np.concatenate([o.reshape(k, 9), f.reshape(k, 1)], axis=1).astype(np.float64) + 0.0)
    return r.view(np.dtype((np.void, 80))).ravel()


def project_snapshot(in_o, in_f, out_o, out_f):
    """cnt[k] = outputs equal (value-wise) to input pair k; unp = outputs equal to no input pair."""
    M = in_f.shape[0]
    rin = _rows(in_o, in_f)
    table = {rin[k].tobytes(): k for k in range(M)}
    if len(table) != M:
        raise MachineryError("input pairs of a snapshot are not distinct; cannot attribute outputs")
    cnt = [0] * M
    unp = 0
    if out_f.shape[0]:
        uniq, c = np.unique(_rows(out_o, out_f), return_counts=True)
        for u, m in zip(uniq, c):
            k = table.get(u.tobytes())
            if k is None:
                unp += int(m)
            else:
                cnt[k] += int(m)
    return cnt, unp


def record_call(fn, o, f, nreq, seed, tid, meta, nums=None, D=None, more_seeds=()):
    """Run fn twice with the same seed (reproducibility), then once per seed in `more_seeds` on the
    same inputs; return the trace lines: one call line, one snap line per snapshot with the counts
    pooled over all successful calls, and one call line per replicate whose outcome or shapes
    differ from the first call."""
    exc, out = call(fn, o, f, nreq, seed)
    osh, vsh, repro = [], [], True
    if out is not None:
        osh, vsh = [int(x) for x in out[0].shape], [int(x) for x in out[1].shape]
        exc2, out2 = call(fn, o, f, nreq, seed)
        repro = bool(exc2 == "None" and out2[0].shape == out[0].shape and out2[1].shape == out[1].shape
                     and np.array_equal(out[0], out2[0]) and np.array_equal(out[1], out2[1]))
    oshape = [int(x) for x in np.shape(o)]
    fshape = [int(x) for x in np.shape(f)]
    stat = nums is not None and out is not None and len(osh) == 4 and len(vsh) == 2 and osh[0] == oshape[0] and vsh[0] == oshape[0] and osh[1] == vsh[1]
    lines = [dict(tid=tid, ev="call", os=oshape, fs=fshape, nreq=int(nreq), exc=exc, osh=osh, vsh=vsh, repro=repro, stat=bool(stat), **meta)]
    ascending = None
    if stat:
        outs_o, outs_f, odd = [out[0]], [out[1]], []
        for s2 in more_seeds:
            e2, o2 = call(fn, o, f, nreq, s2)
            if o2 is not None and o2[0].shape == out[0].shape and o2[1].shape == out[1].shape:
                outs_o.append(o2[0])
                outs_f.append(o2[1])
            elif len(odd) < 3:
                odd.append(dict(tid=tid, ev="call", os=oshape, fs=fshape, nreq=int(nreq), exc=e2, osh=[] if o2 is None else [int(x) for x in o2[0].shape],
                                vsh=[] if o2 is None else [int(x) for x in o2[1].shape], repro=True, stat=False, replicate_seed=int(s2), **meta))
        all_o = np.concatenate(outs_o, axis=1) if len(outs_o) > 1 else out[0]
        all_f = np.concatenate(outs_f, axis=1) if len(outs_f) > 1 else out[1]
        ascending = True
        fa = np.asarray(f, dtype=np.float64)
        for i in range(oshape[0]):
            cnt, unp = project_snapshot(np.asarray(o)[i], fa[i], all_o[i], all_f[i])
            num = np.asarray(nums[i], dtype=np.int64)
            dev = float(np.max(np.abs(fa[i] - num / D)))  # distance of the float volumes from the declared grid num/D
            lines.append(dict(tid=tid, ev="snap", i=i + 1, D=int(D), n=int(all_f.shape[1]), calls=len(outs_f), num=[int(x) for x in num], cnt=cnt, unp=unp,
                              dev_e12=cap(dev * 1e12), zex=bool(np.array_equal(fa[i] == 0.0, num == 0))))
            ascending = ascending and bool(np.all(np.diff(out[1][i]) >= 0))
        lines += odd
    return lines, ascending


DRIFT_EPS = (0.0, 2e-9, -2e-9, 1e-9, -1e-9)


def build_scenario(sc):
    """Concrete inputs of a scenario class; every random choice derives from SEED.

    Returns orientations, float volumes, the declared integer numerators per snapshot, D, the seed
    of the first call and the seeds of the replicate calls (sc["calls"] - 1 of them).
    Class "drift": all snapshots share one nominal vector num/D (with duplicate grains); snapshot
    j moves pairs of non-empty grains by +/- DRIFT_EPS[j] (sum preserved), so consecutive snapshots
    differ by ~1e-9 and equal grains swap rank from one snapshot to the next."""
    ALL = VOLUME_CLASSES + ("drift",)
    rng = np.random.default_rng([abs(SEED), sc["N"], sc["M"], ALL.index(sc["cls"]) if sc["cls"] in ALL else 9, sc["nreq"] % 1000003, sc["rep"], sc.get("salt", 0), sc.get("calls", 1)])
    N, M = sc["N"], sc["M"]
    nums, D = [], None
    if sc["cls"] == "drift":
        v, D = volume_numerators("duplicates" if M > 2 else "uniform", M, rng)
        pos = np.flatnonzero(v > 0)
        rng.shuffle(pos)
        pattern = np.zeros(M)
        half = len(pos) // 2
        pattern[pos[:half]] = 1.0
        pattern[pos[half : 2 * half]] = -1.0
        nums = [v] * N
        f = np.array([v / D + DRIFT_EPS[j % len(DRIFT_EPS)] * pattern for j in range(N)], dtype=np.float64)
    else:
        for _ in range(N):
            v, D = volume_numerators(sc["cls"], M, rng)
            nums.append(v)
        f = np.array([v / D for v in nums], dtype=np.float64)
    o = _rotations((N, M), rng)
    seeds = [int(x) for x in rng.choice(2**31 - 1, size=sc.get("calls", 1), replace=False)]
    # seed classes: "for a given seed" includes the smallest seeds (0 is a seed, not "no seed") and numpy integers
    pick = int(rng.integers(0, 6))
    if pick == 0:
        seeds[0] = 0
    elif pick == 1:
        seeds[0] = 1
    elif pick == 2:
        seeds[0] = np.int64(seeds[0])
    return o, f, nums, D, seeds[0], seeds[1:]


def n_label(nreq, M):
    return {0: "default", 1: "1", 10000: "1e4", 1000000: "1e6"}.get(nreq, "M" if nreq == M else "M-1" if nreq == M - 1 else "M/2" if nreq == M // 2 else str(nreq))


# ----------------------------------------------------------------------------- trace validation
def validate(lines, d, name, timeout=600):
    path = d / f"{name}.ndjson"
    write_ndjson(path, lines)
    res = run_tlc("ResampleTrace", "ResampleTrace", workers=1, env={"TRACE_FILE": str(path)}, timeout=timeout)
    rejects = set()
    for ln in res.output.splitlines():
        m = re.match(r'<<"REJECT", (-?\d+), (\d+), "([^"]*)", (\d+)>>', ln)
        if m:
            rejects.add((int(m.group(1)), int(m.group(2)), m.group(3), int(m.group(4))))
    done = re.search(r'<<"DONE", (\d+), (\d+)>>', res.output)
    if not done or int(done.group(1)) != len(lines):
        raise MachineryError("ResampleTrace did not consume the whole trace:\n" + res.output[-3000:])
    if int(done.group(2)) != len(rejects):
        raise MachineryError(f"ResampleTrace verdict count mismatch: DONE says {done.group(2)}, parsed {len(rejects)}")
    return sorted(rejects), res


# ----------------------------------------------------------------------------- shape table replay
def table_inputs(e, rng):
    os_, fs_ = tuple(e["os"]), tuple(e["fs"])
    if len(os_) >= 2 and os_[-2:] == (3, 3):
        o = _rotations(os_[:-2], rng)
    else:
        o = rng.random(os_)
    f = np.full(fs_, 1.0 / fs_[-1]) if len(fs_) else np.float64(1.0)
    return o, f


def table_signature(e, clause):
    sig = dict(clause=clause, fault=e["fault"])
    if e["fault"] == "trailing-not-3x3":
        sig["trailing"] = f"{e['os'][2]}x{e['os'][3]}"
    return sig


def compare_table_entry(e, exc, osh, vsh, chk, form):
    """spec -> code comparison of one table entry; returns the failing clause or None."""
    clause = None
    if e["exc"] == "ValueError":
        if exc == "None":
            clause = "malformed-input-accepted"
        elif exc != "ValueError":
            clause = "wrong-exception-class"
    elif exc != "None":
        clause = "valid-input-raised"
    elif osh != e["osh"]:
        clause = "orientation-output-shape"
    elif vsh != e["vsh"]:
        clause = "volume-output-shape"
    if clause:
        chk.violation(
            table_signature(e, clause),
            f"resample_orientations(orientations{tuple(e['os'])}, fractions{tuple(e['fs'])}, n_samples={e['nreq'] or None}) [{form}] -> {exc} "
            f"{osh} {vsh}; the shape table says {e['exc']} {e['osh']} {e['vsh']}",
            dict(kind="shape-table-entry", entry=e, form=form, got=dict(exc=exc, osh=osh, vsh=vsh)),
        )
    return clause


# ----------------------------------------------------------------------------- control samplers
def make_sampler(kind):
    """Reference-free samplers used ONLY as negative / positive controls of the machinery."""

    def fn(orientations, fractions, n_samples=None, seed=None):
        o, f = np.asarray(orientations), np.asarray(fractions)
        N, M = f.shape
        rng = np.random.default_rng(None if kind == "unseeded" else seed)
        n = M if n_samples is None else n_samples
        if kind == "default-n-off" and n_samples is None:
            n = M + 1
        oo, ff = np.empty((N, n, 3, 3)), np.empty((N, n))
        cached = None
        for i in range(N):
            if kind == "stale-sort-cache":  # sort / cumulative sum reused while the volumes are "close"
                if cached is None or not np.allclose(f[i], cached[0]):
                    s = np.argsort(f[i])
                    cum = f[i][s].cumsum()
                    cum[-1] = 1.0
                    cached = (f[i], s, cum)
                pos = np.searchsorted(cached[2], rng.random(n))
                oo[i] = o[i][cached[1]][pos]
                ff[i] = cached[0][cached[1]][pos]
                continue
            if kind == "without-replacement" and 1 < n < M:
                idx = rng.choice(M, size=n, replace=False, p=f[i] / f[i].sum())
            elif kind == "uniform":
                idx = rng.integers(0, M, n)
            elif kind == "choice":
                idx = rng.choice(M, size=n, p=f[i] / f[i].sum())
            else:
                s = np.argsort(f[i])
                cum = f[i][s].cumsum()
                cum[-1] = 1.0
                pos = np.searchsorted(cum, rng.random(n))
                if kind == "off-by-one":
                    pos = np.maximum(pos - 1, 0)
                idx = s[pos]
            oo[i] = o[(i + 1) % N if kind == "cross-snapshot" else i][idx]
            ff[i] = np.sort(f[i][idx]) if kind == "volumes-sorted-separately" else f[i][idx]
        return oo, ff

    return fn


CONTROL_SAMPLERS = {
    # kind -> (scenario, clauses of which at least one must be reported; () = must be accepted)
    "uniform": (dict(N=1, M=5, cls="dominant", nreq=10000), ("count-outside-6-sigma",)),
    "off-by-one": (dict(N=1, M=5, cls="dominant", nreq=10000), ("count-outside-6-sigma",)),
    "volumes-sorted-separately": (dict(N=1, M=5, cls="simplex", nreq=10000), ("output-pair-not-an-input-pair",)),
    "cross-snapshot": (dict(N=3, M=5, cls="simplex", nreq=0), ("output-pair-not-an-input-pair",)),
    "unseeded": (dict(N=1, M=50, cls="uniform", nreq=0), ("not-reproducible-for-equal-seeds",)),
    "default-n-off": (dict(N=3, M=2, cls="uniform", nreq=0), ("orientation-output-shape", "volume-output-shape")),
    "stale-sort-cache": (dict(N=3, M=5, cls="drift", nreq=0), ("output-pair-not-an-input-pair",)),
    "without-replacement": (dict(N=1, M=8, cls="dominant", nreq=4, calls=500), ("count-outside-6-sigma",)),
    "choice": (dict(N=3, M=50, cls="zeros", nreq=10000), ()),
    "choice-pooled-drift": (dict(N=3, M=8, cls="drift", nreq=7, calls=400), ()),
}


def first_zero_grain(snap):
    return next((k for k, v in enumerate(snap["num"]) if v == 0), None)


def run_controls(chk, d, entries):
    """Every clause of the trace spec must fire on a planted defect; a different correct sampler
    must be accepted."""
    lines, expect = [], {}
    tid = 0
    for kind, (sc, clauses) in CONTROL_SAMPLERS.items():
        sc = dict(sc, rep=0, salt=77)
        o, f, nums, D, seed, more = build_scenario(sc)
        ls, _ = record_call(make_sampler(kind.split("-pooled")[0]), o, f, sc["nreq"], seed, tid, dict(cls=sc["cls"]), nums, D, more)
        lines += ls
        expect[tid] = (f"sampler:{kind}", clauses)
        tid += 1
    # hand-corrupted copies of a synthetic trace whose counts sit exactly on their expectation
    # (independent of the implementation, so a broken sampler cannot disable the controls)
    good = [
        dict(tid=0, ev="call", os=[1, 5, 3, 3], fs=[1, 5], nreq=12000, exc="None", osh=[1, 12000, 3, 3], vsh=[1, 12000], repro=True, stat=True),
        dict(tid=0, ev="snap", i=1, D=12, n=12000, calls=1, num=[0, 3, 0, 4, 5], cnt=[0, 3000, 0, 4000, 5000], unp=0, dev_e12=2000, zex=True),
    ]

    def corrupt(name, clauses, mutate):
        nonlocal tid
        ls = json.loads(json.dumps(good))
        for x in ls:
            x["tid"] = tid
        mutate(ls)
        lines.extend(ls)
        expect[tid] = (name, clauses)
        tid += 1

    corrupt("untouched-synthetic-trace", (), lambda ls: None)

    def move_counts(ls):  # totals preserved: only the distribution clause can see it
        s = ls[1]
        big = int(np.argmax(s["cnt"]))
        small = next(k for k in range(len(s["cnt"])) if k != big and s["num"][k] > 0)
        s["cnt"][big] -= 1500
        s["cnt"][small] += 1500

    corrupt("counts-moved-between-grains", ("count-outside-6-sigma",), move_counts)

    def draw_zero(ls):
        s = ls[1]
        big = int(np.argmax(s["cnt"]))
        s["cnt"][big] -= 1
        s["cnt"][first_zero_grain(s)] += 1

    corrupt("zero-volume-grain-drawn-once", ("zero-volume-grain-drawn",), draw_zero)

    def foreign_pair(ls):
        s = ls[1]
        s["cnt"][int(np.argmax(s["cnt"]))] -= 1
        s["unp"] += 1

    corrupt("one-pair-not-in-input", ("output-pair-not-an-input-pair",), foreign_pair)
    corrupt("orientation-shape-wrong", ("orientation-output-shape",), lambda ls: ls[0].__setitem__("osh", [1, 12000, 3]))
    corrupt("volume-shape-wrong", ("volume-output-shape",), lambda ls: ls[0].__setitem__("vsh", [12000, 1]))
    corrupt("not-reproducible", ("not-reproducible-for-equal-seeds",), lambda ls: ls[0].__setitem__("repro", False))
    corrupt("valid-call-raised", ("valid-input-raised",), lambda ls: (ls[0].update(exc="ValueError", osh=[], vsh=[], stat=False), ls.__delitem__(1)))
    corrupt("snapshot-line-dropped", ("trace-missing-snapshot-lines",), lambda ls: ls.__delitem__(1))
    corrupt("pooled-over-3-calls", (), lambda ls: (ls[0].update(nreq=4000, osh=[1, 4000, 3, 3], vsh=[1, 4000]), ls[1].update(calls=3)))
    corrupt("pooled-total-not-multiple", ("trace-snapshot-inconsistent-with-call",), lambda ls: ls[1].update(calls=7))
    corrupt("volumes-far-from-declared-grid", ("trace-volumes-off-declared-grid",), lambda ls: ls[1].update(dev_e12=20000))
    corrupt("declared-zero-not-exactly-zero", ("trace-volumes-off-declared-grid",), lambda ls: ls[1].update(zex=False))
    corrupt("count-lost", ("trace-counts-do-not-partition-outputs",), lambda ls: ls[1]["cnt"].__setitem__(int(np.argmax(ls[1]["cnt"])), 3))
    # a malformed table entry reported as accepted / as another exception class
    bad = next(e for e in entries if e["exc"] == "ValueError" and e["fault"] == "M-mismatch")
    lines.append(dict(tid=tid, ev="call", os=bad["os"], fs=bad["fs"], nreq=0, exc="None", osh=[bad["os"][0], bad["os"][1], 3, 3], vsh=bad["fs"], repro=True, stat=False))
    expect[tid] = ("malformed-accepted", ("malformed-input-accepted",))
    tid += 1
    lines.append(dict(tid=tid, ev="call", os=bad["os"], fs=bad["fs"], nreq=0, exc="other:IndexError", osh=[], vsh=[], repro=True, stat=False))
    expect[tid] = ("malformed-other-exception", ("wrong-exception-class",))
    tid += 1
    rejects, res = validate(lines, d, "controls")
    chk.add_tlc("ResampleTrace(controls)", res, f"{len(expect)} planted traces ({len(lines)} lines): mutant samplers, corrupted copies of a synthetic exact-expectation trace, one alternative correct sampler")
    by_tid = {}
    for t, _, clause, _ in rejects:
        by_tid.setdefault(t, set()).add(clause)
    for t, (name, clauses) in expect.items():
        got = by_tid.get(t, set())
        if clauses:
            chk.control(f"trace-spec-rejects:{name}", bool(got & set(clauses)), f"expected one of {clauses}, got {sorted(got)}")
        else:
            chk.control(f"trace-spec-accepts:{name}", not got, f"expected no verdict, got {sorted(got)}")


# ----------------------------------------------------------------------------- main
def scenario_list(tier):
    """Single-call scenarios (shapes, reproducibility, membership, counts at large n) and pooled
    scenarios: `calls` calls with distinct seeds on the same inputs whose per-grain counts are
    added, so that the 6-sigma clause has power for small n_samples too - in particular for
    1 < n_samples < M (downsampling), n_samples = 1 and the default."""
    quick = tier != "thorough"
    reps = 3 if quick else 24
    out = []
    for N in (1, 3):
        for M in (1, 2, 5, 50):
            ns = [1, 0, 10000] + ([M] if M > 1 else []) + ([] if quick else [137])
            for cls in classes_for(M):
                for nreq in ns:
                    for rep in range(reps):
                        out.append(dict(N=N, M=M, cls=cls, nreq=nreq, rep=rep))
                if not quick:
                    for rep in range(2 if N == 1 else 1):
                        out.append(dict(N=N, M=M, cls=cls, nreq=1000000, rep=rep))
    # sample counts between the enumerated ones (a seeded draw; odd, prime and just-below-the-documented-maximum values:
    # an implementation that gathers the samples in blocks has a ragged last block at such counts)
    rs = np.random.default_rng(abs(SEED) + 1515)
    mids = [int(x) for x in rs.integers(3, 30000, size=6 if quick else 60)] + [999983] + ([] if quick else [999999, 1000000 - 1 - 2 * int(rs.integers(1, 40000)), 524287, 932069])
    for j, nreq in enumerate(mids):
        out.append(dict(N=(1, 3)[j % 2] if nreq < 100000 else (1, 2)[j % 2], M=(5, 50, 2)[j % 3], cls=classes_for(5)[j % len(classes_for(5))], nreq=nreq, rep=0))
    # slow drift: consecutive snapshots ~1e-9 apart, equal grains swapping rank
    for N in (2, 3, 5):
        for M in (2, 5, 50):
            for nreq in (0, 10000) + (() if quick else (1, M - 1)):
                for rep in range(2 if quick else 12):
                    out.append(dict(N=N, M=M, cls="drift", nreq=nreq, rep=rep))
    # pooled replicates
    draws = 3000 if quick else 20000
    for N in (1, 3):
        for M in (5, 8, 50):
            for cls in VOLUME_CLASSES + (("drift",) if N > 1 else ()):
                for nreq in (1, 0, M // 2, M - 1):
                    n = M if nreq == 0 else nreq
                    calls = min(-(-draws // n), 1500 if quick else 6000)
                    for rep in range(1 if quick else 3):
                        out.append(dict(N=N, M=M, cls=cls, nreq=nreq, rep=rep, calls=calls))
    return out


def main(tier):
    chk = Check(PID, tier)
    quick = tier != "thorough"
    # ---- 1. Layer A: the sampling law, exhaustively
    law = run_tlc("Resample", "Resample", workers=8, timeout=600)
    chk.add_tlc("Resample", law, "all volume vectors D=12, M<=5 x every ascending layout (all tie-breaks): count law, zero-volume unreachable, draws are input indices, pairing")
    if law.distinct < 8000:
        raise MachineryError(f"Resample explored only {law.distinct} states")
    if not quick:
        r2 = run_tlc("Resample", "Resample_thorough", workers=16, timeout=900)
        chk.add_tlc("Resample(all layouts)", r2, "all volume vectors D=12, M<=5 x ALL layout permutations (law independent of the sort)")
        r3 = run_tlc("Resample", "Resample_m6", workers=16, timeout=900)
        chk.add_tlc("Resample(M<=6)", r3, "all volume vectors D=12, M<=6 x every ascending layout")
    # ---- 2. shape decision table (+ exactness of the split 6-sigma form)
    tab = run_tlc("Resample", "ResampleShapes", workers=4, timeout=300)
    chk.add_tlc("Resample(shape table)", tab, "orientation x fraction shape candidates for (N,M) in {(1,2),(3,5),(2,2)} x n_samples in {default, 7}; SplitBoundExact")
    entries = parse_printed_json(tab.output, "SHAPE")
    faults = {e["fault"] for e in entries}
    if len(entries) < 1400 or faults != {"none", "orientations-rank", "fractions-rank", "N-mismatch", "M-mismatch", "trailing-not-3x3"}:
        raise MachineryError(f"shape table incomplete: {len(entries)} entries, faults {sorted(faults)}")

    pd = quiet_pydrex()
    from pydrex import stats

    fn = getattr(pd, "resample_orientations", None) or stats.resample_orientations  # observe_at: the public name

    lines, meta = [], {}
    tid = 0
    # ---- 3. replay the table (spec -> code) and record the same calls for the trace spec
    rng = np.random.default_rng([abs(SEED), 15])
    outcomes = {}
    for e in entries:
        o, f = table_inputs(e, rng)
        for form in ("ndarray", "list"):
            oi, fi = (o, f) if form == "ndarray" else (o.tolist(), f.tolist())
            ls, _ = record_call(fn, oi, fi, e["nreq"], 1 + (SEED % 1000), tid, {})
            c = ls[0]
            compare_table_entry(e, c["exc"], c["osh"], c["vsh"], chk, form)
            chk.count(("table", tuple(e["os"]), tuple(e["fs"]), e["nreq"]))
            k = f"{e['fault']}->{c['exc']}"
            outcomes[k] = outcomes.get(k, 0) + 1
            meta[tid] = dict(kind="table", entry=e, form=form)
            lines += ls
            tid += 1
    chk.sample(dict(kind="shape-table-entry", entry=next(e for e in entries if e["fault"] == "N-mismatch")))
    chk.sample(dict(kind="shape-table-entry", entry=next(e for e in entries if e["fault"] == "none")))
    chk.cov["table_outcomes"] = outcomes
    # replayer control: a flipped expected value must be flagged
    probe = Check(PID, tier, dry=True)
    ok_e = next(e for e in entries if e["exc"] == "None")
    compare_table_entry(dict(ok_e, exc="ValueError", fault="M-mismatch"), "None", ok_e["osh"], ok_e["vsh"], probe, "ndarray")
    compare_table_entry(dict(ok_e, osh=[ok_e["osh"][0], ok_e["osh"][1] + 1, 3, 3]), "None", ok_e["osh"], ok_e["vsh"], probe, "ndarray")
    chk.control("replayer-flags-wrong-expected-outcome-and-shape", len(probe.violations) == 2, str([w for _, w, _ in probe.violations])[:300])

    # ---- 4. statistical scenarios with real seeds (code -> spec)
    scen = scenario_list(tier)
    n_asc = n_stat = 0
    first_stat_tid = tid
    for sc in scen:
        o, f, nums, D, seed, more = build_scenario(sc)
        ls, asc = record_call(fn, o, f, sc["nreq"], seed, tid, dict(cls=sc["cls"]), nums, D, more)
        meta[tid] = dict(kind="scenario", sc=sc, seed=seed)
        lines += ls
        tid += 1
        chk.count(("scenario", sc["N"], sc["M"], sc["cls"], sc["nreq"], sc["rep"], sc.get("calls", 1)))
        chk.cov["evaluations"] += sc.get("calls", 1) - 1
        for s in (x for x in ls if x["ev"] == "snap"):
            for k in range(len(s["num"])):
                den = 36 * s["n"] * s["num"][k] * (s["D"] - s["num"][k]) + 36 * s["D"] ** 2
                chk.maximum("six_sigma_region_used_fraction", (s["cnt"][k] * s["D"] - s["n"] * s["num"][k]) ** 2 / den)
        if asc is not None and len(ls) > 1 and ls[1]["ev"] == "snap" and ls[1]["n"] > ls[1]["calls"]:
            n_stat += 1
            n_asc += bool(asc)
    t5 = next(t for t in range(first_stat_tid, tid) if meta[t]["sc"]["M"] == 5 and meta[t]["sc"]["nreq"] == 0)
    chk.sample(dict(kind="scenario-trace", scenario=meta[t5]["sc"], lines=[l for l in lines if l["tid"] == t5][:2]))
    big = next((l for l in lines if l["ev"] == "snap" and l["n"] >= 10000 and len(l["num"]) == 5), None)
    if big:
        chk.sample(dict(kind="snapshot-line", line=big))
    chk.cov["observations"] = {
        "returned_volumes_ascending_in_calls_with_n_gt_1": f"{n_asc} of {n_stat}",
        "note": "the docstring says 'sorted (ascending) grain volumes'; the code returns them in draw order, paired with their orientations - not judged, the statement only requires pair membership",
    }

    with scratch() as d:
        rejects, res = validate(lines, d, "main", timeout=900 if quick else 1800)
        chk.add_tlc("ResampleTrace", res, f"{tid} recorded calls ({len(lines)} lines): {len(entries) * 2} table calls, {len(scen)} scenario calls")
        chk.cov["traces_validated_against_impl"] += tid
        # ---- 5. verdicts
        excursions = {}
        for t, line, clause, k in rejects:
            m = meta.get(t)
            if clause.startswith(TRACE_DEFECT) or m is None:
                raise MachineryError(f"recorder defect reported by the trace spec: tid {t} line {line}: {clause}")
            if m["kind"] == "table":
                e = m["entry"]
                chk.violation(table_signature(e, clause), f"trace spec rejected table call orientations{tuple(e['os'])} fractions{tuple(e['fs'])} [{m['form']}]: {clause}",
                              dict(kind="shape-table-entry", entry=e, form=m["form"], line=lines[line - 1]))
                continue
            sc = m["sc"]
            if clause == "count-outside-6-sigma":
                excursions.setdefault(t, []).append((line, k))
                continue
            chk.violation(dict(clause=clause, volumes=sc["cls"], n=n_label(sc["nreq"], sc["M"]), M=sc["M"]),
                          f"trace spec rejected scenario {sc} (seed {m['seed']}): {clause}" + (f" at grain {k}" if k else "") + f": {json.dumps(lines[line - 1])[:300]}", dict(kind="scenario", scenario=sc, seed=m["seed"], line=lines[line - 1]))
        # a 6-sigma excursion is reported only when two fresh seeds of the same scenario show it too
        if excursions:
            clines, cmeta, ct = [], {}, 0
            for t in excursions:
                for salt in (1, 2):
                    sc = dict(meta[t]["sc"], salt=salt)
                    o, f, nums, D, seed, more = build_scenario(sc)
                    ls, _ = record_call(fn, o, f, sc["nreq"], seed, ct, dict(cls=sc["cls"]), nums, D, more)
                    clines += ls
                    cmeta[ct] = t
                    ct += 1
            crej, cres = validate(clines, d, "confirm")
            chk.add_tlc("ResampleTrace(confirmation)", cres, f"{ct} re-runs of {len(excursions)} scenarios with a 6-sigma excursion")
            confirmed = {}
            for t2, _, clause, _ in crej:
                if clause.startswith(TRACE_DEFECT):
                    raise MachineryError(f"recorder defect in confirmation run: {clause}")
                confirmed.setdefault(cmeta[t2], set()).add(t2)
            for t, where in excursions.items():
                sc = meta[t]["sc"]
                if len(confirmed.get(t, ())) == 2:
                    chk.violation(dict(clause="count-outside-6-sigma", volumes=sc["cls"], n=n_label(sc["nreq"], sc["M"]), M=sc["M"]),
                                  f"grain counts outside the 6-sigma binomial region in scenario {sc} and in both fresh-seed re-runs", dict(kind="scenario", scenario=sc, seed=meta[t]["seed"], where=where))
                else:
                    chk.skip("6-sigma-excursion-not-confirmed-on-fresh-seeds")
        # ---- 6. negative / positive controls of the trace specification
        run_controls(chk, d, entries)
    # ---- 7. results held across later calls, at sample counts where the outputs are large (a result belongs to its
    # call: a later call of the same shape must not change it).  Grain k of snapshot i is tagged by its volume and by
    # entry [0][0] of its matrix, so membership and pairing can be read off the samples themselves.
    import pydrex.stats as _stats

    for N, M, ns in ((3, 7, 100_000), (1, 4, 250_000), (3, 7, 100_000)) if quick else ((3, 7, 100_000), (1, 4, 1_000_000), (2, 50, 400_000), (3, 7, 100_000)):
        held = []
        for call in range(3):
            rng = np.random.default_rng([abs(SEED), N, M, ns, call])
            f = rng.random((N, M)) + 0.05
            f /= f.sum(axis=1, keepdims=True)
            o = np.zeros((N, M, 3, 3))
            o[:, :, 0, 0] = f + 10.0 * (call + 1)          # tag: the grain's own volume, offset by the call
            o[:, :, 1, 1] = o[:, :, 2, 2] = 1.0
            try:
                ro, rf = _stats.resample_orientations(o, f, n_samples=ns, seed=call + 1)
                ro, rf = np.asarray(ro), np.asarray(rf)
            except Exception as ex:  # noqa: BLE001
                chk.violation(dict(clause="raised", n="large", exc=type(ex).__name__), f"resample_orientations raised {ex!r} for N={N}, M={M}, n_samples={ns}", dict(kind="held-results", N=N, M=M, ns=ns))
                break
            chk.count(("held-large", N, M, ns, call))
            held.append((call, f, ro, rf, ro[:, :, 0, 0].copy(), rf.copy()))
            for c0, f0, ro0, rf0, tag0, vol0 in held:
                ok_shape = ro0.shape == (N, ns, 3, 3) and rf0.shape == (N, ns)
                unchanged = ok_shape and np.array_equal(ro0[:, :, 0, 0], tag0) and np.array_equal(rf0, vol0)
                own = ok_shape and all(np.isin(rf0[i], f0[i]).all() for i in range(N)) and np.array_equal(ro0[:, :, 0, 0], rf0 + 10.0 * (c0 + 1))
                if not (unchanged and own):
                    chk.violation(dict(clause="held-result-changed-by-a-later-call" if ok_shape and not unchanged else "sample-not-an-input-grain-of-its-snapshot", n="large"),
                                  f"the result of call {c0} (N={N}, M={M}, n_samples={ns}) examined after call {call}: " + ("its arrays were overwritten" if ok_shape and not unchanged else "samples are not (orientation, volume) pairs of its own input"),
                                  dict(kind="held-results", N=N, M=M, ns=ns, earlier=c0, later=call))
                    held = []
                    break
            else:
                continue
            break
    return chk.finish(
        rule="table: every (orientation shape, fraction shape, n_samples) entry of the TLC-enumerated shape table, replayed as ndarray and as nested lists, distinct by tuple; "
        "scenarios: N in {1,3} x M in {1,2,5,50} x volume class (uniform, zeros, duplicates, dominant, random simplex; rational k/D) x n_samples in {1, default, M, 1e4[, 137, 1e6]} x seeded repetitions; "
        "drift stacks N in {2,3,5} x M in {2,5,50} (snapshots 1e-9 apart, rank swaps); pooled replicates N in {1,3} x M in {5,8,50} x class x n_samples in {1, default, M//2, M-1} with counts added over up to 1500 (6000) calls; distinct by that tuple",
        exhaustive=False,
        trusted=["numpy bit-equal row matching attributes each output pair to an input grain (orientations of a snapshot are pairwise distinct)",
                 "6-sigma binomial region: a correct sampler leaves it with probability < 1e-6 per grain; excursions are re-tested on two fresh seeds before being reported"],
    )


def replay(obj):
    """./check C15 --replay <file>: re-run the recorded case against the current tree."""
    quiet_pydrex()
    from pydrex import stats

    r = obj.get("replay") or {}
    if r.get("kind") == "shape-table-entry":
        e = r["entry"]
        o, f = table_inputs(e, np.random.default_rng(0))
        if r.get("form") == "list":
            o, f = o.tolist(), np.asarray(f).tolist()
        exc, out = call(stats.resample_orientations, o, f, e["nreq"], 1)
        print(f"orientations{tuple(e['os'])} fractions{tuple(e['fs'])} n_samples={e['nreq'] or None} -> {exc}"
              + (f" shapes {out[0].shape} {out[1].shape}" if out else "") + f"; table says {e['exc']}")
        return 0 if exc == e["exc"] else 1
    if r.get("kind") == "scenario":
        sc = r["scenario"]
        o, f, nums, D, seed, more = build_scenario(sc)
        ls, _ = record_call(stats.resample_orientations, o, f, sc["nreq"], seed, 0, dict(cls=sc["cls"]), nums, D, more)
        with scratch() as d:
            rejects, _ = validate(ls, d, "replay")
        print(json.dumps(ls)[:2000])
        print("verdicts:", rejects)
        return 1 if rejects else 0
    return 0
