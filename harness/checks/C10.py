"""C10 - the Voigt average is the volume-weighted mean of rotated single-crystal stiffnesses.

Spec:  spec/Voigt.tla.  Average(minerals, assemblage, fractions, tensors) with the single-crystal
       tensor chosen by phase identity and the orientation convention of the docstrings
       (direction cosines, crystal -> external = transpose); the rejection table; the lemmas
       (symmetry, K_V/G_V invariant on 21 basis tensors x rotations => moduli of the average,
       co-rotation, aligned grain, memo table = direct evaluation) are TLC invariants.
Bind:  spec -> code.  TLC enumerates assemblage x mineral order x phase fractions x tensor library
       x 1-3 grains x 1-2 snapshots x textures x volume vectors and emits the exact expected 6x6
       of every snapshot; every case is built as real `Mineral` objects and fed to
       pydrex.voigt_averages (tolerance 1e-9 relative, DESIGN 6).  The rejection table is replayed.
       Seeded 50-grain float scenarios are measured (symmetry, moduli law, co-rotation, aligned
       grain, phase-order and mineral-order independence) with the functionals / law / index maps
       emitted by the spec; the integer measures are judged by TLC (Voigt.tla, Mode "measures").
       When an exact case disagrees, the spec's named deviation (tensor by position, F5) is used
       only to NAME the clause.
       History (Voigt.tla Mode "history"): every action sequence SetTensor(phase, library) /
       Average(instance, case) up to the spec's depth, plus long scripts, is replayed on ONE real
       StiffnessTensors object mutated between calls, interleaved with the import-time default
       argument and fresh pre-customised objects; every call must return the spec's value for the
       library held AT CALL TIME.
"""
import json

import numpy as np

from harness import evalterm
from harness.common import SEED, Check, MachineryError, cap, parse_printed_json, parse_printed_tuples, quiet_pydrex, run_tlc, scratch, write_ndjson

SHORT = {"olivine": "ol", "enstatite": "en"}
REL_TOL = 1e-9  # DESIGN section 6: |impl - exact| <= 1e-9 * max(1, |exact|_inf) + 1e-12
ABS_TOL = 1e-12
CONTROL_SID = 1_000_000  # measure events with sid >= this are negative controls
MEASURE_CLAUSE = {
    "symmetry": "symmetry",
    "moduliK": "moduli-texture-independent",
    "moduliG": "moduli-texture-independent",
    "corotation": "co-rotation",
    "aligned": "aligned-grain-returns-C",
    "phaseOrder": "phase-order-independence",
    "mineralOrder": "mineral-order-independence",
}


def asm_name(asm):
    return ",".join(SHORT[a] for a in asm)


def qf(x):
    return x[0] / x[1]


class Binding:
    """Everything needed to drive pydrex.voigt_averages from the spec's tables."""

    def __init__(self, pd, tables):
        from pydrex import core, minerals

        self.pd = pd
        self.M = minerals
        self.PH = {"olivine": core.MineralPhase.olivine, "enstatite": core.MineralPhase.enstatite}
        self.FAB = {"olivine": core.MineralFabric.olivine_A, "enstatite": core.MineralFabric.enstatite_AB}
        self.regime = core.DeformationRegime.matrix_dislocation
        self.t = tables
        self.rots = [np.array([[qf(x) for x in row] for row in R]) for R in tables["rots"]]
        self.vidx = np.array(tables["vidx"]) - 1
        self.vpair = np.array(tables["vpair"]) - 1
        self.libs = []
        default = minerals.StiffnessTensors()
        for k, lib in enumerate(tables["libs"]):
            ol = np.array(lib["olivine"], dtype=float) / lib["scale"]
            en = np.array(lib["enstatite"], dtype=float) / lib["scale"]
            if k % 2 == 0:  # attributes of an instance modified after construction
                obj = minerals.StiffnessTensors()
                obj.olivine, obj.enstatite = ol, en
            else:  # a subclass

                class Custom(minerals.StiffnessTensors):
                    pass

                obj = Custom(olivine=ol, enstatite=en)
            is_default = lib["name"] == "builtin" and np.allclose(default.olivine, ol, rtol=0, atol=1e-9) and np.allclose(default.enstatite, en, rtol=0, atol=1e-9)
            self.libs.append(dict(obj=obj, ol=ol, en=en, scale=lib["scale"], is_default=is_default, name=lib["name"]))

    def mineral(self, phase, n, oris, vols):
        m = self.pd.Mineral(
            phase=self.PH[phase],
            fabric=self.FAB[phase],
            regime=self.regime,
            n_grains=n,
            fractions_init=np.array(vols[0], dtype=float),
            orientations_init=np.array(oris[0], dtype=float),
        )
        from harness.common import represent

        self.nmin = getattr(self, "nmin", 0) + 1
        for s in range(1, max(len(oris), len(vols))):  # extra snapshots appended to the histories
            # (in one of several in-memory representations of the same values: histories are built by solvers,
            #  loaders and users alike)
            kind = ("c", "fortran", "strided", "readonly")[(self.nmin + s) % 4]
            if s < len(oris):
                m.orientations.append(represent(oris[s], kind))
            if s < len(vols):
                m.fractions.append(represent(vols[s], "strided" if kind == "fortran" else kind))
        return m

    def average(self, minerals, asm, phi, tensors=None):
        args = [minerals, [self.PH[a] for a in asm], [float(x) for x in phi]]
        if tensors is not None:
            args.append(tensors)
        return self.pd.voigt_averages(*args)

    # --- generic evaluation of what the spec emitted (no formula knowledge here)
    def functional(self, name, M):
        env = {f"c{i + 1}{j + 1}": float(M[i][j]) for i in range(6) for j in range(i, 6)}
        return evalterm.ev(self.t[name], env)

    def law(self, name, phi_by_phase, C_by_phase):
        env = {}
        for ph in self.t["phases"]:
            env["phi_" + ph] = float(phi_by_phase.get(ph, 0.0))
            env[name + "_" + ph] = self.functional(name, C_by_phase[ph])
        return evalterm.ev(self.t["law" + name], env)

    def rotate6(self, M, Q):
        """Rotate a 6x6 with the tensor law, index maps taken from the spec (VoigtIdx / VoigtPair)."""
        T = M[self.vidx[:, :, None, None], self.vidx[None, None, :, :]]
        T = np.einsum("ia,jb,kc,ld,abcd->ijkl", Q, Q, Q, Q, T)
        p = self.vpair
        return T[p[:, 0][:, None], p[:, 1][:, None], p[:, 0][None, :], p[:, 1][None, :]]


def close(got, exp):
    """(ok, relative deviation) under the DESIGN 6 rounding tolerance."""
    got = np.asarray(got, dtype=float)
    if got.shape != exp.shape:
        return False, float("inf")
    scale = max(1.0, float(np.abs(exp).max()))
    if not np.all(np.isfinite(got)):
        return False, float("inf")
    dev = float(np.abs(got - exp).max())
    return dev <= REL_TOL * scale + ABS_TOL, dev / scale


def case_key(c):
    return json.dumps([c["tag"], c["asm"], c["order"], c["phi"], c["lib"], c["ns"], [(m["ori"], m["vol"]) for m in c["mins"]]])


def replay_case(b, c, chk, idx=0, stats=None):
    """Build the case's minerals, call voigt_averages, compare with the exact expected value."""
    lib = b.libs[c["lib"] - 1]
    minerals = [
        b.mineral(m["phase"], m["n"], [[b.rots[r - 1] for r in snap] for snap in m["ori"]], [[qf(x) for x in snap] for snap in m["vol"]])
        for m in c["mins"]
    ]
    phi = [qf(x) for x in c["phi"]]
    # the built-in library also exercises the default argument (when the defaults are the spec's numbers)
    tensors = None if (lib["is_default"] and idx % 2 == 0) else lib["obj"]
    exp = np.array([[[qf(x) for x in row] for row in snap] for snap in c["avg"]]) / lib["scale"]
    name = asm_name(c["asm"])
    outcome, sig, what, got = "pass", None, None, None
    try:
        got = b.average(minerals, c["asm"], phi, tensors)
    except Exception as ex:  # noqa: BLE001
        outcome = "raised"
        sig = dict(clause="valid-input-raised", assemblage=name, exc=type(ex).__name__)
        what = f"voigt_averages raised {type(ex).__name__}: {ex} on a well-formed aggregate (assemblage {name})"
    if got is not None:
        ok, rel = close(got, exp)
        if ok:
            chk.maximum("exact_replay_rel_dev_of_passing_cases", rel)
        else:
            clause = "weighted-sum-value"
            if c["dev"]:
                dev = np.array([[[qf(x) for x in row] for row in snap] for snap in c["dev"]]) / lib["scale"]
                if close(got, dev)[0]:
                    clause = "tensor-by-phase-identity"
            outcome = clause
            sig = dict(clause=clause, assemblage=name)
            what = (
                f"assemblage ({name}), minerals listed {asm_name(c['order'])}: voigt_averages differs from the volume-weighted sum of "
                f"rotated single-crystal tensors by {rel:.3g} relative"
                + ("; it equals the spec's named deviation (tensor picked by position in the assemblage from the ordinal-ordered list)" if clause == "tensor-by-phase-identity" else "")
            )
    if stats is not None:
        d = stats.setdefault(name, {})
        d[outcome] = d.get(outcome, 0) + 1
    if sig:
        used = sorted({r for m in c["mins"] for snap in m["ori"] for r in snap})
        chk.violation(
            sig,
            what,
            dict(
                kind="case",
                case=c,
                rots={str(r): b.t["rots"][r - 1] for r in used},
                lib=b.t["libs"][c["lib"] - 1],
                default_argument=tensors is None,
                got=None if got is None else np.asarray(got).tolist(),
            ),
        )
    return outcome


def replay_reject(b, e, chk):
    mins = []
    for sh in e["shapes"]:
        n = sh["n"]
        oris = [np.tile(np.eye(3), (n, 1, 1)) for _ in range(sh["nOri"])]
        vols = [np.full(n, 1.0 / n) for _ in range(sh["nFrac"])]
        mins.append(b.mineral(sh["phase"], n, oris, vols))
    phi = {"one": [1.0], "interior": [0.25, 0.75], "first-only": [1.0, 0.0], "second-only": [0.0, 1.0], "almost-first-only": [1.0 - 1e-12, 1e-12]}[e.get("phi", "one" if len(e["asm"]) == 1 else "interior")]
    try:
        b.average(mins, e["asm"], phi)
        out = "ok"
    except ValueError:
        out = "ValueError"
    except Exception as ex:  # noqa: BLE001
        # a deliberate library error class also counts as "rejected" (the statement says rejected,
        # the docstring ValueError); an accidental IndexError/TypeError from deep inside does not
        out = "ValueError" if isinstance(ex, b.pd.exceptions.Error) else "other:" + type(ex).__name__
    if out == e["outcome"]:
        return out
    shape = [(s["phase"], s["n"], s["nOri"], s["nFrac"]) for s in e["shapes"]]
    if e["outcome"] == "ValueError" and out == "ok":
        sig = dict(clause="mismatch-accepted", table_clause=e["clause"], phi=e.get("phi", "-"))
    elif e["outcome"] == "ValueError":
        sig = dict(clause="mismatch-rejected-with-other-exception", table_clause=e["clause"], exc=out)
    else:
        sig = dict(clause="well-formed-rejected", exc=out)
    chk.violation(sig, f"rejection table: phase fractions {phi} of {e['asm']}, minerals (phase, grains, orientation snapshots, volume snapshots) = {shape}: spec says {e['outcome']}, code -> {out}", dict(kind="reject", entry=e))
    return out


# ------------------------------------------------------------------ history: one object, mutated between calls
class History:
    def __init__(self, b, htables):
        self.b = b
        self.cases = htables["cases"]
        self.minerals = {}
        self.default_ok = any(lib["is_default"] for lib in b.libs)

    def mins(self, k):
        if k not in self.minerals:
            c = self.cases[k - 1]
            self.minerals[k] = [
                self.b.mineral(m["phase"], m["n"], [[self.b.rots[r - 1] for r in snap] for snap in m["ori"]], [[qf(x) for x in snap] for snap in m["vol"]])
                for m in c["mins"]
            ]
        return self.minerals[k]

    def lib_array(self, l, phase):
        lib = self.b.libs[l - 1]
        return np.array(lib["ol"] if phase == "olivine" else lib["en"], dtype=float)

    def replay(self, h, chk, stats=None):
        """Replay one behaviour on one shared object; returns the number of failing calls."""
        b = self.b
        S = b.M.StiffnessTensors()  # holds the built-ins, like the spec's initial state
        if not self.default_ok:
            S.olivine, S.enstatite = self.lib_array(1, "olivine"), self.lib_array(1, "enstatite")
        bad = 0
        for n, st in enumerate(h["log"]):
            if st["a"] == "set":
                # the client changes the stiffness of a phase either by binding a new matrix to the attribute or by
                # editing the matrix the object already holds IN PLACE (alternating)
                new = self.lib_array(st["lib"], st["phase"])
                cur = getattr(S, st["phase"])
                if (n + len(h["log"])) % 2 == 0 and isinstance(cur, np.ndarray) and cur.shape == new.shape and cur.dtype.kind == "f" and cur.flags.writeable:
                    cur[...] = new
                else:
                    setattr(S, st["phase"], new)
                continue
            c = self.cases[st["k"] - 1]
            inst = st["inst"]
            if inst == "default" and not self.default_ok:
                chk.skip("history step on the default argument: built-in stiffnesses differ from the spec's table")
                continue
            if inst == "shared":
                tens = S
            elif inst == "default":
                tens = None
            else:
                tens = b.M.StiffnessTensors()
                tens.olivine, tens.enstatite = self.lib_array(st["lib"], "olivine"), self.lib_array(st["lib"], "enstatite")
            phi = [qf(x) for x in c["phi"]]
            exp = np.array([[[qf(x) for x in row] for row in snap] for snap in st["avg"]])
            try:
                got = b.average(self.mins(st["k"]), c["asm"], phi, tens)
                ok, rel = close(got, exp)
                exc = None
            except Exception as ex:  # noqa: BLE001
                got, ok, rel, exc = None, False, float("inf"), type(ex).__name__
            key = inst
            if stats is not None:
                d = stats.setdefault(key, dict(calls=0, failed=0))
                d["calls"] += 1
            if ok:
                chk.maximum("history_rel_dev_of_passing_calls", rel)
                continue
            bad += 1
            if stats is not None:
                stats[key]["failed"] += 1
            # name the clause: does an object that was never used before, holding the same arrays, give the value?
            clause = "weighted-sum-value"
            if exc is None and inst in ("shared", "default"):
                ref = b.M.StiffnessTensors()
                if inst == "shared":
                    ref.olivine, ref.enstatite = np.array(S.olivine, dtype=float), np.array(S.enstatite, dtype=float)
                try:
                    if close(b.average(self.mins(st["k"]), c["asm"], phi, ref), exp)[0]:
                        clause = "tensors-at-call-time"
                except Exception:  # noqa: BLE001
                    pass
            before = [(x["a"], x["inst"], x["phase"], x["lib"], x["k"]) for x in h["log"][:n]]
            chk.violation(
                dict(clause=clause, instance=inst) if exc is None else dict(clause="valid-input-raised", instance=inst, exc=exc),
                f"history: call {n + 1} of a sequence on one StiffnessTensors object (instance '{inst}', case {st['k']}, assemblage {asm_name(c['asm'])}) "
                + (f"raised {exc}" if exc else f"differs by {rel:.3g} relative from the average under the tensors held at call time")
                + ("; a never-used object holding the same arrays gives the expected value, so the result depends on the object's history" if clause == "tensors-at-call-time" else "")
                + f"; earlier steps (action, instance, phase, library, case): {before}",
                dict(kind="history", behaviour=h, htables=dict(cases=self.cases), step=n + 1, got=None if got is None else np.asarray(got).tolist()),
            )
        return bad


# ------------------------------------------------------------------ seeded float scenarios
CONFIGS = [
    (["olivine"], ["olivine"]),
    (["enstatite"], ["enstatite"]),
    (["olivine", "enstatite"], ["olivine", "enstatite"]),
    (["olivine", "enstatite"], ["enstatite", "olivine"]),
    (["enstatite", "olivine"], ["olivine", "enstatite"]),
    (["enstatite", "olivine"], ["enstatite", "olivine"]),
]


def measure_scenario(b, sid, seed, n_grains=50):
    """One seeded scenario -> event with integer measures in 1e-12 relative units."""
    from scipy.spatial.transform import Rotation

    rng = np.random.default_rng([int(seed), 1010, int(sid)])
    asm, order = CONFIGS[sid % 6]
    r = sid // 6
    ns = 1 + r % 2
    custom = (r // 2) % 2 == 1
    k = (r // 4) % len(asm)  # the phase the aligned-grain aggregate is made of
    norm = sid % 5 != 4
    if custom:
        C = {}
        for ph in ("olivine", "enstatite"):
            B = rng.normal(size=(6, 6))
            C[ph] = 20.0 * (B + B.T) + np.diag(rng.uniform(50, 300, 6))
        tens = b.M.StiffnessTensors(olivine=C["olivine"], enstatite=C["enstatite"])
    else:
        tens = None
        d = b.M.StiffnessTensors()
        C = {"olivine": np.array(d.olivine, dtype=float), "enstatite": np.array(d.enstatite, dtype=float)}
    if len(asm) == 2:
        u = float(rng.uniform(0.05, 0.95))
        phi = [u, 1.0 - u]
    else:
        phi = [1.0]
    tex = {}
    for ph in asm:
        oris = [Rotation.from_quat(rng.normal(size=(n_grains, 4))).as_matrix() for _ in range(ns)]
        vols = []
        for _ in range(ns):
            v = rng.dirichlet(np.full(n_grains, 0.7))
            vols.append(v if norm else v * float(rng.uniform(0.3, 0.9)))
        tex[ph] = (oris, vols)
    Q = Rotation.from_quat(rng.normal(size=4)).as_matrix()

    def build(order_, frame=None):
        out = []
        for ph in order_:
            oris, vols = tex[ph]
            if frame is not None:
                oris = [o @ frame.T for o in oris]
            out.append(b.mineral(ph, n_grains, oris, vols))
        return out

    avg = np.asarray(b.average(build(order), asm, phi, tens), dtype=float)
    scale = max(1.0, float(np.abs(avg).max()))
    m = {}
    m["symmetry"] = float(np.abs(avg - np.swapaxes(avg, 1, 2)).max()) / scale
    phi_by = dict(zip(asm, phi))
    if norm:  # the moduli law is stated for grain volumes summing to one
        for key, name in (("moduliK", "KV"), ("moduliG", "GV")):
            want = b.law(name, phi_by, C)
            m[key] = max(abs(b.functional(name, avg[s]) - want) for s in range(avg.shape[0])) / max(1.0, abs(want))
    avg_q = np.asarray(b.average(build(order, Q), asm, phi, tens), dtype=float)
    m["corotation"] = max(float(np.abs(avg_q[s] - b.rotate6(avg[s], Q)).max()) for s in range(avg.shape[0])) / scale
    # one aligned grain per listed phase, the whole aggregate made of phase k
    one = [b.mineral(ph, 1, [np.eye(3)[None]], [np.array([1.0])]) for ph in order]
    unit = [1.0 if i == k else 0.0 for i in range(len(asm))]
    al = np.asarray(b.average(one, asm, unit, tens), dtype=float)
    m["aligned"] = float(np.abs(al[0] - C[asm[k]]).max()) / max(1.0, float(np.abs(C[asm[k]]).max()))
    if len(asm) == 2:
        sw = np.asarray(b.average(build(order), asm[::-1], phi[::-1], tens), dtype=float)
        m["phaseOrder"] = float(np.abs(sw - avg).max()) / scale
        mo = np.asarray(b.average(build(order[::-1]), asm, phi, tens), dtype=float)
        m["mineralOrder"] = float(np.abs(mo - avg).max()) / scale
    ev = dict(sid=sid, asm=asm_name(asm), order=asm_name(order), two=len(asm) == 2, norm=bool(norm), ns=ns, custom=bool(custom), m={k_: cap(v * 1e12) for k_, v in m.items()})
    return ev, m


_SWEEP = {}


def _sweep_worker(sizes):
    b, bases = _SWEEP["b"], _SWEEP["bases"]
    out = []
    for n in sizes:
        c = bases[n % len(bases)]
        lib = b.libs[c["lib"] - 1]
        exp = np.array([[[qf(x) for x in row] for row in snap] for snap in c["avg"]]) / lib["scale"]
        try:
            minerals = []
            for m in c["mins"]:
                k = m["n"]
                nn = max(n, k)
                idx = np.arange(nn) % k
                copies = np.bincount(idx, minlength=k)
                oris = [np.array([b.rots[r - 1] for r in snap])[idx] for snap in m["ori"]]
                vols = [np.array([qf(x) for x in snap])[idx] / copies[idx] for snap in m["vol"]]
                minerals.append(b.mineral(m["phase"], nn, oris, vols))
            got = b.average(minerals, c["asm"], [qf(x) for x in c["phi"]], lib["obj"])
            ok, rel = close(got, exp)
            out.append((n, ok, rel, None))
        except Exception as ex:  # noqa: BLE001
            out.append((n, False, float("inf"), type(ex).__name__))
    return out


def size_sweep(b, cases, chk, nmax, procs=14):
    """Every grain count 1..nmax: the aggregate in which grain i is a copy of grain i mod k of an exact case, the
    volumes shared out among the copies, must have the case's average (Voigt.tla Lumping)."""
    import multiprocessing as mp

    bases = {}
    for c in cases:
        if c["tag"] == "aligned" or c["mins"][0]["n"] < 2:
            continue
        bases.setdefault((asm_name(c["asm"]), asm_name(c["order"]), c["lib"]), c)
    bases = [bases[k] for k in sorted(bases)]
    if len(bases) < 6:
        raise MachineryError(f"size sweep: only {len(bases)} base cases")
    _SWEEP.update(b=b, bases=bases)
    sizes = list(range(1, nmax + 1))
    chunks = [sizes[j::procs * 8] for j in range(procs * 8)]
    with mp.get_context("fork").Pool(procs) as pool:
        res = [r for part in pool.map(_sweep_worker, [ch for ch in chunks if ch]) for r in part]
    bad = sorted(r for r in res if not r[1])
    for n, ok, rel, exc in res:
        chk.count(("sweep", n))
        if ok:
            chk.maximum("size_sweep_rel_dev", rel)
    chk.cov["size_sweep"] = dict(sizes=f"every grain count 1..{nmax}", base_cases=len(bases), calls=len(res))
    if bad:
        n, _, rel, exc = bad[0]
        c = bases[n % len(bases)]
        chk.violation(dict(clause="size-sweep-" + ("raised" if exc else "weighted-sum-value")),
                      f"voigt_averages on copies of an exact case's grains (volumes shared out) differs from the case's average at {len(bad)} grain count(s), first {[r[0] for r in bad[:8]]}"
                      + (f" (raised {exc})" if exc else f" (relative deviation {rel:.3g})"),
                      dict(kind="size-sweep", sizes=[r[0] for r in bad[:200]], base=c, how="grain i is a copy of case grain i mod k; volume = case volume / number of copies"))


def measure_signature(ev, clause_key):
    name = "ol,en~en,ol" if clause_key == "phaseOrder" else ev["asm"]
    return dict(clause=MEASURE_CLAUSE[clause_key], assemblage=name, level="float-measure")


# ------------------------------------------------------------------ main


def main(tier):
    chk = Check("C10", tier)
    quick = tier != "thorough"
    # ---- 1. TLC: lemmas + enumeration
    res = run_tlc("Voigt", "Voigt" if quick else "Voigt_thorough", workers=8 if quick else 16, timeout=300 if quick else 1500)
    chk.add_tlc(
        "Voigt" if quick else "Voigt_thorough",
        res,
        "lemmas (symmetry, basis invariance of K_V/G_V, moduli of the average, co-rotation, aligned grain, memo=direct, "
        "deviation locus, rejection table) as invariants; enumeration of exact cases and of the rejection table",
    )
    tabs = parse_printed_json(res.output, "TABLES")
    if len(tabs) != 1:
        raise MachineryError(f"expected one TABLES record, got {len(tabs)}")
    tables = tabs[0]
    cases = parse_printed_json(res.output, "CASE")
    rejs = parse_printed_json(res.output, "REJ")
    cnt = tables["counts"]
    if len(cases) != cnt["cases"] or len(rejs) != cnt["rejects"]:
        raise MachineryError(f"emitted {len(cases)} cases / {len(rejs)} rejection entries, spec counts {cnt}")
    if res.distinct != 2 * (cnt["cases"] + cnt["rejects"] + cnt["basis"] + cnt["corot"] + 1):
        raise MachineryError(f"state count {res.distinct} does not match the spec's instance counts {cnt}")
    if len({case_key(c) for c in cases}) != len(cases):
        raise MachineryError("duplicate cases emitted")
    chk.cov["lemma_instances"] = dict(basis_x_rotations=cnt["basis"], co_rotation=cnt["corot"], exact_cases=cnt["cases"], rejection_entries=cnt["rejects"])
    # ---- 2. TLC negative control: a functional that is not rotation invariant must be refuted
    neg = run_tlc("Voigt", "VoigtNeg", workers=4, timeout=300, expect_violation=True)
    chk.add_tlc("VoigtNeg", neg, "negative control: (C11+C22+C33+C12+C13+C23)/9 is not invariant under TRotate")
    chk.control("wrong-functional-refuted-by-TLC", neg.violated == "NegFunctionalInvariant", str(neg.violated))

    pd = quiet_pydrex()
    b = Binding(pd, tables)
    if not any(lib["is_default"] for lib in b.libs):
        chk.skip("built-in stiffnesses differ from the spec's table: default-argument path not exercised")

    # ---- 3. replay every exact case
    stats = {}
    first_pass = None
    for i, c in enumerate(cases):
        out = replay_case(b, c, chk, i, stats)
        chk.count(case_key(c))
        if out == "pass" and first_pass is None and c["tag"] == "grid" and len(c["mins"]) == 2:
            first_pass = (i, c)
    for c in (
        next(x for x in cases if x["tag"] == "aligned"),
        next(x for x in cases if x["tag"] == "grid" and len(x["asm"]) == 2 and x["n"] == 3 and x["ns"] == 2 and x["lib"] > 1),
    ):
        chk.sample(dict(kind="exact-case", tag=c["tag"], asm=c["asm"], order=c["order"], phi=c["phi"], lib=tables["libs"][c["lib"] - 1]["name"], mins=c["mins"], expected_first_row=c["avg"][0][0]))
    chk.cov["exact_replay_by_assemblage"] = stats
    for name in sorted(stats):
        print(f"C10 exact replay, assemblage ({name}): " + ", ".join(f"{k}={v}" for k, v in sorted(stats[name].items())))
    # negative control: a wrong expected value must be flagged
    probe = Check("C10", tier, dry=True)
    if first_pass is not None:
        i, c = first_pass
        bad = json.loads(json.dumps(c))
        n0, d0 = bad["avg"][0][0][0]
        bad["avg"][0][0][0] = [n0 * 1001, d0 * 1000] if n0 else [1, 1]  # +0.1 % on C11 of the first snapshot
        replay_case(b, bad, probe, i)
        chk.control("perturbed-expected-value-flagged", len(probe.violations) == 1, "C11 of snapshot 1 moved by 1e-3 relative")
    else:
        exp = np.array([[[qf(x) for x in row] for row in snap] for snap in cases[0]["avg"]])
        pert = exp.copy()
        pert[0, 0, 1] += 1e-6 * max(1.0, np.abs(exp).max())
        chk.control("perturbed-expected-value-flagged", close(exp, exp)[0] and not close(pert, exp)[0], "comparator only: no case passes on this tree")

    # ---- 4. rejection table
    rstats, agreed = {}, []
    for e in rejs:
        out = replay_reject(b, e, chk)
        chk.count(("rej", json.dumps(e["shapes"]), tuple(e["asm"])))
        k = e["outcome"] + "->" + out
        rstats[k] = rstats.get(k, 0) + 1
        if out == e["outcome"]:
            agreed.append(e)
    chk.cov["rejection_table_outcomes"] = rstats
    print("C10 rejection table (spec->code): " + ", ".join(f"{k}: {v}" for k, v in sorted(rstats.items())))
    chk.sample(dict(kind="rejection-entry", entry=next(e for e in rejs if e["clause"] == "orientations-volumes-mismatch")))
    # negative control: an entry the code agrees with, its outcome flipped, must be flagged
    if agreed:
        probe = Check("C10", tier, dry=True)
        e0 = next((e for e in agreed if e["outcome"] == "ValueError"), agreed[0])
        flip = dict(e0, outcome="ok" if e0["outcome"] == "ValueError" else "ValueError", clause="flipped")
        replay_reject(b, flip, probe)
        chk.control("flipped-rejection-outcome-flagged", len(probe.violations) == 1, f"flipped {e0['outcome']} entry")
    else:
        chk.skip("rejection-table negative control: the code agrees with no table entry")

    # ---- 5. history machine: the tensors are read from the passed object at call time
    hres = run_tlc("Voigt", "VoigtHistory" if quick else "VoigtHistory_thorough", workers=8 if quick else 16, timeout=300 if quick else 900)
    chk.add_tlc(
        "VoigtHistory" if quick else "VoigtHistory_thorough",
        hres,
        "all sequences of SetTensor(phase, library) / Average(shared | default | fresh instance, case) up to the depth + 3 long scripts; "
        "lemmas: state = last logged assignment, expected value from the library current at the call, aligned grain returns the current tensor, default never changes",
    )
    ht = parse_printed_json(hres.output, "HTABLES")
    behs = parse_printed_json(hres.output, "HIST")
    if len(ht) != 1:
        raise MachineryError(f"expected one HTABLES record, got {len(ht)}")
    n_full = 12 ** (ht[0]["depth"] - 1) * 6  # 12 actions per step, 6 of them calls
    if len(behs) != n_full + ht[0]["scripts"]:
        raise MachineryError(f"history spec emitted {len(behs)} behaviours, expected {n_full} + {ht[0]['scripts']}")
    hist = History(b, ht[0])
    hstats, clean = {}, []
    for h in behs:
        nbad = hist.replay(h, chk, hstats)
        chk.count(("hist", json.dumps([(x["a"], x["inst"], x["phase"], x["lib"], x["k"]) for x in h["log"]])))
        if nbad == 0:
            clean.append(h)
    chk.cov["history_calls_by_instance"] = hstats
    chk.cov["traces_validated_against_impl"] += len(behs)
    print("C10 history replay (one mutated object): " + "; ".join(f"{k}: {v['calls'] - v['failed']}/{v['calls']} calls ok" for k, v in sorted(hstats.items())))
    s1 = next(h for h in behs if h["script"] == 1)
    chk.sample(dict(kind="history-behaviour", steps=[(x["a"], x["inst"], x["phase"], x["lib"], x["k"]) for x in s1["log"]], expected_C11=[x["avg"][0][0][0] for x in s1["log"] if x["a"] == "avg"]))
    # negative control: a "stale" expected value (the one from before the assignment) must be flagged
    cand = next((h for h in clean if h["script"] == 1), None) or next(
        (h for h in clean if [x["a"] for x in h["log"][:3]] == ["avg", "set", "avg"] and h["log"][0]["k"] == h["log"][2]["k"] and h["log"][0]["inst"] == h["log"][2]["inst"] == "shared" and h["log"][0]["avg"] != h["log"][2]["avg"]),
        None,
    )
    if cand is not None:
        stale = json.loads(json.dumps(cand))
        stale["log"][2]["avg"] = stale["log"][0]["avg"]
        probe = Check("C10", tier, dry=True)
        hist.replay(stale, probe)
        chk.control("stale-expected-value-flagged-by-history-replayer", len(probe.violations) >= 1, "expected value of call 3 replaced by the one from before the assignment")
    else:
        chk.skip("history negative control: no behaviour replays cleanly on this tree")

    # ---- 5b. every grain count
    size_sweep(b, cases, chk, 6000 if quick else 20000)

    # ---- 6. seeded float scenarios, judged by the spec
    nsc = 60 if quick else 600
    events, floats = [], {}
    for sid in range(nsc):
        ev, m = measure_scenario(b, sid, SEED)
        events.append(ev)
        floats[sid] = m
        chk.count(("measure", sid))
    chk.sample(dict(kind="measure-event", event=events[3]))
    controls = [
        dict(events[2], sid=CONTROL_SID, m=dict(events[2]["m"], symmetry=5 * tables["tol"])),
        dict(events[2], sid=CONTROL_SID + 1, m={k: v for k, v in events[2]["m"].items() if k != "corotation"}),
    ]
    with scratch() as d:
        path = d / "c10_measures.ndjson"
        write_ndjson(path, events + controls)
        tr = run_tlc("Voigt", "VoigtMeasures", workers=1, timeout=300, env={"TRACE_FILE": str(path)})
    chk.add_tlc("VoigtMeasures", tr, f"{len(events)} float scenarios of 50 grains (+2 corrupted control events): every required measure <= {tables['tol']}e-12")
    if tr.distinct != 2 * (len(events) + len(controls)):
        raise MachineryError(f"measure spec saw {tr.distinct} states for {len(events) + len(controls)} events")
    chk.cov["traces_validated_against_impl"] += len(events)
    rej_lines = parse_printed_tuples(tr.output, "REJECT")
    seen = {(int(r[0]), r[1], r[2]) for r in rej_lines}
    chk.control("corrupted-measure-rejected", (CONTROL_SID, "symmetry", "exceeds") in seen, str(sorted(seen)[:4]))
    chk.control("missing-measure-rejected", (CONTROL_SID + 1, "corotation", "missing") in seen)
    mstats = {}
    for ev in events:
        for k, v in floats[ev["sid"]].items():
            bad = (ev["sid"], k, "exceeds") in seen
            if (ev["sid"], k, "missing") in seen:
                raise MachineryError(f"harness did not log measure {k} for scenario {ev['sid']}")
            name = measure_signature(ev, k)["assemblage"]
            st = mstats.setdefault(MEASURE_CLAUSE[k], {}).setdefault(name, dict(accepted=0, rejected=0))
            st["rejected" if bad else "accepted"] += 1
            if bad:
                chk.violation(
                    measure_signature(ev, k),
                    f"float scenario {ev['sid']} (assemblage {ev['asm']}, minerals {ev['order']}, {'custom' if ev['custom'] else 'built-in'} tensors): "
                    f"measure {k} = {v:.3g} relative exceeds 1e-9",
                    dict(kind="measure", sid=ev["sid"], seed=SEED, event=ev, measures=floats[ev["sid"]]),
                )
            else:
                chk.maximum("float_" + k + "_of_accepted", v)
    chk.cov["float_measures_by_clause_and_assemblage"] = mstats
    for cl in sorted(mstats):
        print(f"C10 float measure {cl}: " + "; ".join(f"({a}) {s['accepted']} ok / {s['rejected']} rejected" for a, s in sorted(mstats[cl].items())))

    # ---- Layer B: voigt_averages inside the library's workflow (spec/PyDRexFlow.tla): after any history of
    # single / bulk updates (some refused part-way, leaving unequal snapshot counts), bad-argument calls and
    # constructions, the average is accepted exactly when the machine says so, returns one symmetric finite
    # 6x6 per stored snapshot and leaves every mineral untouched (judged by replay and by MineralTrace.tla).
    from harness import layerb

    flow_mc = run_tlc("PyDRexFlow", "PyDRexFlow", workers=8, timeout=900)
    chk.add_tlc("PyDRexFlow", flow_mc, "workflow machine: UnequalNeverAveraged, AppendOnly, FailureAtomic over all reachable states")
    nflow = 40 if quick else 1200
    fbehs, fsim = layerb.generate_behaviours("PyDRexFlow", "PyDRexFlowSim", nflow, 12, SEED + 10)
    chk.add_tlc("PyDRexFlow(simulate)", fsim, f"{nflow} random workflow behaviours")
    fevents, fcomp = layerb.run_behaviours(chk, "C10", fbehs, fcheck=False)
    nv = sum(1 for e in fevents if e["ev"] == "Voigt")
    chk.cov["workflow_voigt_calls"] = dict(total=nv, rejected=sum(1 for e in fevents if e["ev"] == "Voigt" and e["exc"] != "None"))
    if nv == 0:
        raise MachineryError("no voigt_averages call in the simulated workflows")

    return chk.finish(
        rule="exact cases: every (assemblage, mineral-list order, phase fractions, tensor library, grain count, snapshot count, texture number, "
        "volume vector) of the grid enumerated by Voigt.tla plus the aligned-grain cases, distinct by content; rejection table: every shape "
        "combination of one or two minerals; float scenarios: one per (sid, VERIF_SEED), 6 assemblage/order classes x built-in/custom tensors x "
        "1-2 snapshots x normalised or not; history: every action sequence of the Voigt.tla history machine up to its depth that ends in a call, plus the scripts, distinct by step sequence",
        exhaustive=False,
        trusted=["numpy einsum / scipy Rotation for the float scenarios", "harness/evalterm.py evaluating the functionals emitted by Voigt.tla"],
    )


def replay(obj):
    """./check C10 --replay <file>: re-run the recorded case against the current tree."""
    r = obj.get("replay") or {}
    pd = quiet_pydrex()
    probe = Check("C10", "quick", dry=True)
    out = run_tlc("Voigt", "Voigt", workers=8, timeout=300)  # the tables come from the spec
    b = Binding(pd, parse_printed_json(out.output, "TABLES")[0])
    if r.get("kind") == "measure":
        ev, m = measure_scenario(b, r["sid"], r["seed"])
        print(json.dumps(dict(event=ev, measures=m), indent=1))
        return 1 if any(v > REL_TOL for v in m.values()) else 0
    if r.get("kind") == "history":
        print("failing calls:", History(b, r["htables"]).replay(r["behaviour"], probe))
    elif r.get("kind") == "case":
        print("outcome:", replay_case(b, r["case"], probe, 0 if r.get("default_argument") else 1))
    elif r.get("kind") == "reject":
        print("outcome:", replay_reject(b, r["entry"], probe))
    for _, what, _ in probe.violations:
        print("still violated:", what)
    return 1 if probe.violations else 0
