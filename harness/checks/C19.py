"""C19 - parameter records and configuration files mean what they declare.

Spec:  Params.tla  (Resolve(preset, field) = declared-if-declared-else-parent; frozen / hashable /
                    dictionary round trip of the root record; lemmas checked by TLC)
       Config.tla  (decision model of parse_config: input modes, optional-key lattice, documented
                    defaults, post-conditions of the parsed parameters, single faults)
Bind:  spec -> code.  The *declarations* of DefaultParams and of every class in pydrex.mock are read
       from the source with `ast` (plain and annotated assignments) and handed to TLC as a JSON
       constant (C19_DECL_FILE, scratch directory).  TLC emits the expected value of every
       (class, field) - presets published as instances, `X = DefaultParams(f=v)`, are read the same
       way - and the expected outcome class / parsed value classes of every configuration;
       this module instantiates the classes / writes the TOML file and its stub inputs, runs the real
       code, projects the result to the abstract facts the spec talks about and compares.  No
       expectation is computed here: which keys exist, what is written for them, what they default
       to, which configurations must be rejected and which demands are 'stated' (violation) or only
       'implied' by the documentation (observation) is all in the .tla text.
"""
from __future__ import annotations

import ast
import dataclasses
import json
import math
import os
import pathlib
import time

_START_DIR = os.getcwd()      # the working directory of the client; the harness never changes it

from harness.common import REPO, SEED, Check, MachineryError, parse_printed_json, quiet_pydrex, run_tlc, scratch, write_ndjson  # noqa: F401

if True:  # tomllib as used by the code under test
    import sys

    if sys.version_info >= (3, 11):
        import tomllib
    else:  # pragma: no cover
        import tomli as tomllib

WORKERS = int(os.environ.get("C19_TLC_WORKERS", "8"))
PROCS = int(os.environ.get("C19_REPLAY_PROCS", "8"))
MISSING = type("Missing", (), {"__repr__": lambda self: "<missing>"})()

# =============================================================================== declarations


def _class_body_declarations(cls_node):
    """name -> (source text of the declared value, 'plain' | 'annotated') for one class body."""
    out = {}
    for st in cls_node.body:
        if isinstance(st, ast.AnnAssign) and isinstance(st.target, ast.Name) and st.value is not None:
            out[st.target.id] = (ast.unparse(st.value), "annotated")
        elif isinstance(st, ast.Assign) and len(st.targets) == 1 and isinstance(st.targets[0], ast.Name):
            out[st.targets[0].id] = (ast.unparse(st.value), "plain")
    return out


def _base_names(cls_node):
    names = []
    for b in cls_node.bases:
        if isinstance(b, ast.Name):
            names.append(b.id)
        elif isinstance(b, ast.Attribute):
            names.append(b.attr)
    return names


def extract_declarations(core_py, mock_py, root="DefaultParams"):
    """What the source *declares*: the root record's annotated fields (in order) and, for every
    class of the mock module deriving from it, the plain and annotated assignments of its body."""
    core_tree = ast.parse(pathlib.Path(core_py).read_text())
    root_node = next((n for n in core_tree.body if isinstance(n, ast.ClassDef) and n.name == root), None)
    if root_node is None:
        raise MachineryError(f"class {root} not found in {core_py}")
    root_decl = {k: v for k, v in _class_body_declarations(root_node).items() if v[1] == "annotated"}
    if not root_decl:
        raise MachineryError(f"{root} declares no annotated fields")
    order = list(root_decl)
    classes, parent, declared, style, ignored = [root], {root: ""}, {root: {k: v[0] for k, v in root_decl.items()}}, {}, {}
    mock_tree = ast.parse(pathlib.Path(mock_py).read_text())
    for node in mock_tree.body:
        if isinstance(node, ast.Assign) and len(node.targets) == 1 and isinstance(node.targets[0], ast.Name) and isinstance(node.value, ast.Call):
            # a preset published as an instance:  Name = SomeParamsClass(field=value, ...)
            f = node.value.func
            fname = f.id if isinstance(f, ast.Name) else f.attr if isinstance(f, ast.Attribute) else None
            if fname in classes and not node.value.args and all(kw.arg for kw in node.value.keywords):
                name = node.targets[0].id
                classes.append(name)
                parent[name] = fname
                declared[name] = {kw.arg: ast.unparse(kw.value) for kw in node.value.keywords if kw.arg in root_decl}
                style[name] = ["instance"]
            continue
        if not isinstance(node, ast.ClassDef):
            continue
        bases = [b for b in _base_names(node) if b in classes]
        if not bases:
            continue
        decl = _class_body_declarations(node)
        classes.append(node.name)
        parent[node.name] = bases[0]
        declared[node.name] = {k: v[0] for k, v in decl.items() if k in root_decl}
        style[node.name] = sorted({v[1] for k, v in decl.items() if k in root_decl})
        ignored[node.name] = sorted(k for k in decl if k not in root_decl)
    return dict(root=root, order=order, classes=classes, parent=parent, declared=declared), style, ignored


def default_shape(decl):
    """Abstract projection of the declared default phase lists for the decision model of Config.tla:
    phase names and exact rational fractions."""
    import fractions

    import pydrex.core as core

    ns = dict(vars(core))
    asm = eval(decl["declared"][decl["root"]]["phase_assemblage"], ns)  # noqa: S307
    fr = eval(decl["declared"][decl["root"]]["phase_fractions"], ns)  # noqa: S307
    out = []
    for x in fr:
        q = fractions.Fraction(x).limit_denominator(1000)
        if float(q) != float(x):
            raise MachineryError(f"default phase fraction {x!r} is not a small rational")
        out.append([q.numerator, q.denominator])
    return dict(asm=[core.MineralPhase(p).name for p in asm], fr=out)


# =============================================================================== comparison helpers


def _norm(v):
    """Sequence-type agnostic normal form (the statement does not distinguish list from tuple)."""
    if isinstance(v, (list, tuple)):
        return tuple(_norm(x) for x in v)
    return v


def _same(a, b):
    a, b = _norm(a), _norm(b)
    if isinstance(a, tuple) != isinstance(b, tuple):
        return False
    if isinstance(a, tuple):
        return len(a) == len(b) and all(_same(x, y) for x, y in zip(a, b))
    if isinstance(a, float) and isinstance(b, float) and math.isnan(a) and math.isnan(b):
        return True
    try:
        return bool(a == b)
    except Exception:  # noqa: BLE001
        return False


class Collector:
    """Groups mismatches by discrete signature; one chk.violation per signature, with all the
    instances (capped) in the replay object.  Observations (force 'I') never become violations."""

    def __init__(self, cap=12):
        self.viol = {}
        self.obs = {}
        self.cap = cap

    def add(self, force, sig, what, detail):
        key = json.dumps(sig, sort_keys=True)
        bucket = self.viol if force == "S" else self.obs
        e = bucket.setdefault(key, dict(sig=sig, what=what, n=0, instances=[]))
        e["n"] += 1
        if len(e["instances"]) < self.cap:
            e["instances"].append(detail)

    def merge(self, other):
        for mine, theirs in ((self.viol, other.viol), (self.obs, other.obs)):
            for key, e in theirs.items():
                m = mine.setdefault(key, dict(sig=e["sig"], what=e["what"], n=0, instances=[]))
                m["n"] += e["n"]
                m["instances"] = (m["instances"] + e["instances"])[: self.cap]

    def flush(self, chk):
        for e in self.viol.values():
            chk.violation(e["sig"], f"{e['what']} [{e['n']} case(s)]", dict(first=e["instances"][0], occurrences=e["n"], instances=e["instances"]))
        if self.obs:
            chk.cov.setdefault("observations", [])
            for e in self.obs.values():
                chk.cov["observations"].append(dict(signature=e["sig"], what=e["what"], occurrences=e["n"], example=e["instances"][0]))
                print(f"NOTE property={chk.pid} observation (documentation-level, not a violation of the statement): {e['what']} [{e['n']} case(s)]")


# =============================================================================== Params replay


class ParamsReplayer:
    """Evaluates what Params.tla emitted against the real classes."""

    def __init__(self, decl):
        import pydrex.core
        import pydrex.mock

        self.core, self.mock, self.decl = pydrex.core, pydrex.mock, decl
        self.root = decl["root"]
        self._inst = {}

    def cls(self, name):
        return getattr(self.core, name) if name == self.root else getattr(self.mock, name)

    def value(self, text, origin):
        ns = dict(vars(self.core if origin == self.root else self.mock))
        return eval(text, ns)  # noqa: S307 - source text of a class-body declaration of the code under test

    def instance(self, name):
        if name not in self._inst:
            try:
                obj = self.cls(name)
                self._inst[name] = ("ok", obj() if isinstance(obj, type) else obj)
            except Exception as ex:  # noqa: BLE001
                self._inst[name] = ("raised", type(ex).__name__)
        return self._inst[name]

    def replay(self, case, col):
        return getattr(self, "_" + case["kind"])(case, col)

    def _value(self, c, col):
        st, inst = self.instance(c["cls"])
        if st != "ok":
            col.add("S", dict(clause="preset-construction-raised", exc=inst), f"{c['cls']}() raised {inst}", dict(case=c))
            return
        exp = self.value(c["expected"], c["origin"])
        views = {}
        try:
            views["attribute"] = getattr(inst, c["field"])
        except Exception as ex:  # noqa: BLE001
            views["attribute"] = ex
        try:
            views["as_dict"] = inst.as_dict()[c["field"]]
        except Exception as ex:  # noqa: BLE001
            views["as_dict"] = ex
        for view, got in views.items():
            if isinstance(got, Exception) or not _same(got, exp):
                if c["own"] and c["cls"] != self.root:
                    clause = "preset-declared-value-ignored"
                elif c["cls"] != self.root:
                    clause = "preset-undeclared-field-not-inherited"
                else:
                    clause = "default-record-value-not-declared-default"
                col.add(
                    "S",
                    dict(clause=clause),
                    f"{c['cls']}().{c['field']} ({view}) yields {got!r}; the class declares {c['expected']} (declared in {c['origin']})",
                    dict(kind="value", cls=c["cls"], field=c["field"], view=view, got=repr(got), declared=c["expected"], declared_in=c["origin"]),
                )

    def _frozen(self, c, col):
        inst = self.cls(c["cls"])()
        before = getattr(inst, c["field"])
        try:
            if c["op"] == "setattr":
                setattr(inst, c["field"], None)
            else:
                delattr(inst, c["field"])
            out = "accepted"
        except dataclasses.FrozenInstanceError:
            out = "FrozenInstanceError"
        except Exception as ex:  # noqa: BLE001
            out = "other:" + type(ex).__name__
        exp = self.value(c["expected"], self.root)
        after = getattr(inst, c["field"], "<deleted>")
        if out != c["outcome"]:
            col.add("S", dict(clause="default-record-mutable", op=c["op"], got=out), f"{c['op']} on {c['cls']}().{c['field']} -> {out}; spec: {c['outcome']}", dict(case=c))
        elif not _same(after, exp) or not _same(after, before):
            col.add("S", dict(clause="refused-mutation-changed-record", op=c["op"]), f"{c['op']} on {c['cls']}().{c['field']} was refused but the value is now {after!r}", dict(case=c))

    def _hash(self, c, col):
        cls = self.cls(c["cls"])
        try:
            h1, h2 = hash(cls()), hash(cls())
            out = "int" if isinstance(h1, int) else type(h1).__name__
        except Exception as ex:  # noqa: BLE001
            out, h1, h2 = "other:" + type(ex).__name__, None, None
        if out != c["outcome"]:
            col.add("S", dict(clause="default-record-not-hashable", got=out), f"hash({c['cls']}()) -> {out}", dict(case=c))
        elif c["equal_records_equal_hash"] and (cls() != cls() or h1 != h2):
            col.add("S", dict(clause="equal-records-unequal-hash"), f"two {c['cls']}() differ in equality or hash", dict(case=c))

    def _roundtrip(self, c, col):
        cls = self.cls(c["cls"])
        inst = cls()
        try:
            d = inst.as_dict()
            back = cls(**d)
        except Exception as ex:  # noqa: BLE001
            col.add("S", dict(clause="dict-round-trip-raised", exc=type(ex).__name__), f"{c['cls']}(**{c['cls']}().as_dict()) raised {type(ex).__name__}: {ex}", dict(case=c))
            return
        bad = []
        if set(d) != set(c["dict"]):
            bad.append("dictionary keys " + str(sorted(set(d) ^ set(c["dict"]))))
        for f, text in c["dict"].items():
            if f in d and not _same(d[f], self.value(text, self.root)):
                bad.append(f"dict[{f}]")
        for f, text in c["expected"].items():
            if not _same(getattr(back, f, None), self.value(text, self.root)):
                bad.append(f"rebuilt.{f}")
        if c["equal"] and (back != inst or hash(back) != hash(inst) or back.as_dict() != d):
            bad.append("rebuilt record differs from the original")
        for f in list(d):  # the dictionary form is a copy: changing it must not reach the immutable record
            d[f] = None
        if inst != cls() or not all(_same(inst.as_dict().get(f, MISSING), self.value(t, self.root)) for f, t in c["dict"].items()):
            bad.append("mutating the dictionary form changed the record or its later dictionary forms")
        if bad:
            col.add("S", dict(clause="dict-round-trip"), f"{c['cls']} does not round-trip through as_dict(): {bad[:4]}", dict(case=c, bad=bad))


def _dictseq(self, c, col, inst=None):
    """One instance: as_dict(); edit that copy; as_dict() again; attributes; rebuild from it."""
    if inst is None:
        obj = self.cls(c["cls"])
        try:
            inst = obj() if isinstance(obj, type) else obj
        except Exception as ex:  # noqa: BLE001
            col.add("S", dict(clause="preset-construction-raised", exc=type(ex).__name__), f"{c['cls']}() raised {type(ex).__name__}", dict(case=c))
            return
    copies, bad = [], []
    try:
        for op in c["ops"]:
            if op == "as_dict":
                copies.append(inst.as_dict())
            elif op == "edit_first_copy":
                for f in list(copies[0]):
                    copies[0][f] = "<edited>"
                copies[0]["<added>"] = "<edited>"
            elif op == "from_dict_of_last":
                rebuilt = type(inst)(**copies[-1])
                if c["rebuilt_equal"] and not (rebuilt == inst and hash(rebuilt) == hash(inst)):
                    bad.append(("rebuilt", "record rebuilt from the dictionary form differs from the record"))
            else:
                raise MachineryError(f"unknown dictseq op {op}")
    except MachineryError:
        raise
    except Exception as ex:  # noqa: BLE001
        bad.append(("raised", f"{type(ex).__name__}: {ex}"[:120]))
    if len(copies) >= 2:
        second = copies[1]
        if set(second) != set(c["second"]):
            bad.append(("keys", "keys of the second dictionary form: " + str(sorted(set(second) ^ set(c["second"])))[:120]))
        for f, text in c["second"].items():
            if f in second and not _same(second[f], self.value(text, c["origin"][f])):
                bad.append((f, f"second as_dict()[{f}] = {second[f]!r}, declared {text}"))
    for f, text in c["attributes"].items():
        if not _same(getattr(inst, f, MISSING), self.value(text, c["origin"][f])):
            bad.append((f, f"attribute {f} = {getattr(inst, f, MISSING)!r} after editing the dictionary form, declared {text}"))
    bad.sort(key=lambda b: b[0] in ("raised", "rebuilt"))  # lead with the value that changed
    if bad:
        col.add(
            "S",
            dict(clause="dictionary-form-not-an-independent-copy"),
            f"{c['cls']}: after d = p.as_dict() and editing d, the record no longer yields / round-trips its declared values: {bad[0][1]}",
            dict(kind="dictseq", cls=c["cls"], ops=c["ops"], failures=[b[1] for b in bad[:8]]),
        )


ParamsReplayer._dictseq = _dictseq


def _probe(fn):
    col = Collector()
    fn(col)
    return len(col.viol)


def run_params(chk, d, tier):
    import pydrex.core
    import pydrex.mock

    # the declarations are read from the very files the interpreter imported
    decl, style, ignored = extract_declarations(pydrex.core.__file__, pydrex.mock.__file__)
    decl["default_shape"] = default_shape(decl)
    decl_file = d / "decl.json"
    decl_file.write_text(json.dumps(decl))
    res = run_tlc("Params", workers=WORKERS, timeout=300, env={"C19_DECL_FILE": decl_file})
    cases = parse_printed_json(res.output, "CASE")
    n_cls, n_f = len(decl["classes"]), len(decl["order"])
    want = n_cls * n_f + 2 * n_f + 2 + n_cls
    if len(cases) != want:
        raise MachineryError(f"Params.tla emitted {len(cases)} cases, expected {want}")
    chk.add_tlc("Params", res, f"{n_cls} classes x {n_f} fields (declarations read from the source with ast) + frozen/hash/round-trip cases of the root record + as_dict/edit/as_dict/rebuild sequence per class; 8 lemmas")
    rep = ParamsReplayer(decl)
    # the quantifier is 'all presets in the mock module': the ast extraction must have found each of them
    rootcls = rep.cls(decl["root"])
    published = [n for n, o in vars(pydrex.mock).items() if (isinstance(o, type) and issubclass(o, rootcls) and o.__module__ == "pydrex.mock") or isinstance(o, rootcls)]
    missing = sorted(set(published) - set(decl["classes"]))
    if missing:
        raise MachineryError(f"presets not found by the ast extraction: {missing}")
    col = Collector(cap=400)
    cases.sort(key=lambda c: c["kind"] == "dictseq")  # the editing sequences run last
    for c in cases:
        rep.replay(c, col)
        if c["kind"] == "value":
            chk.count(("value", c["cls"], c["field"]), nontrivial=bool(c["own"]))
        else:
            chk.count((c["kind"], c.get("cls"), c.get("field"), c.get("op")))
    col.flush(chk)
    differing = [c for c in cases if c["kind"] == "value" and c["differs"]]
    chk.sample(dict(kind="preset-value", case=(differing or cases)[0]))
    chk.cov["params"] = dict(
        classes=decl["classes"],
        fields=n_f,
        declaration_styles=style,
        declared_values_differing_from_default=len(differing),
        non_field_declarations_ignored={k: v for k, v in ignored.items() if v},
    )
    # ---- negative controls: a wrong expectation must be flagged by each replayer branch
    base = next(c for c in cases if c["kind"] == "value" and c["cls"] == decl["root"] and c["field"] == decl["order"][0])
    chk.control("params-wrong-expected-value-flagged", _probe(lambda k: rep.replay(dict(base, expected="'not the default'"), k)) == 1)
    fz = next(c for c in cases if c["kind"] == "frozen")
    chk.control("params-wrong-frozen-outcome-flagged", _probe(lambda k: rep.replay(dict(fz, outcome="accepted"), k)) == 1)
    rt = next(c for c in cases if c["kind"] == "roundtrip")
    chk.control("params-wrong-round-trip-flagged", _probe(lambda k: rep.replay(dict(rt, expected=dict(rt["expected"], **{decl["order"][0]: "'x'"})), k)) == 1)
    ds = next(c for c in cases if c["kind"] == "dictseq" and c["cls"] == decl["root"])
    chk.control("params-wrong-second-dictionary-form-flagged", _probe(lambda k: rep.replay(dict(ds, second=dict(ds["second"], **{decl["order"][0]: "'x'"})), k)) == 1)
    # a record whose as_dict() hands out one shared dictionary must be flagged by the sequence
    rootcls = rep.cls(decl["root"])
    shared = rootcls().as_dict()
    leaky = type("Leaky", (rootcls,), {"as_dict": lambda self: shared})()
    chk.control("params-shared-dictionary-form-flagged", _probe(lambda k: rep._dictseq(ds, k, inst=leaky)) == 1)
    return decl_file


# =============================================================================== Config replay

SCSV_HEAD = """---
schema:
  delimiter: ','
  missing: '-'
  fields:
"""


def _scsv(columns):
    """Hand-written SCSV text (the writer of the code under test is not used for stubs)."""
    head = SCSV_HEAD + "".join(f"    - name: {n}\n      type: float\n      fill: NaN\n" for n in columns) + "---\n"
    names = list(columns)
    rows = zip(*[columns[n] for n in names])
    return head + ",".join(names) + "\n" + "".join(",".join(repr(float(x)) for x in r) + "\n" for r in rows)


class ConfigReplayer:
    STUB_COLUMNS = dict(
        locations_final={"X": (1.0, 2.0, 3.0), "Z": (-1.0, -2.0, -3.0)},
        locations_initial={"X": (0.0, 0.5), "Y": (0.0, 0.5), "Z": (0.0, 0.5)},
    )

    def __init__(self, table, workdir):
        import meshio
        import numpy as np
        import pydrex.core
        import pydrex.exceptions
        import pydrex.io

        self.np, self.core, self.io, self.exc = np, pydrex.core, pydrex.io, pydrex.exceptions
        self.table = table
        self.dir = pathlib.Path(workdir)
        self.dir.mkdir(parents=True, exist_ok=True)
        self.toml = self.dir / "case.toml"
        # stub inputs of the three input modes
        meshio.Mesh(
            points=np.array([[0.0, 0.0, 0.0], [1.0, 0.0, 0.0], [0.0, 1.0, 0.0]]),
            cells=[("triangle", np.array([[0, 1, 2]]))],
            point_data={"VelocityGradient": np.zeros((3, 9))},
        ).write(self.dir / "mesh.vtu")
        (self.dir / "final.scsv").write_text(_scsv(self.STUB_COLUMNS["locations_final"]))
        (self.dir / "start.scsv").write_text(_scsv(self.STUB_COLUMNS["locations_initial"]))
        path_cols = {"t": (0.0, 1.0)}
        for n in ("X", "Y", "Z"):
            path_cols[f"{n}_1"] = (0.0, 1.0)
        for i in "123":
            for j in "123":
                path_cols[f"L{i}{j}_1"] = (0.0, 0.0)
        np.savez(self.dir / "path001.npz", **{k: np.array(v) for k, v in path_cols.items()})
        (self.dir / "path001.scsv").write_text(_scsv(path_cols))
        self.required_values = dict(
            mesh='"mesh.vtu"',
            locations_final='"final.scsv"',
            locations_initial='"start.scsv"',
            velocity_gradient='["simple_shear_2d", "Y", "X", 5e-6]',
            paths_npz='["path001.npz"]',
            paths_scsv='["path001.scsv"]',
        )
        self._tokcache = {}

    # ---- rendering of the spec's value tokens
    @staticmethod
    def render(tok):
        kind, v = tok[0], tok[1]
        if kind == "num":
            return str(v)
        if kind == "str":
            return json.dumps(v)
        if kind == "strs":
            return "[" + ", ".join(json.dumps(x) for x in v) + "]"
        if kind == "nums":
            return "[" + ", ".join(str(x) for x in v) + "]"
        raise MachineryError(f"unknown value token {tok!r}")

    @staticmethod
    def render_phase(tok):
        kind, v = tok
        return json.dumps(v) if kind == "s" else str(v)

    def token_value(self, tok):
        key = json.dumps(tok)
        if key not in self._tokcache:
            self._tokcache[key] = tomllib.loads("v = " + self.render(tok))["v"]
        return self._tokcache[key]

    def build(self, case):
        """TOML text of the configuration the spec describes."""
        mode = case["mode"]
        keys = [tuple(k) for k in self.table["keys"][mode]]
        if len(keys) != len(case["keys"]):
            raise MachineryError("key vector length mismatch")
        vals = {}
        sup = case.get("sup") or self.table["supplied"]     # the value class this configuration uses
        for r in self.table["required"][mode]:
            if r == "timestep":
                vals[("input", r)] = self.render(sup["timestep"])
            elif r == "paths":
                vals[("input", r)] = self.required_values[mode]
            else:
                vals[("input", r)] = self.required_values[r]
        for (t, k), bit in zip(keys, case["keys"]):
            if not bit:
                continue
            if (t, k) == ("parameters", "phase_assemblage"):
                vals[(t, k)] = "[" + ", ".join(self.render_phase(p) for p in case["asm"]) + "]"
            elif (t, k) == ("parameters", "phase_fractions"):
                vals[(t, k)] = "[" + ", ".join(repr(n / d) for n, d in case["fr"]) + "]"
            elif (t, k) == ("parameters", "initial_olivine_fabric"):
                vals[(t, k)] = self.render_phase(case["fab"])
            elif (t, k) == ("output", "raw_output"):
                vals[(t, k)] = self.render(case["raw"])
            elif (t, k) == ("output", "diagnostics"):
                vals[(t, k)] = self.render(case["diag"])
            else:
                vals[(t, k)] = self.render(sup[k])
        for t, k, tok in case["over"]:
            if tok[0] == "absent":
                vals.pop((t, k), None)
            else:
                vals[(t, k)] = self.render(tok)
        lines = [f"{k} = {v}" for (t, k), v in vals.items() if t == "top"]
        tables = ["input"] if case["edit"] != "no-input-table" else []
        tables += [t for t in ("output", "parameters") if case["hdr"][t]]
        for t in tables:
            lines.append(f"[{t}]")
            lines += [f"{k} = {v}" for (tt, k), v in vals.items() if tt == t]
        for (t, k) in vals:
            if t not in ("top", "input") and not case["hdr"].get(t):
                raise MachineryError(f"spec wrote key {t}.{k} without its table header")
        return "\n".join(lines) + "\n"

    def run(self, text, form=None):
        self.toml.write_text(text)
        self.ncalls = getattr(self, "ncalls", 0) + 1
        if form is None:
            form = self.ncalls % 2
        # the path as a pathlib.Path, as a plain string, or (form 2) as a string RELATIVE to the directory the process
        # was started in - the client never changes its working directory, so a file that parses when named absolutely
        # parses when named relatively, whatever was parsed (or refused) before
        arg = (str(self.toml), self.toml, os.path.relpath(self.toml, _START_DIR))[form % 3]
        try:
            return "ok", self.io.parse_config(arg), ""
        except self.exc.ConfigError as ex:
            return "ConfigError", None, str(getattr(ex, "message", ex))[:200]
        except Exception as ex:  # noqa: BLE001
            return "other:" + type(ex).__name__, None, f"{type(ex).__name__}: {ex}"[:200]

    # ---- projection of the parsed result to the facts the spec demands
    def facts(self, result):
        P = result.get("parameters", {}) if isinstance(result, dict) else {}
        asm, fr, fab = P.get("phase_assemblage", MISSING), P.get("phase_fractions", MISSING), P.get("initial_olivine_fabric", MISSING)
        f = {}
        try:
            f["len-equal"] = len(asm) == len(fr)
        except TypeError:
            f["len-equal"] = False
        try:
            f["sum-one"] = abs(float(sum(fr)) - 1.0) <= 1e-9
        except TypeError:
            f["sum-one"] = False
        try:
            f["phases-enum"] = all(isinstance(p, self.core.MineralPhase) for p in asm)
        except TypeError:
            f["phases-enum"] = False
        f["fabric-enum"] = isinstance(fab, self.core.MineralFabric)
        return f

    def meets(self, cls, arg, got):
        """Does the parsed value `got` belong to the value class the spec predicted?"""
        core = self.core
        if cls == "py":
            return got is not MISSING and _same(got, eval(arg, dict(vars(core))))  # noqa: S307
        if cls == "token":
            return got is not MISSING and _same(got, self.token_value(arg))
        if cls in ("phases-exact", "phases-between"):
            if got is MISSING or not isinstance(got, (list, tuple)) or not all(isinstance(p, core.MineralPhase) for p in got):
                return False
            names = [p.name for p in got]
            if cls == "phases-exact":
                return names == list(arg)
            lo, hi = arg
            return set(lo) <= set(names) <= set(hi) and len(set(names)) == len(names)
        if cls == "fabric":
            return isinstance(got, core.MineralFabric) and got.name == "olivine_" + arg
        if cls == "fabric-any":
            return isinstance(got, core.MineralFabric)
        if cls == "fractions":
            return got is not MISSING and _same([float(x) for x in got] if isinstance(got, (list, tuple)) else got, [n / d for n, d in arg])
        if cls == "noneish":
            return got is MISSING or got is None or (isinstance(got, (list, tuple)) and len(got) == 0)
        if cls == "path":
            return got is not MISSING and pathlib.Path(got) == (self.dir / arg).resolve()
        if cls == "length":
            return got is not MISSING and got is not None and len(got) == arg
        if cls == "not-none":
            return got is not MISSING and got is not None
        raise MachineryError(f"unknown demand class {cls!r}")

    def judge(self, case, outcome, result, detail, col, fails):
        """Compare one run with the spec's prediction; returns True when everything demanded held."""
        mode = case["mode"]
        replay = dict(kind="config", mode=mode, fault=case["fault"], toml=detail["toml"], expected_outcome=case["outcome"], got=outcome, message=detail.get("msg", ""))
        clean = True
        if outcome not in case["outcome"]:
            fails.append((case, outcome, replay))  # attributed once every case has been run
            return False
        if outcome != "ok":
            return clean
        for fact in case["post"]:
            if not self.facts(result)[fact]:
                clean = False
                col.add("S", dict(clause="postcondition", fact=fact), f"parsed parameters violate {fact}", replay)
        keys = [tuple(k) for k in self.table["keys"][mode]]
        missing_tables = set()
        for (t, k), bit, (force, cls, arg) in zip(keys, case["keys"], case["exp"]):
            if force == "-":
                continue
            if t == "top":
                got = result.get(k, MISSING)
            else:
                tab = result.get(t, MISSING)
                if tab is MISSING:
                    if cls == "noneish":
                        continue
                    if t not in missing_tables:
                        missing_tables.add(t)
                        clean = False
                        col.add(force, dict(clause="optional-table-omitted", table=t, got="table-missing-in-result", header_written=bool(case["hdr"].get(t, True))), f"result of parse_config has no '{t}' table: its documented defaults are not delivered", replay)
                    continue
                got = tab.get(k, MISSING) if isinstance(tab, dict) else MISSING
            if self.meets(cls, arg, got):
                continue
            clean = False
            shown = repr(got)[:80]
            if not bit:
                sig = dict(clause="omitted-key-default-wrong", table=t, key=k, got="missing-in-result" if got is MISSING else "other-value")
                what = f"{t}.{k} omitted: parsed value {shown}, documented default {cls} {arg}"
            elif cls in ("phases-exact", "fabric", "fabric-any") and force == "S":
                sig = dict(clause="supplied-enum-not-honoured", table=t, key=k)
                what = f"{t}.{k} supplied: parsed value {shown}, spec: {cls} {arg}"
            else:
                sig = dict(clause="supplied-value-not-preserved", table=t, key=k, mode_is_paths=mode.startswith("paths"))
                what = f"{t}.{k} supplied: parsed value {shown}, spec: {cls} {arg}"
            col.add(force, sig, what, dict(replay, key=f"{t}.{k}", parsed=shown))
        inp = result.get("input", MISSING)
        for k, force, cls, arg in case["req"]:
            got = inp.get(k, MISSING) if isinstance(inp, dict) else MISSING
            if cls == "columns":
                want = self.STUB_COLUMNS[k]
                ok = got is not MISSING and got is not None and all(_same(getattr(got, n, None), v) for n, v in want.items())
            else:
                ok = self.meets(cls, arg, got)
            if not ok:
                clean = False
                col.add(force, dict(clause="required-input-not-delivered", key=k, mode=mode), f"input.{k} ({mode}): parsed value {repr(got)[:80]}, spec: {cls}", replay)
        return clean


_G = {}


def canon_digest(x):
    """Canonical digest of a parsed configuration (no memory addresses, no dictionary order)."""
    import enum
    import hashlib
    import pathlib

    import numpy as np

    def canon(v):
        if isinstance(v, dict):
            return ["d", sorted([str(k), canon(w)] for k, w in v.items())]
        if isinstance(v, enum.Enum):
            return ["e", type(v).__name__, v.name]
        if isinstance(v, (bool, int, float, complex, str, type(None))):
            return ["s", type(v).__name__, repr(v)]
        if isinstance(v, np.ndarray):
            if v.dtype == object:
                return ["ao", canon(v.tolist())]
            return ["a", v.dtype.str, list(v.shape), hashlib.sha256(np.ascontiguousarray(v).tobytes()).hexdigest()[:16]]
        if isinstance(v, (list, tuple)):
            return ["l", type(v).__name__, list(getattr(v, "_fields", ())), [canon(w) for w in v]]
        if isinstance(v, pathlib.PurePath):
            return ["p", str(v)]
        if isinstance(v, np.generic):
            return ["g", v.dtype.str, repr(v.item())]
        if callable(v):
            return ["c", getattr(v, "__module__", "") or "", getattr(v, "__qualname__", type(v).__name__)]
        r = repr(v)
        return ["o", type(v).__name__, "" if " at 0x" in r else r[:200]]

    import re

    if isinstance(x, dict) and isinstance(x.get("name"), str) and re.fullmatch(r"pydrex\.\d+", x["name"]):
        x = dict(x, name="pydrex.<randomised default>")     # the documented default of an omitted name is drawn afresh
    return hashlib.sha256(json.dumps(canon(x), sort_keys=True).encode()).hexdigest()[:16]


def scribble(x, depth=0):
    """What a caller may do to a result: overwrite every entry of every nested dictionary, extend every list."""
    if depth > 6:
        return
    if isinstance(x, dict):
        for k in list(x):
            v = x[k]
            if isinstance(v, (dict, list)):
                scribble(v, depth + 1)
            try:
                x[k] = ("scribbled", k)
            except Exception:  # noqa: BLE001 - a read-only mapping cannot be scribbled on: nothing to do
                return
        try:
            x["scribbled"] = True
        except Exception:  # noqa: BLE001
            pass
    elif isinstance(x, list):
        for v in x:
            if isinstance(v, (dict, list)):
                scribble(v, depth + 1)
        x.append("scribbled")


HIST_BLOCK = 100


def _replay_chunk(bound):
    """Replay cases[lo:hi] (own scratch sub-directory; runs in a forked worker)."""
    w, lo, hi = bound
    cases, table = _G["cases"], _G["table"]
    rep = ConfigReplayer(table, _G["base"] / f"cfg{w}")
    col, fails, passing, outcomes = Collector(), [], None, {}
    events = []
    first_ok = None

    def note(tid, i, outcome, result):
        try:
            dig = canon_digest(result) if outcome == "ok" else "outcome:" + outcome
        except Exception as ex:  # noqa: BLE001
            dig = "uncanonical:" + type(ex).__name__
        events.append(dict(tid=tid, ev="Parse", file=i, dig=dig))

    for i in range(lo, hi):
        case = cases[i]
        text = rep.build(case)
        outcome, result, msg = rep.run(text, form=i)
        tid = w * 100000 + (i - lo) // HIST_BLOCK
        if (i - lo) % HIST_BLOCK == 0:
            first_ok = None
        note(tid, i, outcome, result)
        mine = []
        clean = rep.judge(case, outcome, result, dict(toml=text, msg=msg), col, mine)
        if outcome == "ok":
            # history clause (ConfigHistory.tla): the caller modifies the result, then the same file is parsed again;
            # at the end of every block the first file of the block is parsed once more
            scribble(result)
            events.append(dict(tid=tid, ev="Scribble", file=i))
            o2, r2, _ = rep.run(text, form=i)
            note(tid, i, o2, r2)
            scribble(r2)
            if first_ok is None:
                first_ok = (i, text)
            elif (i - lo) % HIST_BLOCK == HIST_BLOCK - 1 or i == hi - 1:
                o3, r3, _ = rep.run(first_ok[1], form=first_ok[0])
                note(tid, first_ok[0], o3, r3)
        fails += [(i, outcome, msg) for _ in mine]
        if clean and outcome == "ok" and passing is None and any(not b and e[1] == "py" for b, e in zip(case["keys"], case["exp"])):
            passing = i
        key = ("fault:" + case["fault"] if case["fault"] != "none" else "lattice") + " " + "|".join(case["outcome"]) + " -> " + outcome
        outcomes[key] = outcomes.get(key, 0) + 1
    return col, fails, passing, outcomes, events


def _omitted(case, table):
    """Optional keys the configuration leaves out (keys of a record field unknown to the spec are
    never supplied: not an omission the lattice chose)."""
    keys = [tuple(k) for k in table["keys"][case["mode"]]]
    opt = [(t, k) for (t, k), bit in zip(keys, case["keys"]) if not bit]
    return [(t, k) for (t, k) in opt if t != "parameters" or k in table["supplied"] or k in ("phase_assemblage", "phase_fractions", "initial_olivine_fabric")]


def _exc(outcome):
    """Outcome class -> name used in signatures ('other:TypeError' -> 'TypeError')."""
    return outcome.split(":", 1)[1] if outcome.startswith("other:") else outcome


_VALUE_KEYS = (("parameters", "phase_assemblage", "asm"), ("parameters", "phase_fractions", "fr"), ("parameters", "initial_olivine_fabric", "fab"), ("output", "raw_output", "raw"), ("output", "diagnostics", "diag"))


def _present(case, table):
    keys = [tuple(k) for k in table["keys"][case["mode"]]]
    return {k for k, bit in zip(keys, case["keys"]) if bit}


def _same_values(case, full, table):
    """Every value-dimension key that `case` supplies has the value `full` supplies."""
    pres = _present(case, table)
    return all(case[field] == full[field] for t, k, field in _VALUE_KEYS if (t, k) in pres)


def _value_classes(case, table):
    """Discrete description of the value dimensions for signatures: number of simulated phases,
    how raw_output / diagnostics select among them, fabric letter."""
    pres = _present(case, table)
    n = len(case["asm"]) if ("parameters", "phase_assemblage") in pres else 1

    def sel(t, k, field):
        if (t, k) not in pres:
            return "omitted"
        m = len(case[field][1])
        return "none" if m == 0 else "all" if m >= n else "strict-subset"

    out = dict(n_phases=n, raw=sel("output", "raw_output", "raw"), diag=sel("output", "diagnostics", "diag"))
    if out["raw"] != "omitted" and out["diag"] != "omitted":
        out["diag_in_raw"] = set(case["diag"][1]) <= set(case["raw"][1])
    if ("parameters", "initial_olivine_fabric") in pres and case["fab"][1] != "A":
        out["fabric"] = str(case["fab"][1])
    return out


def _describe(case):
    return f"lists {_lists(case)}, fabric {case['fab'][1]}, raw_output {case['raw'][1]}, diagnostics {case['diag'][1]}"


def _lists(case):
    asm = "+".join(str(p[1]) for p in case["asm"])
    fr = "+".join(f"{n}/{d}" for n, d in case["fr"])
    return f"{asm}:{fr}"


def attribute_failures(fails, table, col, n_full=None):
    """Configurations whose outcome class is not one the spec allows.

    (a) spec: parses (fault = none, 'ok' allowed) but the code raised.  Causes are established by
        the minimal elements of the lattice: an input mode all of whose fully populated
        configurations fail, a key whose single omission fails.  Any other failure that contains
        an established cause with the same exception is explained by it; what remains is reported
        by its minimal omitted set.
    (b) spec: must be rejected with ConfigError (single faults, lattice points whose effective
        lists break a constraint) but the code parsed it or raised something else.  Explained when
        the exception is the one already established for the input mode, reported otherwise.
    n_full: mode -> number of fully populated must-parse configurations enumerated (to tell a mode
    cause from a failure of particular lists / fabric letters)."""

    valid = [(case, out, replay, _omitted(case, table)) for case, out, replay in fails if "ok" in case["outcome"] and case["fault"] == "none"]
    invalid = [(case, out, replay) for case, out, replay in fails if not ("ok" in case["outcome"] and case["fault"] == "none")]
    key_cause, mode_cause, full_fail, full_specific = {}, {}, {}, {}
    for case, out, replay, om in valid:
        if len(om) == 0:
            full_fail.setdefault((case["mode"], out), []).append((case, replay))
    for (mode, out), lst in full_fail.items():
        strict = [c for c, _ in lst if c["outcome"] == ["ok"]]
        if n_full is None or (strict and len(strict) >= n_full.get(mode, 0)):
            mode_cause[(mode, out)] = lst
            col.add("S", dict(clause="documented-input-mode-rejected", mode=mode, exc=_exc(out)), f"no fully populated configuration in input mode {mode} parses: {out} ({lst[0][1]['message']})", lst[0][1])
        else:
            # fully populated configurations that fail only for particular values of the value dimensions
            full_specific[(mode, out)] = [c for c, _ in lst]
            for c, replay in lst:
                col.add("S", dict(clause="valid-config-rejected", exc=_exc(out), **_value_classes(c, table)), f"fully populated valid configuration ({_describe(c)}) does not parse: {out} ({replay['message']})", replay)

    def covered(case, out):
        """Is this failure the same as that of a fully populated configuration with the same values?"""
        return any(_same_values(case, f, table) for f in full_specific.get((case["mode"], out), ()))

    for case, out, replay, om in valid:
        if len(om) == 1 and (case["mode"], out) not in mode_cause and not covered(case, out):
            key_cause.setdefault((om[0], out), []).append(replay)
    for ((t, k), out), reps in key_cause.items():
        col.add("S", dict(clause="optional-key-omitted", table=t, key=k, exc=_exc(out)), f"configuration omitting only {t}.{k} does not parse: {out} ({reps[0]['message']})", reps[0])
    rest = []
    n_explained = 0
    for case, out, replay, om in valid:
        if len(om) == 0 or (len(om) == 1 and (om[0], out) in key_cause):
            continue
        if (case["mode"], out) in mode_cause or any((k, out) in key_cause for k in om) or covered(case, out):
            n_explained += 1
            continue
        rest.append((case, out, replay, om))
    rest.sort(key=lambda x: len(x[3]))
    minimal = []
    for case, out, replay, om in rest:
        vc = _value_classes(case, table)
        if any(set(m) <= set(om) and o == out and v == vc for m, o, v in minimal):
            continue
        minimal.append((om, out, vc))
        hdr = {t: bool(v) for t, v in case["hdr"].items()}
        col.add(
            "S",
            dict(clause="valid-config-rejected", omitted=[f"{t}.{k}" for t, k in om] if len(om) <= 3 else f"{len(om)} keys", headers=hdr if len(om) > 3 else None, exc=_exc(out), **vc),
            f"valid configuration ({_describe(case)}) does not parse when {len(om)} optional keys are omitted: {out} ({replay['message']})",
            replay,
        )
    for case, out, replay in invalid:
        if (case["mode"], out) in mode_cause:
            n_explained += 1
            continue
        lattice = case["fault"] == "none"
        what = f"configuration that cannot satisfy {case['broken'] or case['fault']} -> {out}; spec: {case['outcome']}"
        sig = dict(clause="invalid-config-not-rejected-with-ConfigError", fault="lattice" if lattice else case["fault"], got=_exc(out))
        if lattice:
            sig["broken"] = sorted(case["broken"])
        if "ok" in case["outcome"]:
            sig["clause"] = "undocumented-type-neither-parsed-nor-ConfigError"
        col.add(case["oforce"], sig, what, replay)
    return n_explained


def run_config(chk, d, tier, decl_file):
    quick = tier != "thorough"
    cfgname = "Config" if quick else "Config_thorough"
    res = run_tlc("Config", cfgname, workers=WORKERS, timeout=900, env={"C19_DECL_FILE": decl_file})
    tables = parse_printed_json(res.output, "TABLE")
    cases = parse_printed_json(res.output, "CASE")
    if not tables or len(cases) < 5000 or 2 * len(cases) != res.distinct:
        raise MachineryError(f"Config.tla emitted {len(cases)} cases for {res.distinct} states")
    table = tables[0]
    res.output = ""  # free memory
    chk.add_tlc(
        "Config/" + cfgname,
        res,
        "optional-key subsets (few present / few omitted) x table headers x 4 input-mode variants x 6 phase-list shapes x 5 fabric letters x raw_output/diagnostics selections + 21 single faults; 8 lemmas",
    )
    rep = ConfigReplayer(table, d / "cfg")
    t0 = time.time()
    nproc = max(1, min(PROCS, len(cases) // 500))
    _G.update(cases=cases, table=table, base=d)
    bounds = [(w, len(cases) * w // nproc, len(cases) * (w + 1) // nproc) for w in range(nproc)]
    if nproc == 1:
        parts = [_replay_chunk(bounds[0])]
    else:
        import multiprocessing

        with multiprocessing.get_context("fork").Pool(nproc) as pool:
            parts = pool.map(_replay_chunk, bounds)
    col, fails, passing, outcomes = Collector(), [], None, {}
    history = []
    for pcol, pfails, ppassing, poutcomes, pevents in parts:
        history += pevents
        col.merge(pcol)
        for i, out, msg in pfails:
            text = rep.build(cases[i])
            fails.append((cases[i], out, dict(kind="config", mode=cases[i]["mode"], fault=cases[i]["fault"], toml=text, expected_outcome=cases[i]["outcome"], got=out, message=msg)))
        if passing is None and ppassing is not None:
            passing = (cases[ppassing], None)
        for k, v in poutcomes.items():
            outcomes[k] = outcomes.get(k, 0) + v
    for case in cases:
        chk.count((case["mode"], tuple(case["keys"]), tuple(case["hdr"].values()), json.dumps([case["asm"], case["fr"], case["fab"], case["raw"], case["diag"]]), case["fault"]))
    chk.cov["config_replay_s"] = round(time.time() - t0, 1)
    chk.cov["config_replay_processes"] = nproc
    n_full = {}
    for c in cases:
        if c["fault"] == "none" and c["outcome"] == ["ok"] and not _omitted(c, table):
            n_full[c["mode"]] = n_full.get(c["mode"], 0) + 1
    n_expl = attribute_failures(fails, table, col, n_full)
    chk.cov["config_outcomes"] = dict(sorted(outcomes.items()))
    chk.cov["outcome_mismatches"] = dict(total=len(fails), explained_by_an_established_mode_or_single_key_cause=n_expl)
    # ---- history clause: the recorded Parse / Scribble log against ConfigHistoryTrace.tla
    def validate_history(lines):
        path = d / "config_history.ndjson"
        write_ndjson(path, lines)
        r = run_tlc("ConfigHistoryTrace", "ConfigHistoryTrace", workers=1, env={"TRACE_FILE": str(path)}, timeout=1500)
        if f'<<"DONE", {len(lines)}>>' not in r.output:
            raise MachineryError("ConfigHistoryTrace did not consume the whole log")
        return parse_printed_json(r.output, "REJECT"), r

    design = run_tlc("ConfigHistory", "ConfigHistory", workers=2, timeout=300)
    chk.add_tlc("ConfigHistory", design, "parse is a function of the file: every interleaving of Parse / Scribble over 3 files up to 4 parses, FunctionOfFile")
    rejects, hres = validate_history(history)
    chk.add_tlc("ConfigHistoryTrace", hres, f"{len(history)} recorded Parse / Scribble events (every parsed configuration is scribbled over and parsed again)")
    chk.cov["history_events"] = len(history)
    uncanon = sorted({e["dig"] for e in history if e.get("dig", "").startswith("uncanonical:")})
    if uncanon:
        chk.machinery_doubt(f"history clause: {uncanon} while digesting parsed configurations")
    chk.control("digest-separates-results", canon_digest(dict(a=[1, 2.0], b=dict(c="x"))) != canon_digest(dict(a=[1, 2.5], b=dict(c="x")))
                and canon_digest(dict(a=1, b=2)) == canon_digest(dict(b=2, a=1)) and len({e["dig"] for e in history if e["ev"] == "Parse"}) > 50)
    seen_h = set()
    for rj in rejects:
        first = next(e for e in history if e["tid"] == rj["tid"] and e["file"] == rj["file"] and e["ev"] == "Parse")
        got = history[rj["l"] - 1]["dig"]
        kind = "outcome-changed" if (got.startswith("outcome:") or first["dig"].startswith("outcome:")) else "value-changed"
        key = (kind, cases[rj["file"]]["mode"])
        if key in seen_h:
            continue
        seen_h.add(key)
        chk.violation(dict(clause="parse-depends-on-history", kind=kind, mode=cases[rj["file"]]["mode"]),
                      f"parse_config of the same file gave a different result after the caller modified an earlier result ({kind}; mode {cases[rj['file']]['mode']})",
                      dict(kind="config-history", toml=rep.build(cases[rj["file"]]), first=first["dig"], later=got,
                           how="parse, overwrite every entry of the returned nested dictionaries, parse the same file again"))
    bad_h, _ = validate_history([dict(tid=1, ev="Parse", file=1, dig="a"), dict(tid=1, ev="Scribble", file=1), dict(tid=1, ev="Parse", file=1, dig="b"), dict(tid=2, ev="Parse", file=1, dig="b")])
    chk.control("history-trace-rejects-changed-digest", len(bad_h) == 1 and bad_h[0]["l"] == 3, str(bad_h))
    col.flush(chk)
    chk.sample(dict(kind="configuration", toml=rep.build(cases[len(cases) // 2]), expected_outcome=cases[len(cases) // 2]["outcome"]))
    fault_case = next(c for c in cases if c["fault"] == "sum-below-one")
    chk.sample(dict(kind="single-fault", fault=fault_case["fault"], toml=rep.build(fault_case), expected_outcome=fault_case["outcome"]))

    # ---- negative controls: perturbed expectations must be flagged
    def rerun(case, col2):
        text = rep.build(case)
        outcome, result, msg = rep.run(text)
        f2 = []
        rep.judge(case, outcome, result, dict(toml=text, msg=msg), col2, f2)
        attribute_failures(f2, table, col2)

    if passing is None:
        chk.cov["negative_controls"].append(dict(control="config-controls", fired=False, detail="not run: no configuration parsed cleanly on this tree"))
    else:
        case, _ = passing
    if passing is not None and _probe(lambda k: rerun(case, k)) != 0:
        # the configuration that was parsed exactly as declared earlier in this process is not parsed as declared NOW: parse_config
        # is not a function of the file (a verdict about the implementation, not a failure of the machinery)
        text = rep.build(case)
        chk.violation(dict(clause="parse-depends-on-history", kind="judged-again-later", mode=case["mode"]),
                      f"a configuration (mode {case['mode']}) that parsed as declared earlier in this process does not parse as declared when it is parsed again after the other configurations of this run",
                      dict(kind="config-history", toml=text, how="parse many configurations (results overwritten by the caller in between), then parse this one again"))
        chk.cov["negative_controls"].append(dict(control="config-controls", fired=False, detail="not run: the base case is not judged clean on this tree"))
    elif passing is not None:
        keys = [tuple(k) for k in table["keys"][case["mode"]]]
        # (1) a wrong documented default for an omitted key
        i = next((i for i, (k, b) in enumerate(zip(keys, case["keys"])) if not b and case["exp"][i][1] == "py"), None)
        if i is not None:
            wrong = json.loads(json.dumps(case))
            wrong["exp"][i] = ["S", "py", "'not the default'"]
            chk.control("config-wrong-default-flagged", _probe(lambda k: rerun(wrong, k)) == 1, f"{keys[i]}")
        # (2) a configuration that parses, predicted to be rejected
        wrong = dict(case, outcome=["ConfigError"], broken=["sum-one"])
        chk.control("config-wrong-outcome-flagged", _probe(lambda k: rerun(wrong, k)) == 1)
        # (3) a wrong enumeration member for a supplied fabric / phase list
        i = keys.index(("parameters", "phase_assemblage"))
        wrong = json.loads(json.dumps(case))
        wrong["exp"][i] = ["S", "phases-exact", ["enstatite", "enstatite", "olivine"]]
        chk.control("config-wrong-phase-members-flagged", _probe(lambda k: rerun(wrong, k)) == 1)
    # (4) a rejected single fault predicted to parse
    rejected = next((c for c in cases if c["fault"] == "sum-below-one"), None)
    wrong = dict(rejected, outcome=["ok"])
    chk.control("config-rejected-fault-predicted-ok-flagged", _probe(lambda k: rerun(wrong, k)) >= 1)
    # (5) the projection of post-conditions notices a broken parameter table
    fake = dict(parameters=dict(phase_assemblage=(rep.core.MineralPhase.olivine, 1), phase_fractions=[0.5], initial_olivine_fabric="A"))
    chk.control("config-postcondition-projection", not any(rep.facts(fake).values()))


def main(tier):
    chk = Check("C19", tier)
    quiet_pydrex()
    with scratch("c19-") as d:
        decl_file = run_params(chk, d, tier)
        run_config(chk, d, tier, decl_file)
    return chk.finish(
        rule="Params: every (class, field) of DefaultParams and the pydrex.mock presets, distinct by pair, non-trivial when the class declares the field itself; "
        "Config: every configuration enumerated by TLC from Config.tla (optional-key subsets with <= MaxPresent present or <= MaxOmitted omitted, x table headers x input modes x phase-list shapes x fabric letters, plus every single fault), x values of raw_output / diagnostics (omitted, all simulated, each strict subset, none), distinct by (mode, key vector, headers, lists, fabric, output lists, fault)",
        exhaustive=False,  # exhaustive over the stated bounds, not over all 2^26 key subsets
        trusted=["the documented configuration format as transcribed in Config.tla (data/specs/*.toml comments, DefaultParams field documentation)", "Python's ast module for reading class-body declarations"],
    )


def replay(obj):
    """./check C19 --replay <path>: re-run the first recorded instance against the current tree."""
    quiet_pydrex()
    inst = obj["replay"]["first"]
    if inst.get("kind") == "config":
        import pydrex.io

        with scratch("c19-replay-") as d:
            rep = ConfigReplayer(dict(keys={}, supplied={}, required={}), d / "cfg")
            out, result, msg = rep.run(inst["toml"])
            print(f"--- configuration ---\n{inst['toml']}--- expected outcome {inst['expected_outcome']}; now: {out} {msg}")
            if result is not None:
                print({k: v for k, v in result.items() if k != "input"})
        return 0 if out in inst["expected_outcome"] else 1
    if inst.get("kind") == "value":
        import pydrex.core
        import pydrex.mock

        obj = getattr(pydrex.mock, inst["cls"], None) or getattr(pydrex.core, inst["cls"])
        obj = obj() if isinstance(obj, type) else obj
        got = getattr(obj, inst["field"]) if inst["view"] == "attribute" else obj.as_dict()[inst["field"]]
        ns = dict(vars(pydrex.core if inst["declared_in"] == "DefaultParams" else pydrex.mock))
        same = _same(got, eval(inst["declared"], ns))  # noqa: S307
        print(f"{inst['cls']}().{inst['field']} ({inst['view']}) = {got!r}; declared {inst['declared']} in {inst['declared_in']}: {'agrees' if same else 'DIFFERS'}")
        return 0 if same else 1
    print("nothing executable recorded for this signature")
    return 0
