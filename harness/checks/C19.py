"""C19 - parameter records and configuration files mean what they declare.

Spec:  Params.tla  (Resolve(preset, field) = declared-if-declared-else-parent; frozen / hashable /
                    dictionary round trip of the root record; lemmas checked by TLC)
       Config.tla  (decision model of parse_config: input modes, optional-key lattice, documented
                    defaults, post-conditions of the parsed parameters, single faults)
Bind:  spec -> code.  The *declarations* of DefaultParams and of every class in pydrex.mock are read
       from the source with `ast` (plain and annotated assignments) and handed to TLC as a JSON
       constant (C19_DECL_FILE, scratch directory).  TLC emits the expected value of every
       (class, field) and the expected outcome class / parsed values of every configuration; this
       module instantiates the classes / writes the TOML file and its stub inputs, runs the real
       code, projects the result to the abstract facts the spec talks about and compares.  No
       expectation is computed here.
"""
from __future__ import annotations

import ast
import dataclasses
import fractions
import json
import math
import os
import pathlib
import time

from harness.common import REPO, SEED, Check, MachineryError, parse_printed_json, quiet_pydrex, run_tlc, scratch

WORKERS = int(os.environ.get("C19_TLC_WORKERS", "8"))

# =============================================================================== declarations


def _class_body_declarations(cls_node):
    """name -> (source text of the declared value, 'plain' | 'annotated') for one class body."""
    out = {}
    for st in cls_node.body:
        if isinstance(st, ast.AnnAssign) and isinstance(st.target, ast.Name) and st.value is not None:
            out[st.target.id] = (ast.unparse(st.value), "annotated")
        elif isinstance(st, ast.Assign) and len(st.targets) == 1 and isinstance(st.targets[0], ast.Name):
            out[st.targets[0].id] = (ast.unparse(st.value), "plain")
    return out


def _base_names(cls_node):
    names = []
    for b in cls_node.bases:
        if isinstance(b, ast.Name):
            names.append(b.id)
        elif isinstance(b, ast.Attribute):
            names.append(b.attr)
    return names


def extract_declarations(core_py, mock_py, root="DefaultParams"):
    """What the source *declares*: the root record's annotated fields (in order) and, for every
    class of the mock module deriving from it, the plain and annotated assignments of its body."""
    core_tree = ast.parse(pathlib.Path(core_py).read_text())
    root_node = next((n for n in core_tree.body if isinstance(n, ast.ClassDef) and n.name == root), None)
    if root_node is None:
        raise MachineryError(f"class {root} not found in {core_py}")
    root_decl = {k: v for k, v in _class_body_declarations(root_node).items() if v[1] == "annotated"}
    if not root_decl:
        raise MachineryError(f"{root} declares no annotated fields")
    order = list(root_decl)
    classes, parent, declared, style, ignored = [root], {root: ""}, {root: {k: v[0] for k, v in root_decl.items()}}, {}, {}
    mock_tree = ast.parse(pathlib.Path(mock_py).read_text())
    for node in mock_tree.body:
        if not isinstance(node, ast.ClassDef):
            continue
        bases = [b for b in _base_names(node) if b in classes]
        if not bases:
            continue
        decl = _class_body_declarations(node)
        classes.append(node.name)
        parent[node.name] = bases[0]
        declared[node.name] = {k: v[0] for k, v in decl.items() if k in root_decl}
        style[node.name] = sorted({v[1] for k, v in decl.items() if k in root_decl})
        ignored[node.name] = sorted(k for k in decl if k not in root_decl)
    return dict(root=root, order=order, classes=classes, parent=parent, declared=declared), style, ignored


# =============================================================================== Params replay


def _norm(v):
    """Sequence-type agnostic, enum-preserving normal form for equality of declared values."""
    if isinstance(v, (list, tuple)):
        return tuple(_norm(x) for x in v)
    return v


def _same(a, b):
    a, b = _norm(a), _norm(b)
    if isinstance(a, tuple) != isinstance(b, tuple):
        return False
    if isinstance(a, tuple):
        return len(a) == len(b) and all(_same(x, y) for x, y in zip(a, b))
    if isinstance(a, float) and isinstance(b, float) and math.isnan(a) and math.isnan(b):
        return True
    try:
        return bool(a == b)
    except Exception:  # noqa: BLE001
        return False


class ParamsReplayer:
    """Evaluates what the spec emitted for Params.tla against the real classes."""

    def __init__(self, pd, decl):
        import pydrex.core
        import pydrex.mock

        self.core, self.mock, self.decl = pydrex.core, pydrex.mock, decl
        self.root = decl["root"]
        self._inst = {}

    def cls(self, name):
        return getattr(self.core, name) if name == self.root else getattr(self.mock, name)

    def value(self, text, origin):
        ns = dict(vars(self.core if origin == self.root else self.mock))
        return eval(text, ns)  # noqa: S307 - source text of a class-body declaration of the code under test

    def instance(self, name):
        if name not in self._inst:
            try:
                self._inst[name] = ("ok", self.cls(name)())
            except Exception as ex:  # noqa: BLE001
                self._inst[name] = ("raised", type(ex).__name__)
        return self._inst[name]

    def replay(self, case, chk):
        kind = case["kind"]
        return getattr(self, "_" + kind)(case, chk)

    def _value(self, c, chk):
        st, inst = self.instance(c["cls"])
        what = f"{c['cls']}().{c['field']}"
        if st != "ok":
            chk.violation(dict(clause="preset-construction-raised", exc=inst), f"{c['cls']}() raised {inst}", dict(case=c))
            return
        exp = self.value(c["expected"], c["origin"])
        views = {}
        try:
            views["attribute"] = getattr(inst, c["field"])
        except Exception as ex:  # noqa: BLE001
            views["attribute"] = ex
        try:
            views["as_dict"] = inst.as_dict()[c["field"]]
        except Exception as ex:  # noqa: BLE001
            views["as_dict"] = ex
        for view, got in views.items():
            if isinstance(got, Exception) or not _same(got, exp):
                if c["own"] and c["cls"] != self.root:
                    clause = "preset-declared-value-ignored"
                elif c["cls"] != self.root:
                    clause = "preset-undeclared-field-not-inherited"
                else:
                    clause = "default-record-value-not-declared-default"
                chk.violation(
                    dict(clause=clause),
                    f"{what} ({view}) yields {got!r}; the class declares {c['expected']} (declared in {c['origin']})",
                    dict(case=c, view=view, got=repr(got)),
                )

    def _frozen(self, c, chk):
        inst = self.cls(c["cls"])()
        before = getattr(inst, c["field"])
        try:
            if c["op"] == "setattr":
                setattr(inst, c["field"], None)
            else:
                delattr(inst, c["field"])
            out = "accepted"
        except dataclasses.FrozenInstanceError:
            out = "FrozenInstanceError"
        except Exception as ex:  # noqa: BLE001
            out = "other:" + type(ex).__name__
        exp = self.value(c["expected"], self.root)
        after = getattr(inst, c["field"], "<deleted>")
        if out != c["outcome"]:
            chk.violation(dict(clause="default-record-mutable", op=c["op"], got=out), f"{c['op']} on {c['cls']}().{c['field']} -> {out}; spec: {c['outcome']}", dict(case=c))
        elif not _same(after, exp) or not _same(after, before):
            chk.violation(dict(clause="refused-mutation-changed-record", op=c["op"]), f"{c['op']} on {c['cls']}().{c['field']} was refused but the value is now {after!r}", dict(case=c))

    def _hash(self, c, chk):
        cls = self.cls(c["cls"])
        try:
            h1, h2 = hash(cls()), hash(cls())
            out = "int" if isinstance(h1, int) else type(h1).__name__
        except Exception as ex:  # noqa: BLE001
            out, h1, h2 = "other:" + type(ex).__name__, None, None
        if out != c["outcome"]:
            chk.violation(dict(clause="default-record-not-hashable", got=out), f"hash({c['cls']}()) -> {out}", dict(case=c))
        elif c["equal_records_equal_hash"] and (cls() != cls() or h1 != h2):
            chk.violation(dict(clause="equal-records-unequal-hash"), f"two {c['cls']}() differ in equality or hash", dict(case=c))

    def _roundtrip(self, c, chk):
        cls = self.cls(c["cls"])
        inst = cls()
        try:
            d = inst.as_dict()
            back = cls(**d)
        except Exception as ex:  # noqa: BLE001
            chk.violation(dict(clause="dict-round-trip-raised", exc=type(ex).__name__), f"{c['cls']}(**{c['cls']}().as_dict()) raised {type(ex).__name__}: {ex}", dict(case=c))
            return
        bad = []
        if set(d) != set(c["dict"]):
            bad.append("dictionary keys " + str(sorted(set(d) ^ set(c["dict"]))))
        for f, text in c["dict"].items():
            if f in d and not _same(d[f], self.value(text, self.root)):
                bad.append(f"dict[{f}]")
        for f, text in c["expected"].items():
            if not _same(getattr(back, f, None), self.value(text, self.root)):
                bad.append(f"rebuilt.{f}")
        if c["equal"] and (back != inst or hash(back) != hash(inst) or back.as_dict() != d):
            bad.append("rebuilt record differs from the original")
        # the dictionary form is a copy: changing it must not reach the immutable record
        for f in list(d):
            d[f] = None
        if inst != cls():
            bad.append("mutating the dictionary form changed the record")
        if bad:
            chk.violation(dict(clause="dict-round-trip"), f"{c['cls']} does not round-trip through as_dict(): {bad[:4]}", dict(case=c, bad=bad))


def run_params(chk, pd, d, tier):
    decl, style, ignored = extract_declarations(REPO / "src/pydrex/core.py", REPO / "src/pydrex/mock.py")
    decl_file = d / "decl.json"
    decl_file.write_text(json.dumps(decl))
    res = run_tlc("Params", workers=WORKERS, timeout=300, env={"C19_DECL_FILE": decl_file})
    cases = parse_printed_json(res.output, "CASE")
    n_cls, n_f = len(decl["classes"]), len(decl["order"])
    want = n_cls * n_f + 2 * n_f + 2
    if len(cases) != want:
        raise MachineryError(f"Params.tla emitted {len(cases)} cases, expected {want}")
    chk.add_tlc("Params", res, f"{n_cls} classes x {n_f} fields (declarations read from the source with ast) + frozen/hash/round-trip cases of the root record")
    rep = ParamsReplayer(pd, decl)
    import pydrex.mock

    # every class the mock module publishes must be in the table (the quantifier is 'all presets')
    published = [n for n, o in vars(pydrex.mock).items() if isinstance(o, type) and issubclass(o, rep.cls(decl["root"])) and o.__module__ == "pydrex.mock"]
    missing = sorted(set(published) - set(decl["classes"]))
    if missing:
        raise MachineryError(f"presets not found by the ast extraction: {missing}")
    for c in cases:
        rep.replay(c, chk)
        if c["kind"] == "value":
            chk.count(("value", c["cls"], c["field"]), nontrivial=bool(c["own"]))
        else:
            chk.count((c["kind"], c.get("field"), c.get("op")))
    chk.sample(dict(kind="preset-value", case=next(c for c in cases if c["kind"] == "value" and c["differs"])))
    chk.cov["params"] = dict(classes=decl["classes"], declaration_styles=style, non_field_declarations_ignored={k: v for k, v in ignored.items() if v})
    # ---- negative controls: a wrong expectation must be flagged by each replayer branch
    probe = Check("C19", tier, dry=True)
    base = next(c for c in cases if c["kind"] == "value" and c["cls"] == decl["root"] and c["field"] == "gbm_mobility")
    rep.replay(dict(base, expected="126"), probe)
    chk.control("params-wrong-expected-value-flagged", len(probe.violations) == 1)
    probe = Check("C19", tier, dry=True)
    fz = next(c for c in cases if c["kind"] == "frozen")
    rep.replay(dict(fz, outcome="accepted"), probe)
    chk.control("params-wrong-frozen-outcome-flagged", len(probe.violations) == 1)
    probe = Check("C19", tier, dry=True)
    rt = next(c for c in cases if c["kind"] == "roundtrip")
    rep.replay(dict(rt, expected=dict(rt["expected"], number_of_grains="1")), probe)
    chk.control("params-wrong-round-trip-flagged", len(probe.violations) == 1)
    return decl


def main(tier):
    chk = Check("C19", tier)
    pd = quiet_pydrex()
    with scratch("c19-") as d:
        run_params(chk, pd, d, tier)
    return chk.finish(rule="presets x fields", exhaustive=True)
