"""X07 (extension, not one of the listed properties) - CRSS table, peridotite solidus fits and the upper-triangle mirror
follow spec/Materials.tla.

Spec:  Materials.tla - get_crss over every (phase, fabric) ordinal pair 0..2 x 0..6 (documented table in the documented
       slip-system order, everything else refused), peridotite_solidus for the two polynomial fits in exact rationals
       at half-integer pressures 0 .. 10 GPa (unsupported / misspelt fit names refused), upper_tri_to_symmetric on
       243 integer matrices; lemmas CrssShape, SolidusLemma (concave; the fits agree within 40 K up to 5 GPa),
       MirrorLemma checked by TLC on every case.
Bind:  every case TLC emits is replayed into the real function; tables and mirrors exactly, the solidus to 1e-12
       relative (the only rounding is the evaluation of a quadratic in binary64).
"""
from fractions import Fraction

import numpy as np

from harness.common import Check, MachineryError, parse_printed_json, quiet_pydrex, run_tlc

INF = 999999


def main(tier):
    chk = Check("X07", tier)
    res = run_tlc("Materials", "Materials", workers=2, timeout=300)
    chk.add_tlc("Materials", res, "every case: CrssShape, SolidusLemma, MirrorLemma")
    cases = parse_printed_json(res.output, "CASE")
    if len(cases) != 369:
        raise MachineryError(f"{len(cases)} cases instead of 369")
    pd = quiet_pydrex()
    from pydrex import core, minerals, tensors

    kinds = {}
    for rec in cases:
        c, exp, refused = rec["c"], rec["expected"], rec["refused"]
        kinds[c["kind"]] = kinds.get(c["kind"], 0) + 1
        chk.count((c["kind"], str(c)))
        try:
            if c["kind"] == "crss":
                fn = getattr(core.get_crss, "py_func", core.get_crss) if (c["p"] > 1 or c["f"] > 5) else core.get_crss
                args = (core.MineralPhase(c["p"]) if c["p"] <= 1 else c["p"], core.MineralFabric(c["f"]) if c["f"] <= 5 else c["f"])
                got = np.asarray(fn(*args), dtype=float)
            elif c["kind"] == "solidus":
                got = float(minerals.peridotite_solidus(c["P"] / 2.0, fit=c["fit"]))
            else:
                a = np.array(c["a"], dtype=float)
                keep = a.copy()
                got = np.asarray(tensors.upper_tri_to_symmetric(a), dtype=float)
                if not np.array_equal(a, keep):
                    chk.violation(dict(fn="upper_tri_to_symmetric", clause="argument-modified"), f"upper_tri_to_symmetric changed its argument {keep.tolist()}", dict(case=c))
            out = "returned"
        except ValueError as ex:
            got, out = None, "ValueError"
        except Exception as ex:  # noqa: BLE001
            got, out = None, f"other:{type(ex).__name__}: {ex}"[:120]
        sig = dict(fn=c["kind"], fit=c.get("fit", "-"), phase=c.get("p", "-"))
        if refused:
            if out != "ValueError":
                chk.violation(dict(sig, clause="not-refused"), f"{c}: Materials.tla says ValueError, the call {out}" + ("" if got is None else f" {np.asarray(got).tolist()}"), dict(case=c))
            continue
        if out != "returned":
            chk.violation(dict(sig, clause="raised"), f"{c}: {out}; Materials.tla expects {exp}", dict(case=c))
            continue
        if c["kind"] == "crss":
            want = np.array([np.inf if v == INF else float(v) for v in exp])
            ok = got.shape == want.shape and np.array_equal(got, want)
        elif c["kind"] == "solidus":
            want = float(Fraction(exp[0], exp[1]))
            ok = abs(got - want) <= 1e-12 * abs(want)
            chk.maximum("solidus_rel_dev", abs(got - want) / abs(want))
        else:
            want = np.array(exp, dtype=float)
            ok = got.shape == want.shape and np.array_equal(got, want)
        if not ok:
            chk.violation(dict(sig, clause="value"), f"{c} -> {np.asarray(got).tolist()}; Materials.tla expects {exp}", dict(case=c, expected=exp))
    chk.cov["cases_by_kind"] = kinds
    chk.sample(dict(kind="case", case=cases[0]))
    probe = Check("X07", tier, dry=True)
    chk.control("comparison-detects-a-wrong-table-row", not np.array_equal(np.asarray(core.get_crss(core.MineralPhase.olivine, core.MineralFabric.olivine_B), dtype=float), np.array([1.0, 2.0, 3.0, np.inf])), impl_dependent=True)
    return chk.finish(rule="every case enumerated by TLC replayed", exhaustive=True)
