"""C03 - rates conserve the texture manifold: skew spins, zero net volume change, robustness.

Spec:  DRexKernel.tla lemmas SkewU / SkewV (A^T dA skew coefficient-wise, i.e. for all slip-rate
       powers) on every enumerated case incl. ties, unresolved slip and 'dead' grains;
       DRexRates.AggLemmas via AggGen.tla (zero sum, dead grains, linearity in M* and phi,
       growth sign) over simplex grids and free rational energies; RatesJudge.tla (scenario
       classes for float inputs and the law on recorded measures).
Bind:  every exact case (ties and degenerate ones INCLUDED) is replayed into derivatives - must
       return finite values; growth sign is compared with the spec's exact energies; float
       scenarios per class are recorded as integer measures and judged by TLC.
"""
import json

import numpy as np
from scipy.spatial.transform import Rotation

from harness import kernel, layerb
from harness.common import SEED, Check, MachineryError, cap, parse_printed_json, quiet_pydrex, run_tlc, scratch, write_ndjson

PAR = dict(n=3.5, p=1.5, lam=5.0, M=125.0, phi=0.7)
# parameter programme of the float scenarios: the laws hold for every value of the exponents, in particular where the
# two exponents coincide (p = n: the CRSS drops out of the dislocation density) and at the corners of their ranges
PARS = [PAR, dict(n=2.0, p=2.0, lam=0.0, M=12.5, phi=0.7), dict(n=3.5, p=3.5, lam=5.0, M=125.0, phi=1.0), dict(n=5.0, p=1.0, lam=10.0, M=200.0, phi=0.3), dict(n=1.5, p=1.5, lam=5.0, M=50.0, phi=0.5)]


def measures(core, regime, phase, fabric, A, f, L, par=PAR, growth=None):
    """Integer measures of one derivatives call (and its linearity companions)."""
    n = len(f)
    D = (L + L.T) / 2

    def call(M, phi):
        return core.derivatives(regime, phase, fabric, n, A.copy(), f.copy(), D, L, np.zeros((3, 3)), par["p"], par["n"], par["lam"], M, phi)

    rec = dict(exc="None", finite=True, skew_e12=0, sum_e12=0, deadOK=True, linM_e12=0, linPhi_e12=0, m0OK=True, growMismatch=0)
    try:
        o, df = call(par["M"], par["phi"])
        o2, df2 = call(0.3 * par["M"], par["phi"])   # a non-integer mobility: linear over the reals
        o3, df3 = call(par["M"], 0.5 * par["phi"])
        o0, df0 = call(0.0, par["phi"])
    except Exception as e:  # noqa: BLE001
        rec["exc"] = type(e).__name__
        rec["finite"] = False
        return rec
    if not (np.all(np.isfinite(o)) and np.all(np.isfinite(df)) and o.shape == (n, 3, 3) and df.shape == (n,)):
        rec["finite"] = False
        return rec
    sk = np.einsum("gki,gkj->gij", A, o)
    sk = np.abs(sk + np.transpose(sk, (0, 2, 1))).max()
    rec["skew_e12"] = cap(sk / max(1.0, np.abs(o).max()) * 1e12)
    rec["sum_e12"] = cap(abs(df.sum()) / max(1.0, np.abs(df).sum()) * 1e12)
    rec["deadOK"] = bool(np.all(df[f == 0] == 0))
    s = max(1.0, np.abs(df).max())
    rec["linM_e12"] = cap(np.abs(df2 - 0.3 * df).max() / (0.3 * s) * 1e12)
    rec["linPhi_e12"] = cap(np.abs(df3 - 0.5 * df).max() / s * 1e12)
    rec["m0OK"] = bool(np.all(df0 == 0))
    if growth is not None:
        # growth: array of exact (Ebar - E_g) from the specification; sign must agree where decisive
        decisive = (np.abs(growth) > 1e-9) & (f > 0)
        rec["growMismatch"] = int(np.sum(np.sign(df[decisive]) != np.sign(growth[decisive])))
    return rec


DEAD = {  # an orientation/velocity-gradient pair resolving shear only on the infinite-CRSS system
    "A": (np.eye(3), np.array([[0, 0, 0], [0, 0, 0], [2.0, 0, 0]])),
}


def concretise(sc, rng):
    """(A, f, L) for a scenario class."""
    n = sc["n"]
    ori = sc["ori"]
    L = layerb.FLOWS[sc["flow"]].copy()
    if ori == "generic":
        A = Rotation.random(n, random_state=int(rng.integers(1 << 31))).as_matrix()
    elif ori == "single":
        A = np.repeat(Rotation.random(1, random_state=int(rng.integers(1 << 31))).as_matrix(), n, axis=0)
    elif ori == "mixed":
        A = Rotation.random(n, random_state=int(rng.integers(1 << 31))).as_matrix()
        octa = np.round(Rotation.create_group("O").as_matrix())
        A[1::2] = octa[rng.integers(0, 24, len(A[1::2]))]
    elif ori == "aligned" or ori == "dead":
        octa = Rotation.create_group("O").as_matrix()
        A = octa[rng.integers(0, 24, n)]
        A = np.round(A)
    else:
        delta = float(ori[4:])
        octa = np.round(Rotation.create_group("O").as_matrix())[rng.integers(0, 24, n)]
        pert = Rotation.from_rotvec(rng.normal(size=(n, 3)) * delta).as_matrix()
        A = np.einsum("gij,gjk->gik", pert, octa)
    if ori == "dead":
        # velocity gradient with a single shear component: for some axis-aligned grains only one slip
        # system is resolved, which for some fabrics is the one with infinite CRSS
        i, j = [(0, 1), (0, 2), (1, 2), (1, 0), (2, 0), (2, 1)][int(rng.integers(6))]
        L = np.zeros((3, 3))
        L[i, j] = 2.0
    v = sc["vol"]
    if v == "uniform" or n == 1:
        f = np.full(n, 1.0 / n)
    elif v == "zeros":
        f = rng.random(n)
        f[rng.random(n) < 0.4] = 0.0
        if f.sum() == 0:
            f[0] = 1.0
        f /= f.sum()
    else:
        f = np.full(n, 0.1 / max(1, n - 1))
        f[0] = 0.9
        f /= f.sum()
    return A, f, L


def main(tier):
    chk = Check("C03", tier)
    quick = tier != "thorough"
    cases, res = kernel.generate_cases(tier)
    chk.add_tlc("DRexGen", res, "SkewU/SkewV (all betas), roles, R1 closed form on every case incl. ties / unresolved / dead grains")
    agg = run_tlc("AggGen", "AggGen" if quick else "AggGen_thorough", workers=8, timeout=1800)
    chk.add_tlc("AggGen", agg, "aggregate law: zero sum, dead grains, linearity in M* and phi, growth sign; simplex grid x free rational energies")
    scen_res = run_tlc("RatesJudge", "RatesScen" if quick else "RatesScen_thorough", workers=4, timeout=600)
    chk.add_tlc("RatesScen", scen_res, "float scenario classes: fabric x regime x orientation class x volume class x flow class x size")
    scens = parse_printed_json(scen_res.output, "SCEN")
    quiet_pydrex()
    from pydrex import core

    rng = np.random.default_rng(SEED)
    records = []
    meta = {}
    # ---- exact cases, degenerate ones included
    nflag = 0
    for ci, c in enumerate(cases):
        phase, fabric = kernel.FAB[c["fab"]]
        A, L, f = kernel.case_inputs(c)
        growth = None
        if len(f) > 1 and not kernel.flagged(c) and not c.get("limit"):
            env = dict(PAR)
            for defs in c["defs"]:
                kernel.evalterm.run_program(defs, env)
            ebar = kernel.evalterm.ev(c["ebar"], env)
            growth = np.array([ebar - env[f"E_{g}"] for g in range(1, len(f) + 1)])
        rec = measures(core, c["regime"], phase, fabric, A, f, L, growth=growth)
        rec["id"] = len(records)
        flags = "tie" * any(c["tie"]) + "dead" * any(c["dead"]) + "unresolved" * any(c["unresolved"])
        nflag += bool(flags)
        meta[rec["id"]] = dict(kind="exact", fabric=c["fab"], regime=c["regime"], cls=("dead" if any(c["dead"]) and not any(c["unresolved"]) else ("unresolved" if any(c["unresolved"]) else ("tie" if any(c["tie"]) else "regular"))), case=dict(fab=c["fab"], regime=c["regime"], L=c["L"], As=c["As"], f=c["f"]))
        records.append(rec)
        chk.count(("exact", kernel.case_key(c)))
    chk.cov["exact_cases_with_ties_or_degenerate_grains"] = nflag
    # ---- float scenarios
    per = 1 if quick else 3
    pick = scens
    if quick:
        idx = rng.choice(len(scens), 900, replace=False)
        pick = [scens[i] for i in idx]
    else:
        # every class below 10 000 grains; of the larger sizes (0.1 - 1 s per call) a seeded sample of 150 per size
        small = [s for s in scens if s["n"] < 10000]
        large = {}
        for s in scens:
            if s["n"] >= 10000:
                large.setdefault(s["n"], []).append(s)
        pick = small + [grp[i] for grp in large.values() for i in rng.choice(len(grp), min(150, len(grp)), replace=False)]
    # sizes between the enumerated ones: a seeded draw of grain counts (different seeds visit different counts; an
    # internal switch-over at an unremarkable count - 37, 100, 4633 - is met by the counts on either side of it)
    extra = []
    for j in range(40 if quick else 400):
        base = pick[int(rng.integers(len(pick)))]
        extra.append(dict(base, n=int(rng.integers(3, 6000))))
    pick = list(pick) + extra
    for sc in pick:
        if sc["n"] >= 10000 and sc["ori"] not in ("generic", "mixed", "near1e-12"):
            continue
        for rep in range(per if sc["n"] < 1000 else 1):
            phase, fabric = kernel.FAB[sc["fab"]]
            A, f, L = concretise(sc, rng)
            rec = measures(core, sc["regime"], phase, fabric, A, f, L, par=PARS[len(records) % len(PARS)])
            rec["id"] = len(records)
            meta[rec["id"]] = dict(kind="float", fabric=sc["fab"], regime=sc["regime"], cls=sc["ori"], scen=sc)
            records.append(rec)
            chk.count(("scen", json.dumps(sc, sort_keys=True), rep))
    # ---- every grain count: the cyclic aggregates of the exact cases (harness/sizesweep.py), some copies without volume
    from harness import sizesweep

    nmax = 16384 if quick else 32768
    sweep, table = sizesweep.run(cases, nmax, [PAR], zero_every=7, companions=True)
    for r in sweep:
        rec = dict(exc="None", finite=True, skew_e12=0, sum_e12=0, deadOK=True, linM_e12=0, linPhi_e12=0, m0OK=True, growMismatch=0, id=len(records))
        if "bad" in r:
            rec["finite"] = False
            if r["bad"].startswith("raised-"):
                rec["exc"] = r["bad"][7:]
        else:
            rec.update(skew_e12=cap(r["skew"] * 1e12), sum_e12=cap(r["sum"] * 1e12), deadOK=r["dead_ok"], growMismatch=r["grow_mismatch"],
                       linM_e12=cap(r.get("linM", 0.0) * 1e12), linPhi_e12=cap(r.get("linPhi", 0.0) * 1e12), m0OK=r.get("m0OK", True))
        meta[rec["id"]] = dict(kind="sweep", fabric=r["fab"], regime=r["regime"], cls="cyclic", n=r["n"], base=table[(r["fab"], r["regime"])]["case"])
        records.append(rec)
        chk.count(("sweep", r["n"], r["regime"]))
    chk.cov["size_sweep"] = dict(sizes=f"every grain count 1..{nmax}", regimes=[4, 6], calls=len(sweep), zero_volume_copies="every 7th copy", companions="every third count: linearity in M*, in the phase fraction, M* = 0 (cycling)")
    for r in records:
        for k in ("skew_e12", "sum_e12", "linM_e12", "linPhi_e12"):
            if r["exc"] == "None" and r["finite"]:
                chk.maximum(k, r[k])
    chk.sample(dict(kind="scenario", scen=pick[0], measures=records[len(cases)]))
    chk.sample(dict(kind="exact-case", meta=meta[3], measures=records[3]))

    def judge(recs):
        with scratch() as d:
            path = d / "rates.ndjson"
            write_ndjson(path, recs)
            res = run_tlc("RatesJudge", "RatesJudge", workers=1, env={"TRACE_FILE": str(path)}, timeout=900)
        if f'<<"DONE", {len(recs)}>>' not in res.output:
            raise MachineryError("RatesJudge did not consume all records")
        return parse_printed_json(res.output, "REJECT"), res

    rejects, jres = judge(records)
    chk.add_tlc("RatesJudge", jres, f"{len(records)} recorded calls judged")
    chk.cov["traces_validated_against_impl"] = len(records)
    swept = {}
    for rj in rejects:
        m = meta[rj["id"]]
        if m["kind"] == "sweep":
            for clause in rj["clauses"]:
                swept.setdefault((clause, m["regime"]), []).append(rj["id"])
            continue
        for clause in rj["clauses"]:
            sig = dict(clause=clause, fabric=m["fabric"], cls=m["cls"], kind=m["kind"])
            chk.violation(sig, f"derivatives on a {m['kind']} {m['cls']} case of fabric {m['fabric']}, regime {m['regime']}: {clause}", dict(meta=m, measures=records[rj["id"]]))
    for (clause, regime), ids in sorted(swept.items()):
        sizes = sorted(meta[i]["n"] for i in ids)
        chk.violation(dict(clause="size-sweep-" + clause, regime=regime),
                      f"derivatives on the cyclic aggregate of an exact case: {clause} at {len(sizes)} grain count(s), first {sizes[:8]} (regime {regime})",
                      dict(sizes=sizes[:200], first=dict(meta=meta[ids[0]], measures=records[ids[0]]), how="harness.sizesweep.aggregate(base, n, zero_every=7)"))
    # negative controls
    good = next(r for r in records if r["exc"] == "None" and r["finite"])
    bad = [dict(good, id=0, skew_e12=5000), dict(good, id=1, sum_e12=2000), dict(good, id=2, deadOK=False), dict(good, id=3, exc="ZeroDivisionError"), dict(good, id=4, growMismatch=1), dict(good, id=5)]
    rj, _ = judge(bad)
    got = {r["id"]: set(r["clauses"]) for r in rj}
    chk.control("judge-rejects-corrupted-measures", got.get(0) == {"spin-not-skew"} and got.get(1) == {"volume-rates-do-not-sum-to-zero"} and got.get(2) == {"zero-volume-grain-has-rate"} and got.get(3) == {"raised-ZeroDivisionError"} and got.get(4) == {"growth-sign"} and 5 not in got, str(got))
    return chk.finish(
        rule="exact cases from DRexGen (all, including ties and degenerate grains) + float scenarios per TLC-enumerated class; distinct by case / class and repetition",
        exhaustive=False,
    )
