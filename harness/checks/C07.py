"""C07 - null forcing leaves the texture unchanged; unsupported regimes are rejected.

Spec:  DispatchDef/DispatchTable (exhaustive decision table, kernel and Mineral level),
       PyDRex (Layer B: UpdateOk / UpdateRejected / UpdatePhaseAbsent, FailureAtomic,
       NullForcing), MineralTrace (Layer C).
Bind:  table -> replay at both API levels; simulated behaviours -> replay (abstract state
       after every call) ; the same executions recorded -> validated by TLC.
"""
import json
import numpy as np

from harness import layerb
from harness.common import SEED, Check, MachineryError, parse_printed_json, quiet_pydrex, run_tlc, scratch


def _texture(n, seed):
    from scipy.spatial.transform import Rotation

    return Rotation.random(n, random_state=seed).as_matrix(), np.full(n, 1.0 / n)


KFLOWS = ("gen3d", "zero", "rot", "pure_xy")   # incl. flows that resolve no shear on any grain


def replay_kernel_entry(core, e, chk, flow="gen3d"):
    r, p, f = e["r"], e["p"], e["f"]
    n = 3
    o, fr = _texture(n, 11)
    if flow == "pure_xy":   # axis-aligned grains in an axis-aligned pure shear: every slip invariant vanishes
        o = np.repeat(np.eye(3)[None], n, axis=0)
    L = layerb.FLOWS[flow]
    D = (L + L.T) / 2
    try:
        do, df = core.derivatives(r, p, f, n, o, fr, D, L, np.zeros((3, 3)), 1.5, 3.5, 5.0, 125.0, 1.0)
        out = "returned"
    except Exception as ex:  # noqa: BLE001
        out = "raised:" + type(ex).__name__
    cls = e["cls"]
    sig = None
    if cls == "reject" and out == "returned":
        sig = dict(level="kernel", clause="unsupported-returned-numbers", regime=r, phase=p, fabric=f, flow=flow)
    elif cls in ("null", "diffusion", "texture") and out != "returned":
        sig = dict(level="kernel", clause="accepted-entry-raised", regime=r, phase=p, fabric=f, exc=out)
    elif cls == "null" and out == "returned":
        if np.abs(do).max() != 0 or np.abs(df).max() != 0:
            sig = dict(level="kernel", clause="null-regime-nonzero-rates", regime=r)
    elif out == "returned" and not (np.all(np.isfinite(do)) and np.all(np.isfinite(df)) and do.shape == (n, 3, 3) and df.shape == (n,)):
        sig = dict(level="kernel", clause="accepted-entry-not-finite", regime=r, phase=p, fabric=f)
    if sig:
        chk.violation(sig, f"derivatives(regime={r}, phase={p}, fabric={f}) -> {out}; table class {cls}", dict(entry=e))
    return out


def replay_mineral_entry(pd, e, chk, flow="ss_xz"):
    r, p, f, asm, cb = e["r"], e["p"], e["f"], e["asm"], e["cb"]
    m = pd.Mineral(phase=p, fabric=f, regime=r, n_grains=3, seed=5)
    par = dict(M=125, chi=3, asm=asm, phiOl=7, x=[5, 0])
    params = layerb.make_params(par)
    L = layerb.FLOWS[flow]
    o0, f0 = [layerb.sha(x) for x in m.orientations], [layerb.sha(x) for x in m.fractions]
    try:
        m.update_orientations(params, np.eye(3), lambda t, x: L, (0.0, 0.1, lambda t: np.zeros(3)), get_regime=None if cb == layerb.NOCB else (lambda t, x: cb))
        out = "None"
    except Exception as ex:  # noqa: BLE001
        out = layerb.exc_class(ex)
    o1, f1 = [layerb.sha(x) for x in m.orientations], [layerb.sha(x) for x in m.fractions]
    cls = e["cls"]
    eff = r if cb == layerb.NOCB else cb
    sig = None
    if out != "None" and (o1 != o0 or f1 != f0):
        sig = dict(level="mineral", clause="failed-update-touched-history", cls=cls, exc=out)
    elif out == "None" and (o1[:-1] != o0 or f1[:-1] != f0 or len(o1) != 2):
        sig = dict(level="mineral", clause="accepted-update-not-append-only", cls=cls)
    elif cls == "reject" and out == "None":
        sig = dict(level="mineral", clause="unsupported-accepted", regime=eff, phase=p, fabric=f, flow=flow)
    elif cls in ("null", "diffusion", "texture") and out != "None":
        sig = dict(level="mineral", clause="accepted-entry-raised", cls=cls, regime=eff, phase=p, fabric=f, exc=out)
    elif cls == "null" and out == "None":
        if o1[-1] != o0[-1] or np.abs(m.fractions[-1] - m.fractions[0]).max() > 1e-12:
            sig = dict(level="mineral", clause="null-regime-changed-texture", regime=eff)
    if sig:
        chk.violation(sig, f"Mineral(phase={p}, fabric={f}, regime={r}).update(asm={asm}, cb={cb}) -> {out}; table class {cls}", dict(entry=e))
    return out


def main(tier):
    chk = Check("C07", tier)
    quick = tier != "thorough"
    # ---- 1. exhaustive decision table
    res = run_tlc("DispatchTable", workers=4, timeout=300)
    chk.add_tlc("DispatchTable", res, "regimes -1..9 x phases -1..2 x fabrics -1..6 (x assemblages x callbacks)")
    entries = parse_printed_json(res.output, "ENTRY")
    if len(entries) < 5000:
        raise MachineryError(f"dispatch table incomplete: {len(entries)} entries")
    # ---- 2. exhaustive Layer-B machine: FailureAtomic, NullForcing, AppendOnly over all reachable states
    mc = run_tlc("PyDRexMC", workers=16, timeout=1500, coverage=not quick)
    chk.add_tlc("PyDRexMC", mc, "2 minerals, 4 dispatch-class configs, MaxOps=5; FailureAtomic, NullForcing, AppendOnly, RoundTrip")
    if not quick:
        dead = [a for a, (d, t) in (mc.coverage or {}).items() if t == 0]
        if dead:
            raise MachineryError(f"actions never taken in PyDRexMC: {dead}")
    pd = quiet_pydrex()
    from pydrex import core

    # ---- 3. replay the table
    kern = [e for e in entries if e["level"] == "kernel"]
    minr = [e for e in entries if e["level"] == "mineral"]
    if quick:
        rng = np.random.default_rng(SEED)
        keep = [e for e in minr if e["cb"] == layerb.NOCB and e["asm"] in ([0, 1], [e["p"]])]
        extra = [minr[i] for i in rng.choice(len(minr), 300, replace=False)]
        minr = keep + extra
    outs = {}
    for e in kern:
        for flow in KFLOWS:
            out = replay_kernel_entry(core, e, chk, flow)
            chk.count(("k", e["r"], e["p"], e["f"], flow))
            outs[e["cls"] + "/" + out.split(":")[0]] = outs.get(e["cls"] + "/" + out.split(":")[0], 0) + 1
    chk.sample(dict(kind="kernel-table-entry", entry=kern[37]))
    for i, e in enumerate(minr):
        flow = ("ss_xz", "zero", "rot")[i % 3]   # the table class does not depend on the flow
        out = replay_mineral_entry(pd, e, chk, flow)
        chk.count(("m", e["r"], e["p"], e["f"], tuple(e["asm"]), e["cb"], flow))
        k = "M:" + e["cls"] + "/" + out
        outs[k] = outs.get(k, 0) + 1
    chk.sample(dict(kind="mineral-table-entry", entry=minr[11]))
    # negative control: a table entry with a flipped class must be flagged
    probe = Check("C07", tier, dry=True)
    fake = dict(next(e for e in kern if e["cls"] == "reject"), cls="texture")
    replay_kernel_entry(core, fake, probe)
    chk.control("flipped-table-class-detected", len(probe.violations) == 1, impl_dependent=True)

    # ---- 4. simulated behaviours -> replay -> trace validation
    num = 150 if quick else 2500
    behs, sim = layerb.generate_behaviours("PyDRexC07", "PyDRexC07", num, 10, SEED + 1)
    chk.add_tlc("PyDRexC07(simulate)", sim, f"{num} random behaviours of depth 8")
    # the workflow machine adds bulk updates refused part-way and calls with non-callable arguments
    fbehs, fsim = layerb.generate_behaviours("PyDRexFlow", "PyDRexFaultSim", 60 if quick else 1200, 12, SEED + 2)
    chk.add_tlc("PyDRexFlow(simulate)", fsim, "workflow behaviours incl. UpdateBadArgs (non-callable velocity gradient / position), UpdateAllPartial and client faults (UpdateFaulted / UpdateAllFaulted: a callable of the client raises at the first evaluation, mid-interval or late)")
    fault_mc = run_tlc("PyDRexFlow", "PyDRexFault", workers=6, timeout=900)
    chk.add_tlc("PyDRexFlow(client faults)", fault_mc, "workflow machine with UpdateFaulted / UpdateAllFaulted: FailureAtomic, AppendOnly, RefinesLaws (refinement to the TLAPS-proved history laws) over all reachable states, 4 calls")
    behs = behs + fbehs
    comp = layerb.Comparator()
    events = []
    with scratch() as d:
        for tid, b in enumerate(behs):
            sub = d / f"b{tid}"
            sub.mkdir()
            # interval classes: the default strain increment 0.2 per call, a long single call (strain 2.6: many solver
            # steps, and anything that splits large increments into passes) and a very short one
            layerb.replay_behaviour(b, sub, comp, tid, events, dt=(None, 2.6, None, 0.05, None)[tid % 5])
            chk.count(("beh", json.dumps([s["act"] for s in b[1:]], sort_keys=True)))
        chk.sample(dict(kind="behaviour", calls=[s["act"] for s in behs[0][1:]]))
        for prop, clause, detail in comp.mismatches:
            if prop != "C07":
                chk.skip(f"foreign-mismatch-{prop}-{clause}")
                continue
            act = detail.get("act", {})
            sig = dict(level="replay", clause=clause, action=act.get("a"), flow=act.get("fl"), got=detail.get("got") if clause == "outcome" else None)
            chk.violation(sig, f"Layer-B replay: {clause}: {json.dumps(detail, default=str)[:300]}", detail)
        rejects, tr = layerb.validate_trace(events, d)
        chk.add_tlc("MineralTrace", tr, f"{len(events)} recorded calls")
        chk.cov["traces_validated_against_impl"] += len(behs)
        chk.sample(dict(kind="trace-event", event=events[min(3, len(events) - 1)]))
        c07_clauses = ("update-accepted-where-spec", "update-raised", "failed-update-touched-history", "wrong-error-class", "null-forcing-changed-content", "client-fault-swallowed", "client-fault-changed-the-mineral")
        for tid, line, clause in rejects:
            if clause.startswith(c07_clauses):
                ev = events[line - 1]
                sig = dict(level="trace", clause=clause.split("-where")[0], flow=ev.get("fl"), regime=ev["obs"].get(ev.get("m"), {}).get("cfg", {}).get("regime") if "m" in ev else None)
                chk.violation(sig, f"trace spec rejected call {line} of trace {tid}: {clause}", dict(event=ev))
            else:
                chk.skip("foreign-reject-" + clause)
        # negative control: rewrite history in a recorded trace -> must be rejected
        bad = json.loads(json.dumps(events))
        idx = next((i for i, e in enumerate(bad) if e["ev"] == "Update" and e["exc"] == "None" and len(e["obs"][e["m"]]["odig"]) >= 2), None)
        if idx is not None:
            bad[idx]["obs"][bad[idx]["m"]]["odig"][0] = "deadbeefdeadbeef"
            rj, _ = layerb.validate_trace(bad[: idx + 1], d)
            chk.control("rewritten-history-rejected", any(c == "history-rewritten" for _, _, c in rj), str(rj[:3]), impl_dependent=True)
        idx = next((i for i, e in enumerate(bad) if e["ev"] == "Update" and e["exc"] == "ValueError"), None)
        if idx is not None:
            ev = bad[idx]
            ev["obs"][ev["m"]]["odig"].append("feedfeedfeedfeed")
            ev["obs"][ev["m"]]["fdig"].append("feedfeedfeedfeed")
            ev["obs"][ev["m"]]["nf"] += 1
            rj, _ = layerb.validate_trace(bad[: idx + 1], d)
            chk.control("failed-update-touching-history-rejected", any(c == "failed-update-touched-history" for _, _, c in rj), str(rj[:3]), impl_dependent=True)
    chk.cov["table_outcomes"] = outs
    chk.cov["replay_notes"] = comp.notes
    return chk.finish(
        rule="table entries: every (regime, phase, fabric[, assemblage, callback]) of the TLC-enumerated decision table, distinct by tuple; behaviours: distinct call sequences of tlc -simulate on PyDRexC07",
        exhaustive=False,
    )
