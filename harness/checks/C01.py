"""C01 - every stored texture snapshot is a valid texture, after any update history.

Spec:  PyDRex.tla (AppendOnly, one snapshot per accepted update, ShapeOK - model-checked in
       PyDRexMC), PyDRexC01 (scenario generator over every accepted (phase, fabric, regime),
       flow / texture / grain-count / parameter / partition classes), MineralTrace.tla (the
       validity law: finite, non-negative volumes summing to 1, entries in [-1, 1], right-handed,
       orthonormal within budget(N, strain) evaluated on the machine's own N and strain;
       earlier snapshots unchanged by digest; exactly one new snapshot per update).
Bind:  TLC-simulated histories are executed on real minerals; every call is recorded with the
       projected state and integer measures and validated by TLC against the trace spec.
"""
import json

import numpy as np

from harness import layerb
from harness.common import SEED, Check, MachineryError, quiet_pydrex, run_tlc

DTS = [0.2, 0.1, 0.05, 0.4, 0.02]  # partition classes: strain increment per call
# deformation gradient the history starts from: identity, or the gradient accumulated by a long earlier
# history (pure shear to a natural strain of 16 in a rotated frame: entries of order 1e7)
_Q = np.array([[2, -1, 2], [2, 2, -1], [-1, 2, 2]]) / 3.0
F0S = [None, None, _Q @ np.diag([np.exp(16.0), np.exp(-16.0), 1.0]) @ _Q.T]


def size_sweep(chk, sizes):
    """(Grain counts up to 10 000: the documented working range of the default banded Jacobian - minerals.py says the
    default bandwidth "should work for up to 10000 grains"; beyond ~11 900 grains the solver refuses its work array.)
    Every grain count of `sizes`: a 'replica' texture (grain i a copy of grain i mod 3), two updates, every call
    judged by MineralTrace.tla (validity law + copies of one grain stay bit-identical)."""
    from harness.common import scratch

    fabs = [(0, 0), (0, 1), (0, 2), (0, 3), (0, 4), (1, 5)]
    flows = ["gen3d", "ss_xz", "pure_xy", "trace", "stop"]
    events = []
    with scratch() as d:
        for n in sizes:
            phase, fabric = fabs[n % 6]
            par = dict(M=(125, 50, 200)[n % 3], chi=(3, 0)[(n // 3) % 2], asm=[phase], phiOl=10, x=[5, 0])
            w = layerb.World(d, dt=(0.2, 0.05)[n % 2])
            acts = [dict(a="Create", m="a", c=dict(phase=phase, fabric=fabric, regime=(4, 6)[(n // 2) % 2], n=n), seed=n, tex="replica")]
            acts += [dict(a="UpdateOk", m="a", fl=flows[(n + k) % len(flows)], par=par, cb=layerb.NOCB) for k in range(2)]
            for act in acts:
                lens_before = {name: len(m.orientations) for name, m in w.minerals.items()}
                err = w.do(act)
                ev = w.event(n, act, err, lens_before)
                ev["disk"] = {}
                events.append(ev)
                chk.count(("sweep", n, len(events)))
                if err != "None":
                    break
        rejects, tr = layerb.validate_trace(events, d)
    chk.add_tlc("MineralTrace(size sweep)", tr, f"{len(events)} recorded calls, grain counts {sizes[0]}..{sizes[-1]} ({len(sizes)} counts)")
    chk.cov["traces_validated_against_impl"] = chk.cov.get("traces_validated_against_impl", 0) + len(sizes)
    chk.cov["size_sweep"] = dict(grain_counts=len(sizes), first=sizes[0], last=sizes[-1], texture="replica (copies of three grains)")
    seen = set()
    for e in events:
        if e["ev"] == "Update" and e["exc"] != "None" and ("raised", e["exc"]) not in seen:
            seen.add(("raised", e["exc"]))
            chk.violation(dict(level="size-sweep", clause="update-raised", exc=e["exc"]), f"an update of a valid mineral with {e['obs']['a']['cfg']['n']} grains raised {e['exc']}", dict(kind="size-sweep", n=e["tid"]))
    by = {}
    for tid, line, clause in rejects:
        if clause.startswith(layerb.TRACE_CLAUSES["C01"]):
            by.setdefault(clause, []).append(tid)
        else:
            chk.skip("foreign-reject-" + clause)
    for clause, tids in sorted(by.items()):
        chk.violation(dict(level="size-sweep", clause=clause), f"trace spec rejected updates of 'replica' textures: {clause} at {len(tids)} grain count(s), first {sorted(tids)[:8]}",
                      dict(kind="size-sweep", sizes=sorted(tids)[:200], how="Mineral(n_grains=n, orientations = three generic rotations repeated cyclically, equal volumes), two updates"))


def main(tier):
    # a quarter of this check's worlds keep a debug log through pydrex.io.logfile_enable (a handler listening at DEBUG)
    layerb.World.debug_log = True
    chk = Check("C01", tier)
    quick = tier != "thorough"
    mc = run_tlc("PyDRexMC", workers=16, timeout=1500)
    chk.add_tlc("PyDRexMC", mc, "Layer-B machine, all reachable states: AppendOnly (one snapshot per update, earlier ones untouched), ShapeOK, FailureAtomic")
    pd0 = quiet_pydrex()
    # call history of the process: some other client code has already run a coarse "preview" update with loose solver
    # options (documented pass-through keywords).  Options given to one call are that call's: every update below relies
    # on the defaults and is judged against the stated budget.
    try:
        pd0.Mineral(phase=0, fabric=0, regime=4, n_grains=5, seed=3).update_orientations(
            layerb.make_params(dict(M=125, chi=3, asm=[0], phiOl=10, x=[5, 0])), np.eye(3), lambda t, x: layerb.FLOWS["ss_xz"], (0.0, 0.2, lambda t: np.zeros(3)), rtol=5e-2, atol=5e-2)
    except Exception:  # noqa: BLE001 - the preview itself is not judged
        pass
    # (content terms double with every update: histories of 40 calls made TLC's output and heap grow to tens of GB;
    #  long histories are covered by the dedicated 13-update runs below and by C17's 33..128-snapshot traces)
    num = 50 if quick else 320
    depth = 14 if quick else 20
    # the simulation config bounds behaviours by MaxOps; thorough uses longer histories
    if quick:
        behs, sim = layerb.generate_behaviours("PyDRexC01", "PyDRexC01", num, depth, SEED + 101)
    else:   # tlc -simulate draws `num` behaviours per worker: four workers, a quarter each
        behs, sim = layerb.generate_behaviours("PyDRexC01", "PyDRexC01_thorough", num // 4, depth, SEED + 101, workers=4, timeout=3000)
    chk.add_tlc("PyDRexC01(simulate)", sim, f"{num} random update histories")
    nlong = 8 if quick else 80
    longs, lsim = layerb.generate_behaviours("PyDRexC01", "PyDRexC01_long", nlong, 16, SEED + 102)
    chk.add_tlc("PyDRexC01_long(simulate)", lsim, f"{nlong} long single-mineral histories (13 updates, M* 125/200, chi = 0): grains shrink towards zero volume")
    seeds, sres = layerb.enumerate_behaviours("PyDRexC01", "PyDRexC01_seed", workers=4)
    chk.add_tlc("PyDRexC01_seed", sres, "every ordered pair of default constructions over seeds {0, 1, 2, 12345} x grain counts x phases: equal (seed, n) must give bit-identical initial textures")
    nshort = len(behs)
    behs = behs + longs + seeds
    events, comp = layerb.run_behaviours(chk, "C01", behs, fcheck=False, dt_of=lambda tid: DTS[tid % len(DTS)] if tid < nshort else 0.4, F0_of=lambda tid: F0S[tid % len(F0S)],
                                         # clock origins: an update over [T, T + dt] is an update over dt, whatever the size of T
                                         # (model time in years or seconds, clocks that count down to the present)
                                         origin_of=lambda tid: (0.0, 0.0, 3.2e4, 0.0, 0.0, -1.7e5, 0.0)[tid % 7] if tid < nshort else 0.0)
    rs = np.random.default_rng(SEED + 1)
    # larger counts: seeded draws below the switch to the banded Jacobian (4632 grains), and (thorough tier) ONE count above it (the
    # banded work array of the solver grows to several GB - at 10 000 grains a single update held 21 GB resident)
    size_sweep(chk, list(range(1, 401 if quick else 1501)) + sorted({int(x) for x in rs.integers(401, 4633, size=8 if quick else 24)}) + ([] if quick else [4700]))
    # coverage of the discrete classes actually exercised
    seen = dict(triples=set(), flows=set(), textures=set(), ns=set(), pars=set())
    for b in behs:
        cfgs = {}
        for s in b[1:]:
            a = s["act"]
            if a["a"] == "Create":
                seen["textures"].add(a["tex"])
                seen["ns"].add(a["c"]["n"])
                cfgs[a["m"]] = a["c"]
            elif a["a"] == "UpdateOk":
                c = s["cfg"][a["m"]]
                seen["triples"].add((c["phase"], c["fabric"], c["regime"]))
                seen["flows"].add(a["fl"])
                seen["pars"].add((a["par"]["M"], a["par"]["chi"], tuple(a["par"]["x"])))
    chk.cov["classes_exercised"] = {k: len(v) for k, v in seen.items()}
    chk.cov["triples_exercised"] = sorted(map(list, seen["triples"]))
    if not quick and len(seen["triples"]) < 30:
        raise MachineryError(f"only {len(seen['triples'])} of 30 (phase, fabric, accepted regime) triples exercised")
    upd = [e for e in events if e["ev"] == "Update" and e["exc"] == "None"]
    tainted = set()
    for e in events:
        if e["ev"] == "Create":
            tainted.discard((e["tid"], e["m"]))
        if e["ev"] == "Update" and e["exc"] == "None":
            ob = e["obs"][e["m"]]
            if ob["cfg"]["regime"] == 1:
                tainted.add((e["tid"], e["m"]))
            if (e["tid"], e["m"]) not in tainted:
                chk.maximum("ortho_e9_outside_known_finding", ob["v"]["ortho_e9"])
                chk.cov["updates_outside_known_finding"] = chk.cov.get("updates_outside_known_finding", 0) + 1
            chk.maximum("sumDev_e15", ob["v"]["sumDev_e15"])
    chk.sample(dict(kind="history", calls=[s["act"] for s in behs[0][1:]]))
    if upd:
        chk.sample(dict(kind="trace-event", event=upd[len(upd) // 2]))

    # negative controls on the trace specification
    def over_budget(bad):
        for i, e in enumerate(bad):
            if e["ev"] == "Update" and e["exc"] == "None":
                e["obs"][e["m"]]["v"]["ortho_e9"] = 900000000
                return i + 1
        return None

    cl = layerb.corrupt_and_validate(events, over_budget)
    chk.control("orthonormality-over-budget-rejected", cl is not None and "orthonormality-beyond-budget" in cl, str(cl), impl_dependent=True)

    def negative_volume(bad):
        for i, e in enumerate(bad):
            if e["ev"] == "Update" and e["exc"] == "None":
                e["obs"][e["m"]]["v"]["minFneg"] = True
                return i + 1
        return None

    cl = layerb.corrupt_and_validate(events, negative_volume)
    chk.control("negative-volume-rejected", cl is not None and "negative-volume" in cl, str(cl), impl_dependent=True)

    def rewritten(bad):
        for i, e in enumerate(bad):
            if e["ev"] == "Update" and e["exc"] == "None" and len(e["obs"][e["m"]]["odig"]) >= 3:
                e["obs"][e["m"]]["fdig"][1] = "0000000000000000"
                return i + 1
        return None

    cl = layerb.corrupt_and_validate(events, rewritten)
    if cl is not None:
        chk.control("rewritten-snapshot-rejected", "history-rewritten" in cl, str(cl), impl_dependent=True)

    def two_snapshots(bad):
        for i, e in enumerate(bad):
            if e["ev"] == "Update" and e["exc"] == "None":
                o = e["obs"][e["m"]]
                o["odig"].append("1111111111111111")
                o["fdig"].append("1111111111111111")
                o["nf"] += 1
                return i + 1
        return None

    cl = layerb.corrupt_and_validate(events, two_snapshots)
    chk.control("two-snapshots-per-update-rejected", cl is not None and "not-one-snapshot-per-update" in cl, str(cl), impl_dependent=True)
    return chk.finish(
        rule="update histories drawn by tlc -simulate from PyDRexC01 (distinct call sequences), strain increment per call cycling over 0.2/0.1/0.05/0.4/0.02; every call judged by MineralTrace.tla",
        exhaustive=False,
    )
