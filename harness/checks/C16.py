"""C16 - SCSV save/read round trip is lossless; invalid schemas and data are refused.

Spec:  Scsv.tla (decision model).  TLC proves the lemmas (RoundTripLemma, MarkerUnambiguous,
       DomainNecessary, ValidLemma, NaturalLemma, SingleFaultLemma, TerseLemma) over every
       enumerated state and prints
         * one CELLS table per (type, fill class, missing-marker class): for every value class
           whether it is representable, whether it must / may / must not be written as the
           missing marker, and the class that has to be read back;
         * every valid schema case (expected outcome "roundtrip", terse-expressible or not);
         * every single-fault case (faulty schema + data shape, the one broken clause,
           expected outcome "SCSVError", which producers can express it).
Bind:  each abstract case is concretised here (seeded): delimiter / marker / name / fill /
       cell classes -> concrete strings, Python ints up to 10**30, floats incl. subnormals,
       NaN, +-inf, -0.0, random bit patterns, complex numbers, booleans; columns as lists or
       numpy arrays.  The real pydrex.io.save_scsv / read_scsv / parse_scsv_schema run in a
       scratch directory; names, order and typed values are compared exactly (NaN-aware) with
       the classes the spec expects, the saved file is inspected for the missing marker, fault
       cases must raise pydrex.exceptions.SCSVError (through the dict schema, the terse schema
       and - for schema faults - a hand-written file given to read_scsv).
       No expected value is computed here: "equal to the fill", "read back as", "refused" all
       come from the TLC output.
Every failing case is delta-minimised over the abstract features (fields, cells, delimiter,
marker, name, fill, form, container, producer) so that the violation signature names only
the features that are needed to make it fail.
"""
import copy
import csv
import json
import numbers
import os
import random
import struct
import zlib

import numpy as np
import yaml

from harness.common import SEED, Check, MachineryError, parse_printed_json, client_logging, quiet_pydrex, run_tlc, scratch

NAN = float("nan")
INF = float("inf")

DEF_DELIM, DEF_MARK, DEF_NAME = "comma", "dash", "ascii"
# the plainest field of each type and a cell that differs from its fill (used by the minimiser)
DEF_FIELD = {
    "string": dict(type="string", fa="plain", fb="-", form="text"),
    "integer": dict(type="integer", fa="g1", fb="-", form="native"),
    "float": dict(type="float", fa="g1", fb="-", form="native"),
    "boolean": dict(type="boolean", fa="absent", fb="-", form="absent"),
    "complex": dict(type="complex", fa="g1", fb="g2", form="native"),
}
DEF_CELL = {"string": ["plain2", "-"], "integer": ["g2", "-"], "float": ["g2", "-"], "boolean": ["true", "-"], "complex": ["g2", "g1"]}

ORDER = {
    "string": ["plain2", "plain", "empty", "dash", "word", "slashed", "numeric", "innerspace", "hash", "unicode", "squote",
               "hasdelim", "hasquote", "leadquote", "hasboth", "nullword", "tilde", "boolword", "intcanon", "numnoncanon", "nanword",
               "yamlsyntax", "yamlcomment", "fence", "backslash", "padded", "multiline"],
    "integer": ["g2", "g1", "zero", "one", "neg", "m999", "big", "big2", "negbig", "edge"],
    "float": ["g2", "g1", "intval", "zero", "negzero", "nan", "inf", "ninf", "subnormal", "minnormal", "huge", "frac", "e22", "bits"],
    "boolean": ["true", "false"],
    "part": ["g2", "g1", "zero", "negzero", "nan", "inf"],
}
GENERIC = {("string", "plain2"), ("integer", "g2"), ("float", "g2"), ("float", "bits")}

DELIMS = {"comma": ",", "semicolon": ";", "tab": "\t", "pipe": "|", "colon": ":", "space": " ", "squote": "'"}
LETTER_DELIMS = "xXjJ07Zqk"  # characters that occur in none of the fixed marker strings below
STR_CHOICES = {
    "empty": [""],
    "dash": ["-"],
    "word": ["NA", "NIL", "n.a.", "none"],
    "slashed": ["N/A"],
    "numeric": ["-999"],
    "innerspace": ["n a", "not available"],
    "hash": ["#"],
    "unicode": ["é", "日本語", "ñandú", "Ωμέγα", "∅"],
    "squote": ["it's", "l'eau", "o'clock"],
    "hasquote": ['q"r', 'a""b', 'say "hi"'],
    "leadquote": ['"', '""', '"x'],
    "nullword": ["null", "Null", "NULL"],
    "tilde": ["~"],
    "boolword": ["yes", "no", "true", "false", "on", "off", "Yes", "TRUE", "On"],
    "intcanon": ["42", "7", "-3", "0"],
    "numnoncanon": ["042", "1.50", "1_000", "0x1F", ".5", "1:30", "1.5e+3", "+7"],
    "nanword": ["NaN"],
    "yamlsyntax": ["a: b", "[x", "{x", "'q", '"dq', "*a", "!a", "%a", "@a", "`a", "- a", "? a"],
    "yamlcomment": ["a #b", "#c", "|", ">"],
    "fence": ["---"],
    "backslash": ["a\\b", "\\n", "\\"],
    "blank": [" "],
    "padded": [" x", "x ", "\tx"],
    "multiline": ["a\nb", "a\rb"],
}
NAME_CHOICES = {
    "mixed": ["Col_1", "x2_Y", "T_max", "vP"],
    "unicode": ["größe", "ϕ", "名前", "température"],
    "underscore": ["_x", "__d__", "_1"],
    "keyword": ["class", "def", "for", "lambda", "import"],
    "yamlword": ["yes", "no", "on", "off", "null", "true", "false"],
    "spaced": ["a b", "col 1"],
    "leadingdigit": ["1x", "2nd"],
    "hyphen": ["a-b", "x-1"],
    "emptyname": [""],
}
TERSE_CHAR = {"string": "s", "integer": "i", "float": "f", "boolean": "b", "complex": "c"}


def bits(x):
    return struct.pack("<d", float(x))


def same_float(exp, got):
    return (exp != exp and got != got) or bits(exp) == bits(got)


def same_value(t, exp, got):
    """Exact typed comparison, NaN-aware; numpy scalars of the right kind are accepted."""
    if t == "string":
        return isinstance(got, str) and got == exp
    if t == "integer":
        return isinstance(got, numbers.Integral) and not isinstance(got, (bool, np.bool_)) and int(got) == exp
    if t == "float":
        return isinstance(got, numbers.Real) and not isinstance(got, numbers.Integral) and same_float(exp, float(got))
    if t == "boolean":
        return isinstance(got, (bool, np.bool_)) and bool(got) == exp
    if t == "complex":
        return (
            isinstance(got, numbers.Complex)
            and not isinstance(got, numbers.Real)
            and same_float(exp.real, complex(got).real)
            and same_float(exp.imag, complex(got).imag)
        )
    raise MachineryError(f"unknown type {t}")


def fkey(f):
    return (f["type"], f["fa"], f["fb"])


class Conc:
    """Seeded map from abstract classes to concrete values; one instance per evaluated case.
    Every class is drawn once per case (same class = same value) from its own random stream
    seeded by (VERIF_SEED, case salt, class), so that the minimiser, which edits the abstract
    case but keeps its salt, sees the same concrete strings and numbers again."""

    def __init__(self, abstract):
        self.salt = abstract.get("salt")
        if self.salt is None:
            self.salt = zlib.crc32(json.dumps([abstract["delim"], abstract["missing"], abstract["fields"]], sort_keys=True).encode())
        d = abstract["delim"]
        self.delim = DELIMS[d] if d in DELIMS else self._rng("delim").choice(LETTER_DELIMS)
        self.rng = self._rng("misc")
        self.memo = {}
        self.used_strings = {}
        self.used_names = set()
        self.name_streams = {}

    def _rng(self, *key):
        return random.Random(f"{SEED}|{self.salt}|{key!r}")

    # ---- strings
    def _word(self, r):
        while True:
            w = "".join(r.choice("bcdfghklprstvwz") + r.choice("aeiou") for _ in range(r.randint(2, 4)))
            if self.delim not in w:
                return w

    def string(self, cls, avoid_delim=False):
        k = ("s", cls)
        if k in self.memo:
            return self.memo[k]
        d = self.delim
        r = self._rng("s", cls)
        for _ in range(400):
            if cls in ("plain", "plain2"):
                s = self._word(r)
            elif cls == "hasdelim":
                s = r.choice([f"p{d}q", f"ab{d}{d}c", f"x{d}y"])
            elif cls == "hasboth":
                s = r.choice([f'"{d}"', f'a"{d}b'])
            elif cls == "isdelim":
                s = d
            else:
                s = r.choice(STR_CHOICES[cls])
            if avoid_delim and d in s:
                continue
            if s not in self.used_strings or self.used_strings[s] == cls:
                break
        else:  # pragma: no cover
            raise MachineryError(f"cannot draw a distinct string for class {cls}")
        self.used_strings[s] = cls
        self.memo[k] = s
        return s

    def marker(self, cls):
        """A missing marker of the class.  It avoids the delimiter unless every string of the class
        contains it (the spec calls those pairs invalid by nature)."""
        if cls in ("isdelim", "hasdelim"):
            return self.string(cls)
        return self.string(cls, avoid_delim=any(self.delim not in c for c in STR_CHOICES[cls]))

    def name(self, cls):
        r = self.name_streams.setdefault(cls, self._rng("n", cls))
        for _ in range(400):
            n = "c" + self._word(r) if cls == "ascii" else r.choice(NAME_CHOICES[cls])
            if n not in self.used_names:
                self.used_names.add(n)
                return n
        raise MachineryError(f"cannot draw a distinct name of class {cls}")  # pragma: no cover

    # ---- numbers
    def _part(self, a):
        k = ("p", a)
        if k not in self.memo:
            r = self._rng("p", a)
            self.memo[k] = {"g1": lambda: r.uniform(-1e3, 1e3), "g2": lambda: r.uniform(1e3, 2e3) * 10.0 ** r.randint(-12, 12),
                            "zero": lambda: 0.0, "negzero": lambda: -0.0, "nan": lambda: NAN, "inf": lambda: INF}[a]()
        return self.memo[k]

    def value(self, t, a, b="-"):
        if t == "string":
            return self.string(a)
        if t == "complex":
            return complex(self._part(a), self._part(b))
        k = (t, a)
        if k in self.memo:
            return self.memo[k]
        r = self._rng(t, a)
        if t == "boolean":
            v = a == "true"
        elif t == "integer":
            v = {
                "zero": lambda: 0, "one": lambda: 1, "g1": lambda: r.randint(2, 999), "g2": lambda: r.randint(1000, 10**6),
                "neg": lambda: r.choice([-r.randint(2, 998), -r.randint(1000, 10**6)]), "m999": lambda: -999,
                "big": lambda: r.randint(10**29, 10**30), "big2": lambda: r.randint(10**18, 10**29 - 1),
                "negbig": lambda: -r.randint(10**20, 10**30),
                "edge": lambda: r.choice([2**63, 2**63 - 1, -(2**63), -(2**63) - 1, 2**31, 2**64, 2**53 + 1]),
            }[a]()
        elif t == "float":
            v = {
                "g1": lambda: r.uniform(-1e3, 1e3), "g2": lambda: -r.uniform(1e3, 2e3) * 10.0 ** r.randint(-12, 12),
                "intval": lambda: float(r.randint(2, 10**6)), "zero": lambda: 0.0, "negzero": lambda: -0.0, "nan": lambda: NAN,
                "inf": lambda: INF, "ninf": lambda: -INF, "subnormal": lambda: r.randint(1, 2**52 - 1) * 5e-324,
                "minnormal": lambda: 2.2250738585072014e-308, "huge": lambda: r.choice([1.7976931348623157e308, 1e308]),
                "frac": lambda: r.choice([0.1, 0.3, 1 / 3, 2 / 3, 0.7]), "e22": lambda: r.choice([1e22, 1e16, 1e-7, 1.5e300, 123456789.12345679]),
                "bits": lambda: self._random_double(r),
            }[a]()
        else:  # pragma: no cover
            raise MachineryError(f"unknown type {t}")
        self.memo[k] = v
        return v

    @staticmethod
    def _random_double(r):
        while True:
            x = struct.unpack("<d", struct.pack("<Q", r.getrandbits(64)))[0]
            if x == x and abs(x) != INF and 1e-300 < abs(x):
                return x

    def fresh(self, t, avoid):
        """Another generic value of the type (for long columns), different from the fill."""
        r = self.rng
        while True:
            v = {"string": lambda: self._word(r), "integer": lambda: r.randint(-(10**12), 10**30), "float": lambda: self._random_double(r)}[t]()
            if v != avoid and not (t == "string" and v in self.used_strings):
                return v

    # ---- fills
    def fill_object(self, f):
        """The object put under 'fill' in the schema dictionary."""
        t, form = f["type"], f["form"]
        v = self.value(t, f["fa"], f["fb"])
        r = self._rng("fill", t, f["fa"], f["fb"], form)
        if form == "native":
            if t == "float" and v != v:
                return r.choice([NAN, np.nan])
            return v
        # text form
        if t == "string":
            return v
        if t == "boolean":
            return "" if not v else "yes"
        if t == "integer":
            return r.choice([str(v), "+" + str(v)]) if v > 0 else str(v)
        if t == "float":
            if v != v:
                return r.choice(["NaN", "nan"])
            return repr(v)
        if t == "complex":
            if f["fa"] == "nan" and f["fb"] == "zero":
                return r.choice(["NaN", "nan", str(v)])
            return r.choice([str(v), str(v).strip("()")])
        raise MachineryError(f"unknown type {t}")  # pragma: no cover


class Built:
    pass


def cell_order(t, rows):
    if t == "complex":
        return sorted(rows, key=lambda c: (ORDER["part"].index(c["a"]), ORDER["part"].index(c["b"])))
    return sorted(rows, key=lambda c: ORDER[t].index(c["a"]))


def table_rows(tables, f, marker):
    m = marker if (f["type"], f["fa"], f["fb"], marker) in tables else DEF_MARK
    try:
        return tables[(f["type"], f["fa"], f["fb"], m)]
    except KeyError:
        raise MachineryError(f"no CELLS table for {fkey(f)} / marker {marker}") from None


UNIT_TEXT = {"word": "percent", "ratio": "m/s", "apostrophe": "Pa's", "parenquote": "arcmin (')", "spaced": "kg m", "numberlike": "10"}


def schema_dict(conc, s):
    """Concrete schema dictionary of an abstract schema (keys may be missing, names may be bad)."""
    sch = {}
    if "delimiter" in s["keys"]:
        sch["delimiter"] = conc.delim
    if "missing" in s["keys"]:
        sch["missing"] = conc.marker(s["missing"])
    names = []
    fields = []
    for f in s["fields"]:
        n = conc.name(f["name"])
        names.append(n)
        fd = {"name": n, "type": f["type"]}
        if f["form"] != "absent":
            fd["fill"] = conc.fill_object(f)
        if f.get("unit"):
            fd["unit"] = UNIT_TEXT[f["unit"]]
        fields.append(fd)
    if "fields" in s["keys"]:
        sch["fields"] = fields
    return sch, names


def build(abstract, tables):
    """Abstract case -> concrete schema, columns, expected columns, expected missing flags."""
    conc = Conc(abstract)
    b = Built()
    b.conc = conc
    s = dict(keys=["delimiter", "missing", "fields"], missing=abstract["missing"], fields=abstract["fields"])
    b.schema, b.names = schema_dict(conc, s)
    b.marker = b.schema["missing"]
    sel = abstract.get("cells") or [None] * len(abstract["fields"])
    lists, b.skipped = [], 0
    for f, chosen in zip(abstract["fields"], sel):
        rows = cell_order(f["type"], table_rows(tables, f, abstract["missing"]))
        if chosen is not None:
            rows = [c for c in rows if [c["a"], c["b"]] in chosen]
        b.skipped += sum(1 for c in rows if not c["rep"])
        lists.append([c for c in rows if c["rep"]])
    b.cells = lists
    if any(len(x) == 0 for x in lists):
        b.empty = True
        return b
    b.empty = False
    n = max(len(x) for x in lists)
    n = max(n, int(abstract.get("rows", 0)))
    # several columns: the ROW is what the reader sees, so every combination of a cell class of one column with a
    # cell class of another occurs in some row (mixed-radix enumeration of the product, when it is small enough)
    prod = 1
    for x in lists:
        prod *= len(x)
    cross = len(lists) >= 2 and prod <= 1500
    strides = []
    if cross:
        n, acc = max(n, prod), 1
        for x in lists:
            strides.append(acc)
            acc *= len(x)
    b.nrows = n
    b.data, b.expected, b.flags, b.classes = [], [], [], []
    use_np = abstract.get("np") or [False] * len(lists)
    for ci, (f, cl, asnp) in enumerate(zip(abstract["fields"], lists, use_np)):
        t = f["type"]
        fillv = conc.value(t, f["fa"], f["fb"]) if f["fa"] != "absent" else {"string": "", "boolean": False}.get(t)
        col, exp, flg, cls = [], [], [], []
        for j in range(n):
            c = cl[(j // strides[ci]) % len(cl)] if cross and j < prod else cl[j % len(cl)]
            if j >= (prod if cross else len(cl)) and (t, c["a"]) in GENERIC:
                v = conc.fresh(t, fillv)
                e = v
            else:
                v = conc.value(t, c["a"], c["b"])
                e = conc.value(t, c["ea"], c["eb"])
            col.append(v)
            exp.append(e)
            flg.append(c["miss"])
            cls.append([c["a"], c["b"]])
        if asnp and t in ("float", "complex", "boolean"):
            # typed ndarray column, or (every other such column) an OBJECT-dtype array holding the same Python values
            # (what a data-frame column hands over)
            col = np.array(col, dtype=object) if (abstract.get("salt", 0) + ci) % 2 else np.array(col)
        b.data.append(col)
        b.expected.append(exp)
        b.flags.append(flg)
        b.classes.append(cls)
    return b


def terse_string(schema):
    """The terse one-line notation of a complete schema dictionary, or None if it cannot say it."""
    d, m = schema["delimiter"], schema["missing"]
    if d in ("d", "m", ":") or m == "" or "m" in m or ":" in m or "m" in d:
        return None
    out = f"d{d}m{m}:"
    for f in schema["fields"]:
        if any(ch in f["name"] for ch in "():") or "unit" in f:     # the notation has no place for a unit
            return None
        spec = TERSE_CHAR[f["type"]]
        if "fill" in f:
            if not isinstance(f["fill"], str) or any(ch in f["fill"] for ch in "():"):
                return None
            spec += ":" + f["fill"]
        out += f"{f['name']}({spec})"
    return out


def raw_cells(path, delim, nf, n):
    """The cell texts of the saved file's CSV part (None if the layout cannot be recognised)."""
    with open(path, newline="") as fh:
        lines = fh.read().split("\n")
    fences = [i for i, ln in enumerate(lines) if ln == "---"]
    if len(fences) < 2:
        return None
    body = lines[fences[1] + 1 :]
    while body and body[-1] == "":
        body.pop()
    try:
        rows = list(csv.reader(body, delimiter=delim))
    except csv.Error:
        return None
    rows = rows[1:]
    if len(rows) != n or any(len(r) != nf for r in rows):
        return None
    return rows


def exc_label(e):
    """Exception class name; every PyYAML error is one class (the parser has a dozen)."""
    return "YAMLError" if isinstance(e, yaml.YAMLError) else type(e).__name__


def fail(kind, **kw):
    d = dict(kind=kind, stage=None, exc=None, field=None, cell=None)
    d.update(kw)
    return d


class Bench:
    """The implementation under test plus a scratch file."""

    def __init__(self, pd, workdir):
        from pydrex import io as pio
        from pydrex.exceptions import SCSVError

        self.pio = pio
        self.SCSVError = SCSVError
        self.path = os.path.join(str(workdir), "case.scsv")
        self.evaluations = 0

    def clean(self):
        if os.path.exists(self.path):
            os.unlink(self.path)


_CALLS = [0]


def evaluate(bench, abstract, tables, tamper=None):
    """One valid case under the client's logging configuration of the moment (common.client_logging)."""
    _CALLS[0] += 1
    with client_logging(_CALLS[0]):
        return _evaluate(bench, abstract, tables, tamper)


def evaluate_fault(bench, case, tables, producer, unfaulted=False):
    """One fault case under the client's logging configuration of the moment: a refusal does not depend on how
    verbose the client wants the library's logger to be."""
    _CALLS[0] += 1
    with client_logging(_CALLS[0]):
        return _evaluate_fault(bench, case, tables, producer, unfaulted)


def _evaluate(bench, abstract, tables, tamper=None):
    """Run one valid case.  Returns (failures, built); failures == [] means the property held."""
    b = build(abstract, tables)
    if b.empty:
        return None, b
    if tamper:
        tamper(b)
    bench.evaluations += 1
    bench.clean()
    schema = b.schema
    if abstract.get("producer") == "terse":
        ts = terse_string(schema)
        if ts is None:
            return None, b
        b.terse = ts
        try:
            parsed = bench.pio.parse_scsv_schema(ts)
        except Exception as e:  # noqa: BLE001
            return [fail("raised", stage="terse-parse", exc=exc_label(e), msg=str(getattr(e, "message", e))[:200])], b
        if parsed != schema:
            return [fail("terse-schema", got=repr(parsed)[:300], exp=repr(schema)[:300])], b
        schema = parsed
    import copy

    before = copy.deepcopy(b.data)
    try:
        cm = COMMENTS[abstract.get("comments", "none")]
        if cm is None:
            bench.pio.save_scsv(bench.path, schema, b.data)
        else:
            bench.pio.save_scsv(bench.path, schema, b.data, comments=cm)
    except Exception as e:  # noqa: BLE001
        return [fail("raised", stage="save", exc=exc_label(e), msg=str(getattr(e, "message", e))[:200])], b
    # the writer must leave the caller's columns as they were (the same columns may be saved again, e.g. under another
    # schema): compare with the copy taken before the call
    for i, f in enumerate(abstract["fields"]):
        for j in range(b.nrows):
            if not same_value(f["type"], before[i][j], b.data[i][j]):
                return [fail("input-modified", field=i, cell=b.classes[i][j], got=repr(b.data[i][j]), exp=repr(before[i][j]))], b
    nf = len(b.names)
    raw = raw_cells(bench.path, schema["delimiter"], nf, b.nrows)
    try:
        r = bench.pio.read_scsv(bench.path)
    except Exception as e:  # noqa: BLE001
        return [fail("raised", stage="read", exc=exc_label(e), msg=str(getattr(e, "message", e))[:200])], b
    got_names = tuple(getattr(r, "_fields", ()))
    if got_names != tuple(b.names):
        return [fail("names", got=repr(got_names), exp=repr(tuple(b.names)))], b
    try:
        cols = [list(c) for c in r]
    except TypeError:
        return [fail("shape", got="columns are not iterable")], b
    if len(cols) != nf or any(len(c) != b.nrows for c in cols):
        return [fail("shape", got=repr([len(c) for c in cols]), exp=repr([b.nrows] * nf))], b
    out = []
    for i, f in enumerate(abstract["fields"]):
        bad = None
        for j in range(b.nrows):
            if not same_value(f["type"], b.expected[i][j], cols[i][j]):
                bad = fail("value", field=i, cell=b.classes[i][j], got=repr(cols[i][j]), exp=repr(b.expected[i][j]), put=repr(b.data[i][j]))
                break
        if bad is None and raw is not None:
            for j in range(b.nrows):
                is_marker = raw[j][i] == b.marker
                if (b.flags[i][j] == "must" and not is_marker) or (b.flags[i][j] == "never" and is_marker):
                    bad = fail("missing-flag", field=i, cell=b.classes[i][j], stage=b.flags[i][j], got=repr(raw[j][i]), exp=f"{b.flags[i][j]} be the marker {b.marker!r}")
                    break
        if bad:
            out.append(bad)
    return out, b


# --------------------------------------------------------------------------- fault cases


def fault_concrete(case, tables, unfaulted=False):
    """Concrete (schema, data, names, conc) of a fault case, built from the faulty abstract schema
    and data shape printed by TLC."""
    base, ft = case["base"], case["ft"]
    s = base if unfaulted else case["s"]
    d = case["d"]
    abstract = dict(delim=base["delim"], missing=base["missing"], fields=base["fields"],
                    salt=zlib.crc32(json.dumps([base, ft], sort_keys=True).encode()))
    # a handful of representable cells per column (the plain one first)
    sel = []
    for f in base["fields"]:
        rows = [c for c in cell_order(f["type"], table_rows(tables, f, base["missing"])) if c["rep"]]
        sel.append([[c["a"], c["b"]] for c in rows[:4]])
    abstract["cells"] = sel
    b = build(abstract, tables)
    conc = b.conc
    conc.used_names = set()
    schema, names = schema_dict(conc, s)
    data = [list(c) for c in b.data]
    n = b.nrows
    if unfaulted:
        return schema, data, names, b
    nf = len(base["fields"])
    if d["ncols"] > nf:
        data.append([conc.fresh("string", None) for _ in range(n)])
    elif d["ncols"] < nf:
        del data[ft["i"] - 1]
    if d["short"]:
        col = data[d["short"] - 1]
        if d["delta"] == "minus":
            col.pop(conc.rng.randrange(len(col)))
        else:
            col.insert(conc.rng.randrange(len(col) + 1), col[0])
    if d["badf"]:
        t = base["fields"][d["badf"] - 1]["type"]
        bad = {
            "junk": lambda: conc.rng.choice(["abc", "?!", "12abc", "1.5.2", "--3", "x_1", "1 2"]),
            "floattext": lambda: conc.rng.choice([1.5, -0.25, 1e-3]),
            "emptytext": lambda: "",
            "nonetext": lambda: None,
            "booltext": lambda: conc.rng.choice([True, False]),
        }[d["badc"]]()
        if t == "integer" and d["badc"] == "junk":
            bad = conc.rng.choice([bad, "1.5", "1e3", "0x10", "nan"])
        data[d["badf"] - 1][conc.rng.randrange(n)] = bad
    return schema, data, names, b


def write_file_by_hand(path, schema, names, data):
    """An SCSV file in the documented layout (YAML front matter between '---' lines, CSV body)."""
    import yaml

    def plain(v):
        if isinstance(v, (bool, int, str)) or v is None:
            return v
        if isinstance(v, float):
            return float(v)
        return str(v)

    sch = {k: v for k, v in schema.items() if k != "fields"}
    if "fields" in schema:
        sch["fields"] = [{k: plain(v) for k, v in f.items()} for f in schema["fields"]]
    delim = schema.get("delimiter", ",")
    with open(path, "w", newline="") as fh:
        fh.write("---\n")
        fh.write(yaml.safe_dump({"schema": sch}, allow_unicode=True, default_flow_style=False))
        fh.write("---\n")
        w = csv.writer(fh, delimiter=delim, lineterminator="\n")
        w.writerow(names)
        for row in zip(*data):
            w.writerow(row)


def _evaluate_fault(bench, case, tables, producer, unfaulted=False):
    """Run one fault case through one producer.  Returns None if refused with SCSVError,
    else a failure record."""
    schema, data, names, b = fault_concrete(case, tables, unfaulted)
    bench.evaluations += 1
    bench.clean()
    info = dict(schema=repr(schema)[:400], ncols=len(data), lens=[len(c) for c in data])
    try:
        if producer == "dict":
            bench.pio.save_scsv(bench.path, schema, data)
        elif producer == "terse":
            ts = terse_string(schema)
            if ts is None:
                return "inexpressible"
            info["terse"] = ts
            bench.pio.save_scsv(bench.path, bench.pio.parse_scsv_schema(ts), data)
        elif producer == "file":
            write_file_by_hand(bench.path, schema, names, data)
            bench.pio.read_scsv(bench.path)
        else:  # pragma: no cover
            raise MachineryError(producer)
    except bench.SCSVError:
        return None
    except MachineryError:
        raise
    except Exception as e:  # noqa: BLE001
        return fail("fault", got="raised:" + exc_label(e), msg=str(e)[:200], info=info)
    return fail("fault", got="returned", info=info)


def fault_signature(case, producer, f):
    ft = case["ft"]
    sig = {"clause": "fault-not-refused", "fault": ft["f"], "producer": producer, "got": f["got"]}
    if ft["i"]:
        sig["type"] = case["base"]["fields"][ft["i"] - 1]["type"]
    if ft["x"] != "-":
        sig["variant"] = ft["x"]
    return sig


# --------------------------------------------------------------------------- minimiser


def cls_name(c):
    return c[0] if c[1] == "-" else f"{c[0]}/{c[1]}"


def sig_name(c):
    """Class label used in violation signatures: complex classes with a NaN part are one label."""
    if c[1] != "-" and "nan" in c:
        return "nan-in-a-part"
    return cls_name(c)


class Minimiser:
    """Delta-minimisation of a failing abstract case.  Every step replaces one feature by its plain
    default and keeps the replacement if the case still fails in the same way (same kind, stage and
    exception class).  If no replacement of a step keeps the same failure but one still fails in
    another way (another defect masks the first), the simpler case is taken and its failure becomes
    the target: the caller then drops the blamed cell class and explores the original case again,
    so nothing is lost."""

    def __init__(self, bench, tables):
        self.bench = bench
        self.tables = tables
        self.cache = {}
        self.known = []

    def rows(self, f, marker):
        return [c for c in cell_order(f["type"], table_rows(self.tables, f, marker)) if c["rep"]]

    def is_fill_cell(self, f, cell, marker):
        for c in table_rows(self.tables, f, marker):
            if [c["a"], c["b"]] == cell:
                return c["miss"] != "never"
        return False

    @staticmethod
    def same(f, t):
        return f["kind"] == t["kind"] and f["exc"] == t["exc"] and f["stage"] == t["stage"]

    def attribute(self, a, failure):
        """Signature of a failure.  A minimal case found earlier whose features all occur in this case
        is tried first (one evaluation, with this case's concrete values); otherwise minimise."""
        for small, sig, last in self.known:
            if self.same(failure, last) and self.contained(small, last, a, failure):
                cand = dict(copy.deepcopy(small), salt=a.get("salt"))
                fs, _ = evaluate(self.bench, cand, self.tables)
                f = next((x for x in fs or [] if self.same(x, last)), None)
                if f is not None:
                    return sig, cand, f
        sig, small, last = self.minimise(a, failure)
        self.known.append((small, sig, last))
        return sig, small, last

    def contained(self, small, last, a, failure):
        if small["delim"] not in (DEF_DELIM, a["delim"]) or small["missing"] not in (DEF_MARK, a["missing"]):
            return False
        if small.get("producer") == "terse" and a.get("producer") != "terse":
            return False
        if len(small["fields"]) != 1:
            return False
        sf, sc, snp = small["fields"][0], small["cells"][0], small["np"][0]
        acells = a.get("cells") or [None] * len(a["fields"])
        anp = a.get("np") or [False] * len(a["fields"])
        for i, f in enumerate(a["fields"]):
            if failure["field"] is not None and failure["field"] != i:
                continue
            if f["type"] != sf["type"] or (sf["name"] != DEF_NAME and f["name"] != sf["name"]):
                continue
            if fkey(sf) != fkey(DEF_FIELD[sf["type"]]) and (fkey(f) != fkey(sf) or f["form"] != sf["form"]):
                continue
            if snp and not anp[i]:
                continue
            if sc is not None and sc != [DEF_CELL[sf["type"]]]:
                if failure["cell"] is not None and [failure["cell"]] != sc:
                    continue
                have = acells[i] if acells[i] is not None else [[c["a"], c["b"]] for c in self.rows(f, a["missing"])]
                if any(c not in have for c in sc):
                    continue
                if fkey(sf) == fkey(DEF_FIELD[sf["type"]]) and self.is_fill_cell(sf, sc[0], small["missing"]) != self.is_fill_cell(f, sc[0], a["missing"]):
                    continue
            return True
        return False

    def known_matches(self, cand, f):
        from harness.common import _sig_match, load_findings

        if not hasattr(self, "_known"):
            self._known = [k for k in load_findings() if k["property"] == "C16" and k.get("status") == "known"]
        try:
            nf = len(cand["fields"])
            sig = self.signature(cand, f, [True] * nf, [True] * nf)
        except Exception:  # noqa: BLE001
            return []
        return [k for k in self._known if _sig_match(k["signature"], sig)]

    def weakly_in(self, k, cur, f):
        """Is the (larger) case `cur` inside the territory of known finding k?  Like the strict match, except that a
        cell-class key is satisfied when the column CONTAINS a cell of that class (the larger case has many cells per
        column, the listed finding names the one that matters).  Keys are position-suffixed for several fields and
        bare for one field, so a finding about single-column files never covers a case with several columns."""
        try:
            nf = len(cur["fields"])
            sig = self.signature(cur, f, [True] * nf, [True] * nf)
        except Exception:  # noqa: BLE001
            return False
        for key, want in k["signature"].items():
            wants = want if isinstance(want, list) else [want]
            if key.startswith("cell_class"):
                sfx = key[len("cell_class"):]
                if (len(cur["fields"]) > 1) != bool(sfx):
                    return False
                i = int(sfx) - 1 if sfx else 0
                if i >= len(cur["fields"]):
                    return False
                cells = cur["cells"][i]
                if cells is None:
                    continue               # every table row of the column is present
                fd = cur["fields"][i]
                names = {"equals-fill" if self.is_fill_cell(fd, c, cur["missing"]) else sig_name(c) for c in cells}
                if not any(w in names for w in wants):
                    return False
            elif key not in sig or sig[key] not in wants:
                return False
        return True

    def reduction_stays_in_territory(self, cur, cand, f):
        """A smaller failing case that matches a listed known finding may only be adopted when the case it was
        reduced FROM already lay in that finding's territory; otherwise a NEW failure of the larger case would be
        filed under an old finding that merely happens to share its smallest witness."""
        self.known_matches(cand, f)            # loads the list
        ks = [k for k in self._known if self.weakly_in(k, cand, f)]
        return not ks or any(self.weakly_in(k, cur, f) for k in ks)

    def minimise(self, abstract, failure):
        """-> (signature, minimal abstract case, failure on the minimal case)"""
        st = dict(cur=copy.deepcopy(abstract), target=failure, last=failure)
        cur = st["cur"]
        nf = len(cur["fields"])
        cur["cells"] = cur.get("cells") or [None] * nf
        cur["np"] = cur.get("np") or [False] * nf
        cur.pop("rows", None)

        def matches(f):
            return self.same(f, st["target"])

        def first(cands, relaxed=True):
            """Adopt the first candidate that fails in the same way; if none does, the first that
            fails in any way (its failure becomes the target).  One evaluation per candidate."""
            fallback = None
            for cand in cands:
                fs, _ = evaluate(self.bench, cand, self.tables)
                if not fs:
                    continue
                f = next((x for x in fs if matches(x)), None)
                if f is not None and not self.reduction_stays_in_territory(st["cur"], cand, f):
                    # the smaller case fails too, but for a reason that is already a listed finding: adopting it
                    # would file a NEW failure of the larger case under the old finding
                    continue
                if f is not None:
                    st["cur"], st["last"] = cand, f
                    return True
                if fallback is None:
                    fallback = (cand, fs[0])
            if relaxed and fallback is not None:
                st["cur"], st["last"] = fallback
                st["target"] = fallback[1]
                return True
            return False

        def edit(fn):
            c = copy.deepcopy(st["cur"])
            fn(c)
            return c

        def single(i):
            def fn(c):
                c["fields"], c["cells"], c["np"] = [c["fields"][i]], [c["cells"][i]], [c["np"][i]]
            return edit(fn)

        def without(i):
            def fn(c):
                for k in ("fields", "cells", "np"):
                    c[k] = [x for j, x in enumerate(c[k]) if j != i]
            return edit(fn)

        if nf > 1:
            lead = failure["field"] if failure["field"] is not None else 0
            if not first((single(i) for i in [lead] + [k for k in range(nf) if k != lead]), relaxed=False):
                # no single column reproduces it: drop columns one at a time while it still fails the same way
                while len(st["cur"]["fields"]) > 1 and first((without(i) for i in reversed(range(len(st["cur"]["fields"])))), relaxed=False):
                    pass
                if len(st["cur"]["fields"]) == nf:
                    first(single(i) for i in [lead] + [k for k in range(nf) if k != lead])
        cur, last = st["cur"], st["last"]
        ckey = json.dumps([cur["delim"], cur["missing"], cur["fields"], cur["cells"], cur["np"], cur.get("producer"),
                           last["kind"], last["stage"], last["exc"], last["cell"]], sort_keys=True)
        if ckey in self.cache:
            sig, small, f = self.cache[ckey]
            return sig, dict(copy.deepcopy(small), salt=cur.get("salt")), f
        # cells: the plain cell first (if it fails alone the cell class is irrelevant), then the cell the
        # failure names, then bisection, then single cells
        for i in range(len(st["cur"]["fields"])):
            cur, last = st["cur"], st["last"]
            f = cur["fields"][i]
            cands = [[c["a"], c["b"]] for c in self.rows(f, cur["missing"])]
            if cur["cells"][i] is not None:
                cands = [c for c in cands if c in cur["cells"][i]]

            def sub(cs, i=i):
                return edit(lambda x: x["cells"].__setitem__(i, list(cs)))

            pref = [c for c in [DEF_CELL[f["type"]]] + ([last["cell"]] if last.get("cell") and last.get("field") == i else []) if c in cands]
            if first((sub([c]) for c in pref), relaxed=False):
                continue
            while len(cands) > 1:
                half = len(cands) // 2
                if first([sub(cands[:half])], relaxed=False):
                    cands = cands[:half]
                elif first([sub(cands[half:])], relaxed=False):
                    cands = cands[half:]
                else:
                    break
            if len(cands) > 1:
                first(sub([c]) for c in cands if c not in pref)
        # producer, container
        if st["cur"].get("producer") == "terse":
            first([edit(lambda x: x.__setitem__("producer", "dict"))], relaxed=False)
        for i in range(len(st["cur"]["fields"])):
            if st["cur"]["np"][i]:
                first([edit(lambda x, i=i: x["np"].__setitem__(i, False))], relaxed=False)
        # delimiter, marker
        if st["cur"]["delim"] != DEF_DELIM:
            first([edit(lambda x: x.__setitem__("delim", DEF_DELIM))])
        if st["cur"]["missing"] != DEF_MARK:
            first(edit(lambda x, m=m: x.__setitem__("missing", m)) for m in (DEF_MARK, "word"))
        n = len(st["cur"]["fields"])
        form_matters = [False] * n
        type_matters = [True] * n
        for i in range(n):
            if st["cur"]["fields"][i]["name"] != DEF_NAME:
                first([edit(lambda x, i=i: x["fields"][i].__setitem__("name", DEF_NAME))])
            cur = st["cur"]
            f = cur["fields"][i]
            dflt = dict(DEF_FIELD[f["type"]], name=f["name"])
            if fkey(f) != fkey(dflt) or f["form"] != dflt["form"]:
                def to_default(x, i=i, f=f, dflt=dflt):
                    x["fields"][i] = dict(dflt)
                    cells = x["cells"][i]
                    if cells and len(cells) == 1 and dflt["fa"] != "absent" and self.is_fill_cell(f, cells[0], x["missing"]):
                        x["cells"][i] = [[dflt["fa"], dflt["fb"]]]  # the cell stays "the fill"

                if not first([edit(to_default)]) and f["form"] in ("native", "text") and f["type"] != "string":
                    other = "text" if f["form"] == "native" else "native"
                    if not first([edit(lambda x, i=i, other=other: x["fields"][i].__setitem__("form", other))], relaxed=False):
                        form_matters[i] = True
            # is the type needed?  (the same failure with a plain column of another type)
            cur = st["cur"]
            f = cur["fields"][i]
            cells = cur["cells"][i]
            plain = fkey(f) == fkey(DEF_FIELD[f["type"]]) and cells is not None and len(cells) == 1
            if plain and (cells[0] == DEF_CELL[f["type"]] or self.is_fill_cell(f, cells[0], cur["missing"])):
                other = "integer" if f["type"] == "string" else "string"

                def retype(x, i=i, other=other, eq=cells[0] != DEF_CELL[f["type"]]):
                    x["fields"][i] = dict(DEF_FIELD[other], name=x["fields"][i]["name"])
                    x["cells"][i] = [[DEF_FIELD[other]["fa"], DEF_FIELD[other]["fb"]]] if eq else [DEF_CELL[other]]

                fs, _ = evaluate(self.bench, edit(retype), self.tables)
                if fs and any(matches(x) for x in fs):
                    type_matters[i] = False
        cur, last = st["cur"], st["last"]
        sig = self.signature(cur, last, form_matters, type_matters)
        self.cache[ckey] = (sig, cur, last)
        return sig, cur, last

    def blamed_cells(self, small):
        """(type, cell class) pairs the minimal case needs: dropping them from the original case
        lets the caller look for further, masked failures."""
        out = []
        for f, cells in zip(small["fields"], small["cells"]):
            if cells is not None and len(cells) == 1 and cells[0] != DEF_CELL[f["type"]]:
                out.append((f["type"], cells[0]))
        return out

    def signature(self, cur, f, form_matters, type_matters):
        clause = {"value": "cell-value-not-restored", "raised": "valid-roundtrip-raised", "names": "field-names-not-restored",
                  "shape": "column-shape-not-restored", "terse-schema": "terse-schema-parse", "input-modified": "save-modified-the-callers-data",
                  "missing-flag": "fill-cell-not-written-as-marker" if f["stage"] == "must" else "other-cell-written-as-marker"}[f["kind"]]
        sig = {"clause": clause}
        if f["kind"] == "raised":
            sig["stage"], sig["exc"] = f["stage"], f["exc"]
        if cur["delim"] != DEF_DELIM:
            sig["delimiter"] = cur["delim"]
        if cur["missing"] != DEF_MARK:
            sig["missing"] = cur["missing"]
        if cur.get("producer") == "terse":
            sig["producer"] = "terse"
        many = len(cur["fields"]) > 1
        if many:
            sig["nfields"] = len(cur["fields"])
        for i, fd in enumerate(cur["fields"]):
            sfx = str(i + 1) if many else ""
            if fd["name"] != DEF_NAME:
                sig["name_class" + sfx] = fd["name"]
            if type_matters[i]:
                sig["type" + sfx] = fd["type"]
            if fkey(fd) != fkey(DEF_FIELD[fd["type"]]):
                sig["fill_class" + sfx] = sig_name([fd["fa"], fd["fb"]])
            if form_matters[i]:
                sig["fill_form" + sfx] = fd["form"]
            cells = cur["cells"][i]
            if cells is not None and len(cells) == 1 and self.is_fill_cell(fd, cells[0], cur["missing"]):
                sig["cell_class" + sfx] = "equals-fill"
            elif cells is not None and len(cells) == 1 and cells[0] != DEF_CELL[fd["type"]]:
                sig["cell_class" + sfx] = sig_name(cells[0])
            if cur["np"][i]:
                sig["container" + sfx] = "numpy"
        return self.relabel(sig, cur, f)

    def relabel(self, sig, cur, f):
        """One root cause, one clause: a string field's fill is written unquoted into the YAML header."""
        if len(cur["fields"]) != 1 or cur["fields"][0]["type"] != "string" or "fill_class" not in sig:
            return sig
        if any(k in sig for k in ("missing", "name_class", "producer", "container")):
            return sig
        extra = {"delimiter": sig["delimiter"]} if "delimiter" in sig else {}

        b = build(cur, self.tables)
        fill = b.schema["fields"][0].get("fill")
        try:
            loaded = yaml.safe_load("x: " + fill)["x"]
            yaml_error = False
        except yaml.YAMLError:
            loaded, yaml_error = None, True
        except Exception:  # noqa: BLE001
            return sig
        if f["kind"] == "value" and sig.get("cell_class") == "equals-fill":
            if not yaml_error and not (isinstance(loaded, str) and loaded == fill) and f["got"] == repr(str(loaded)):
                return dict({"clause": "string-fill-retyped-by-yaml", "fill_class": sig["fill_class"], "effect": "read-back-differs"}, **extra)
            return dict({"clause": "string-fill-not-restored", "fill_class": sig["fill_class"]}, **extra)
        if f["kind"] == "raised" and f["stage"] == "read" and f["exc"] == "YAMLError" and yaml_error and "cell_class" not in sig:
            return dict({"clause": "string-fill-retyped-by-yaml", "fill_class": sig["fill_class"], "effect": "header-unreadable"}, **extra)
        return sig


# --------------------------------------------------------------------------- main


def load_model(tier, chk):
    cfg = "Scsv" if tier != "thorough" else "Scsv_thorough"
    res = run_tlc("Scsv", cfg, workers=8, timeout=900)
    recs = parse_printed_json(res.output, "CASE")
    tables, valid, faults, natural = {}, [], [], []
    for r in recs:
        k = r["kind"]
        if k == "cells":
            f = r["f"]
            tables[(f["type"], f["fa"], f["fb"], r["m"])] = r["cells"]
        elif k == "valid":
            valid.append(r)
        elif k == "fault":
            faults.append(r)
        elif k == "natural":
            natural.append(r)
    if len(recs) != res.distinct or not tables or not valid or not faults:
        raise MachineryError(f"TLC output incomplete: {len(recs)} records for {res.distinct} states")
    chk.add_tlc(
        "Scsv/" + cfg, res,
        f"{len(tables)} CELLS tables (type x fill class x marker class), {len(valid)} valid schemas (1..3 fields), "
        f"{len(natural)} naturally colliding delimiter/marker pairs, {len(faults)} single-fault cases; lemmas RoundTripLemma, "
        "MarkerUnambiguous, DomainNecessary, ValidLemma, NaturalLemma, SingleFaultLemma, TerseLemma",
    )
    for r in valid:
        if r["outcome"] != "roundtrip":
            raise MachineryError("a valid case without outcome roundtrip")
    for r in faults + natural:
        if r["outcome"] != "SCSVError":
            raise MachineryError("a fault case without outcome SCSVError")
    return tables, valid, faults, natural


# comment lines are written above the schema, each prefixed with "# ": they are YAML comments and take no part in
# the round trip, whatever they contain (fence-like text, key: value text, a hash, quotes)
COMMENTS = {"none": None, "empty": [], "plain": ["saved by the harness"], "banner": ["--- generated by a pipeline ---"],
            "yamlish": ["schema: none", "fields: []", "# nested hash", "it's \"quoted\""], "fence-tail": ["ends with ---", "---"]}
COMMENT_SEQ = ["none", "plain", "banner", "none", "yamlish", "fence-tail", "empty", "none"]


def abstract_of(case, producer="dict"):
    s = case["s"]
    a = dict(delim=s["delim"], missing=s["missing"], fields=[{k: f[k] for k in ("name", "type", "fa", "fb", "form", "unit") if k in f} for f in s["fields"]], producer=producer)
    a["salt"] = zlib.crc32(json.dumps(a, sort_keys=True).encode())
    rng = random.Random(f"{SEED}|{a['salt']}|np")
    a["np"] = [f["type"] in ("float", "complex", "boolean") and rng.random() < 0.3 for f in a["fields"]]
    # header comments (the documented optional `comments=` of save_scsv / write_scsv_header): a class per case
    a["comments"] = COMMENT_SEQ[a["salt"] % len(COMMENT_SEQ)]
    return a


def report(chk, mini, abstract, failure):
    sig, small, f = mini.attribute(abstract, failure)
    b = build(small, mini.tables)
    what = f"{sig['clause']}: "
    if f["kind"] in ("value", "missing-flag"):
        what += f"cell {f.get('put', '')} class {cls_name(f['cell'])}: got {f['got']}, expected {f['exp']}; "
    elif f["kind"] == "raised":
        what += f"{f['stage']} raised {f['exc']} ({f.get('msg', '')[:120]!r}); "
    else:
        what += f"got {f.get('got')}, expected {f.get('exp')}; "
    what += f"schema {b.schema!r}"
    if not b.empty:
        what += f" data {[list(c)[:6] for c in b.data]!r}"
    replay = dict(kind="valid", abstract=small, seed=SEED, schema=repr(b.schema), data=None if b.empty else repr([list(c) for c in b.data]),
                  terse=terse_string(b.schema) if small.get("producer") == "terse" else None, failure={k: v for k, v in f.items() if k != "info"})
    chk.violation(sig, what[:600], replay)
    return sig, small


def tlc_controls(chk):
    """The model's lemmas have teeth: planted defects in the model must be caught by TLC."""
    for cfg, lemma in (("Scsv_mut_complexanynan", "RoundTripLemma"), ("Scsv_mut_ignoremarkercollision", "RoundTripLemma"), ("Scsv_mut_faultnoop", "SingleFaultLemma")):
        res = run_tlc("Scsv", cfg, workers=4, timeout=300, expect_violation=True)
        chk.control("tlc-" + cfg, res.violated == lemma, f"violated={res.violated}")


def replayer_controls(chk, bench, tables, valid, faults):
    """The replayer flags a wrong expectation of every kind it compares.  The controls need cases the
    implementation handles correctly; if it is so broken that none exists (violations were reported),
    the control is noted as not demonstrable instead of failing the machinery."""
    notes = chk.cov.setdefault("controls_not_demonstrable", [])

    def control(name, fired, detail):
        if fired or not (chk.violations or chk.known_hits):
            chk.control(name, fired, detail)
        else:
            notes.append(dict(control=name, detail=detail))

    def passing(pred):
        for c in valid:
            a = abstract_of(c)
            if pred(a):
                fs, b = evaluate(bench, a, tables)
                if fs == []:
                    return a
        return None

    def tampered(name, a, tamper, accept):
        if a is None:
            return control(name, False, "no case of the needed shape passes on this tree")
        fs, _ = evaluate(bench, a, tables, tamper=tamper)
        control(name, bool(fs) and accept(fs[0]), str(fs)[:200])

    a1 = passing(lambda a: len(a["fields"]) == 1 and a["fields"][0]["type"] == "float" and a["fields"][0]["fa"] == "zero" and a["delim"] == "comma" and a["missing"] == "dash")

    def wrong_value(b):  # -0.0 under fill 0.0 must come back as the fill 0.0; pretend the model said -0.0
        b.expected[0][b.classes[0].index(["negzero", "-"])] = -0.0

    tampered("wrong-expected-value-flagged", a1, wrong_value, lambda f: f["kind"] == "value" and f["cell"] == ["negzero", "-"])

    def wrong_flag(b):
        b.flags[0][b.classes[0].index(["g2", "-"])] = "must"

    tampered("wrong-marker-flag-flagged", a1, wrong_flag, lambda f: f["kind"] == "missing-flag")
    a2 = passing(lambda a: len(a["fields"]) == 2 and a["fields"][0]["type"] != a["fields"][1]["type"])

    def wrong_names(b):
        b.names = list(reversed(b.names))

    tampered("wrong-name-order-flagged", a2, wrong_names, lambda f: f["kind"] == "names")
    a3 = passing(lambda a: len(a["fields"]) == 1 and a["fields"][0]["type"] == "integer" and a["fields"][0]["fa"] == "big")

    def wrong_int(b):
        b.expected[0][b.classes[0].index(["big2", "-"])] += 1

    tampered("off-by-one-in-30-digit-integer-flagged", a3, wrong_int, lambda f: f["kind"] == "value")
    # --- a fault case whose fault was not applied must be reported as "not refused"
    fired = tried = 0
    for c in faults:
        if c["skip"] != "-" or tried >= 12:
            continue
        tried += 1
        f = evaluate_fault(bench, c, tables, "dict", unfaulted=True)
        fired += f is not None and f != "inexpressible" and f["got"] == "returned"
    control("unapplied-fault-reported", tried > 0 and fired == tried, f"{fired}/{tried}")
    # --- the minimiser names the planted feature, not a bystander: a reader that chokes on ';' only
    import types

    def picky_read(file):
        with open(file) as fh:
            if "delimiter: ';'" in fh.read():
                raise RuntimeError("planted: cannot read semicolon-separated files")
        return bench.pio.read_scsv(file)

    planted = Bench.__new__(Bench)
    planted.__dict__.update(bench.__dict__)
    planted.pio = types.SimpleNamespace(save_scsv=bench.pio.save_scsv, read_scsv=picky_read, parse_scsv_schema=getattr(bench.pio, "parse_scsv_schema", None))
    a4 = dict(delim="semicolon", missing="word", producer="dict", salt=4, np=[False, True],
              fields=[dict(name="mixed", type="integer", fa="big", fb="-", form="text"), dict(name="ascii", type="float", fa="nan", fb="-", form="native")])
    fs, _ = evaluate(planted, a4, tables)
    sig = Minimiser(planted, tables).minimise(a4, fs[0])[0] if fs else None
    want = {"clause": "valid-roundtrip-raised", "stage": "read", "exc": "RuntimeError", "delimiter": "semicolon"}
    control("minimiser-blames-the-planted-feature-only", sig == want, json.dumps(sig))
    bench.evaluations = planted.evaluations


def main(tier):
    chk = Check("C16", tier)
    quick = tier != "thorough"
    tables, valid, faults, natural = load_model(tier, chk)
    pd = quiet_pydrex()
    sigs = {}
    with scratch("pydrexvp-c16-") as d:
        bench = Bench(pd, d)
        mini = Minimiser(bench, tables)
        have_terse = hasattr(bench.pio, "parse_scsv_schema") and callable(getattr(bench.pio, "parse_scsv_schema", None))
        try:
            bench.pio.parse_scsv_schema("d,m-:a(s)")
        except bench.SCSVError:
            pass
        except Exception:  # noqa: BLE001  (not defined before Python 3.12)
            have_terse = False
        tlc_controls(chk)

        # ---- valid cases: save -> inspect file -> read -> compare
        outcomes = {}

        def run_valid(a, key):
            """One valid case.  When it fails, every failure is minimised and reported; the blamed cell
            classes are then taken out of the columns and the case is run again (at most 6 times), so
            that one defect does not hide the others."""
            a = copy.deepcopy(a)
            first_b = None
            for it in range(6):
                fs, b = evaluate(bench, a, tables)
                if fs is None:
                    if it == 0:
                        chk.skip("terse-notation-cannot-say-it" if not b.empty else "no-representable-cell")
                    break
                if it == 0:
                    first_b = b
                    chk.count(key)
                    if b.skipped:
                        chk.cov["skipped"]["cell-outside-representable-domain"] = chk.cov["skipped"].get("cell-outside-representable-domain", 0) + b.skipped
                    chk.maximum("rows", b.nrows)
                    outcomes["ok" if not fs else "failed"] = outcomes.get("ok" if not fs else "failed", 0) + 1
                if not fs:
                    break
                blamed = []
                for f in fs:
                    sig, small = report(chk, mini, a, f)
                    k = json.dumps(sig, sort_keys=True)
                    sigs[k] = sigs.get(k, 0) + 1
                    blamed += mini.blamed_cells(small)
                if not blamed:
                    break
                a.pop("rows", None)
                cells = a.get("cells") or [None] * len(a["fields"])
                for i, f in enumerate(a["fields"]):
                    cur = cells[i] if cells[i] is not None else [[c["a"], c["b"]] for c in mini.rows(f, a["missing"])]
                    cells[i] = [c for c in cur if (f["type"], c) not in blamed]
                a["cells"] = cells
            return first_b

        for n, c in enumerate(valid):
            a = abstract_of(c)
            key = ("valid", json.dumps(c["s"], sort_keys=True))
            b = run_valid(a, key)
            if n % 997 == 0 and b is not None and not b.empty:
                chk.sample(dict(kind="valid-case", abstract=a, schema=repr(b.schema), first_rows=repr([list(col)[:3] for col in b.data])))
            if c["terse"]:
                if have_terse:
                    run_valid(abstract_of(c, "terse"), ("terse",) + key)
                else:
                    chk.skip("terse-parser-not-defined-on-this-python")
        # ---- long columns (the quantifier goes to 1e4 rows)
        for nrows, flds in ((1500 if quick else 10000, ("string", "float", "integer")), (300 if quick else 3000, ("complex", "boolean", "string"))):
            a = dict(delim="comma", missing="dash", producer="dict", rows=nrows,
                     fields=[dict(DEF_FIELD[t], name="ascii") for t in flds], np=[False, True, False], salt=nrows)
            run_valid(a, ("long", nrows))

        # ---- single faults: must be refused with SCSVError by every producer that can say them
        fault_out = {}
        for n, c in enumerate(faults):
            if c["skip"] != "-":
                chk.skip("fault-leaves-" + c["skip"] + "-(no-row-count)")
                continue
            producers = ["dict"] + (["terse"] if c["terse"] and have_terse else []) + (["file"] if c["file"] else [])
            for p in producers:
                f = evaluate_fault(bench, c, tables, p)
                if f == "inexpressible":
                    chk.skip("terse-notation-cannot-say-it")
                    continue
                chk.count(("fault", p, json.dumps([c["base"], c["ft"]], sort_keys=True)))
                k = f"{c['ft']['f']}/{p}/" + ("refused" if f is None else f["got"])
                fault_out[k] = fault_out.get(k, 0) + 1
                if f is not None:
                    sig = fault_signature(c, p, f)
                    chk.violation(sig, f"fault {c['ft']} via {p} schema: expected SCSVError, {f['got']} {f.get('msg', '')!r}; {f['info']}"[:600],
                                  dict(kind="fault", case=c, producer=p, seed=SEED, info=f["info"]))
                    ks = json.dumps(sig, sort_keys=True)
                    sigs[ks] = sigs.get(ks, 0) + 1
            if n % 499 == 0:
                schema, data, names, _ = fault_concrete(c, tables)
                chk.sample(dict(kind="fault-case", ft=c["ft"], clause=c["clause"], schema=repr(schema)[:300], column_lengths=[len(x) for x in data]))
        for c in natural:
            cc = dict(base=c["s"], s=c["s"], ft=dict(f="delim-in-missing", i=0, x="natural:" + c["s"]["delim"] + "/" + c["s"]["missing"]),
                      d=dict(ncols=len(c["s"]["fields"]), short=0, delta="none", badf=0, badc="-"), skip="-")
            f = evaluate_fault(bench, cc, tables, "dict")
            chk.count(("natural", json.dumps(c["s"], sort_keys=True)))
            k = "natural-delim-in-missing/dict/" + ("refused" if f is None else f["got"])
            fault_out[k] = fault_out.get(k, 0) + 1
            if f is not None:
                sig = {"clause": "fault-not-refused", "fault": "delim-in-missing", "producer": "dict", "got": f["got"], "variant": cc["ft"]["x"]}
                chk.violation(sig, f"marker contains the delimiter by nature ({cc['ft']['x']}): expected SCSVError, {f['got']}; {f['info']}"[:600],
                              dict(kind="fault", case=cc, producer="dict", seed=SEED))
                sigs[json.dumps(sig, sort_keys=True)] = sigs.get(json.dumps(sig, sort_keys=True), 0) + 1
        replayer_controls(chk, bench, tables, valid, faults)
        chk.cov["valid_outcomes"] = outcomes
        chk.cov["fault_outcomes"] = fault_out
        chk.cov["failure_signatures"] = {k: v for k, v in sorted(sigs.items())}
        chk.cov["implementation_calls"] = bench.evaluations
    return chk.finish(
        rule="every case printed by TLC from Scsv.tla: valid schemas = (delimiter class x marker class x 1..3 fields of (type, fill class, fill form, "
        "name class)), each column holding every representable value class of its type (CELLS table), concretised with seeded values; fault "
        "cases = every single fault of every base schema through every producer that can express it; a case is distinct by its abstract record",
        exhaustive=False,
        trusted=["PyYAML / csv are used by the harness only to hand-write faulty files and to look at the saved file's cells"],
    )


def replay(obj):
    """./check C16 --replay <path>: re-run a stored minimal case against the current tree."""
    rp = obj.get("replay") or {}
    if rp.get("seed") not in (None, SEED):
        print(f"REPLAY note: recorded with VERIF_SEED={rp['seed']}; concrete values of the classes differ under VERIF_SEED={SEED}")
    res = run_tlc("Scsv", "Scsv", workers=4, timeout=600)
    recs = parse_printed_json(res.output, "CASE")
    tables = {(r["f"]["type"], r["f"]["fa"], r["f"]["fb"], r["m"]): r["cells"] for r in recs if r["kind"] == "cells"}
    pd = quiet_pydrex()
    with scratch("pydrexvp-c16-") as d:
        bench = Bench(pd, d)
        if rp.get("kind") == "fault":
            f = evaluate_fault(bench, rp["case"], tables, rp["producer"])
            print("REPLAY fault:", "refused with SCSVError" if f is None else f)
            return 0 if f is None else 1
        fs, b = evaluate(bench, rp["abstract"], tables)
        print("REPLAY schema:", b.schema)
        if not b.empty:
            print("REPLAY data:", [list(c) for c in b.data])
        print("REPLAY failures:", fs)
        return 1 if fs else 0
