"""X04 (extension) - the repository's OWN tests, recorded and validated against the Layer-B trace specification.

The pinned tests that drive minerals (simple shear, the 2-D cell, the diffusion-creep cell, the minerals doctests) are
run under a pytest plugin (harness/suite_recorder.py) that wraps the public Mineral calls by attribute replacement and
logs one ndjson event per call with the projected abstract state; TLC validates the log against spec/MineralTrace.tla:
append-only histories, one snapshot per update, failure atomicity, null forcing, and the C01 validity law with the
budget evaluated from the machine's own update count and accumulated strain - on executions whose own assertions only
look at summary statistics.  A known finding of C01 (F2, matrix_diffusion) is announced, not alarmed.
"""
import glob
import json
import os
import subprocess

from harness import layerb
from harness.common import REPO, VERIF, Check, MachineryError, scratch

QUICK = ["tests/test_simple_shear_2d.py", "-k", "zero_recrystallisation or strain_increment"]
MORE = ["tests/test_vortex_2d.py::TestCellOlivineA::test_xz[100]", "tests/test_vortex_2d.py::TestDiffusionCreep::test_cell_olA", "tests/test_doctests.py",
        "-k", "100 or cell_olA or minerals"]
THOROUGH = ["tests/test_simple_shear_2d.py", "tests/test_vortex_2d.py", "tests/test_doctests.py", "-k", "not 5000"]


def record(args, d, timeout):
    env = dict(os.environ, SUITE_TRACE_DIR=str(d), PYTHONPATH=str(VERIF) + (":" + os.environ["PYTHONPATH"] if os.environ.get("PYTHONPATH") else ""))
    p = subprocess.run(["/venv/bin/python", "-m", "pytest", "-q", "-p", "no:cacheprovider", "-p", "harness.suite_recorder", "--timeout=900", *args],
                       cwd=REPO, env=env, capture_output=True, text=True, timeout=timeout)
    tail = (p.stdout.strip().splitlines() or [""])[-1]
    return p.returncode, tail


def main(tier):
    chk = Check("X04", tier)
    quick = tier != "thorough"
    runs = [QUICK, MORE] if quick else [THOROUGH]
    events, nodes, outcomes = [], {}, []
    with scratch() as d:
        for k, args in enumerate(runs):
            sub = d / f"r{k}"
            rc, tail = record(args, sub, 3000)
            outcomes.append(dict(args=args, pytest_exit=rc, summary=tail))
            for f in sorted(glob.glob(str(sub / "suite-*.ndjson"))):
                events += [json.loads(l) for l in open(f)]
            for f in glob.glob(str(sub / "nodes-*.json")):
                nodes.update(json.load(open(f)))
        if not events:
            raise MachineryError(f"no call was recorded: {outcomes}")
        bad_rec = [e for e in events if e["ev"] == "RecorderError"]
        if bad_rec:
            raise MachineryError(f"the recorder failed: {bad_rec[0]}")
        rejects, res = layerb.validate_trace(events, d)
    chk.add_tlc("MineralTrace", res, f"{len(events)} recorded calls of {len({e['tid'] for e in events})} repository tests")
    chk.cov["traces_validated_against_impl"] = len({e["tid"] for e in events})
    chk.cov["pytest_runs"] = outcomes
    for e in events:
        chk.count((e["tid"], len(e["obs"].get(e.get("m"), {}).get("odig", [])), e["ev"]))
    tainted = set()
    for i, e in enumerate(events):
        if e["ev"] == "Update" and e["exc"] == "None" and e["obs"][e["m"]]["cfg"]["regime"] == 1:
            tainted.add((e["tid"], e["m"]))
    chk.findings = [f for f in layerb.__dict__.get("_x04_findings", [])] or [f for f in __import__("harness.common", fromlist=["load_findings"]).load_findings() if f["property"] == "C01"]
    for tid, line, clause in rejects:
        e = events[line - 1]
        sig = dict(level="trace", clause=clause.split("-where")[0], ev=e["ev"], after_matrix_diffusion=(tid, e.get("m")) in tainted)
        if not sig["after_matrix_diffusion"]:
            sig["regime"] = e["obs"].get(e.get("m"), {}).get("cfg", {}).get("regime")
        chk.violation(sig, f"MineralTrace rejected call {line} of {nodes.get(str(tid), tid)} ({e['ev']}): {clause}", dict(event=e, test=nodes.get(str(tid))))
    kinds = {}
    for e in events:
        kinds[e["ev"]] = kinds.get(e["ev"], 0) + 1
    chk.cov["calls_by_kind"] = kinds
    chk.sample(dict(kind="recorded-call", test=nodes.get(str(events[1]["tid"])), event={k: v for k, v in events[1].items() if k != "obs"}))
    # negative control: a rewritten earlier snapshot in the recorded log must be rejected
    def rewrite(bad):
        for i, e in enumerate(bad):
            if e["ev"] == "Update" and len(e["obs"][e["m"]]["odig"]) >= 2:
                e["obs"][e["m"]]["odig"][0] = "0123456789abcdef"
                return i + 1
        return None

    cl = layerb.corrupt_and_validate(events, rewrite)
    chk.control("rewritten-history-in-a-suite-trace-rejected", cl is not None and any(c.startswith("history-rewritten") for c in cl), str(cl), impl_dependent=True)
    return chk.finish(rule="public Mineral calls of the repository's own tests, recorded by attribute replacement and validated by MineralTrace.tla", exhaustive=False)
