"""X06 (extension, not one of the listed properties) - the particle-file extraction pipeline follows spec/H5part.tla.

Spec:  H5part.tla - extract_h5part as a sequence of ExtractParticle steps (one archive triple + one table per particle
       id of Step#0/id, appended in list order) followed by Inspect (the command-line archive inspector); properties
       GrowsOnly, ArchiveAtEnd, NoDuplicateMembers, InspectListsAll and the lemmas LayoutPartition, StepsLemma,
       ShorterLived checked by TLC over every particle file of the configuration (particles, step-number sets incl.
       9 / 10 / 100, per-step row counts, id-list orders, grain counts, archives that already hold client data).
Bind:  every behaviour TLC completes is replayed: the harness builds the real HDF5 file (the symbolic content term
       <<step, particle, component>> interpreted injectively), saves the client's earlier minerals, runs
       pydrex.io.extract_h5part and the NPZFileInspector tool, and compares archive member order, untouched client
       members (byte for byte), every particle's phase / fabric / grain count / snapshot count / every entry of every
       snapshot, and every cell of the per-particle table with the specification's expectation.
"""
import contextlib
import io
import sys
import zipfile

import numpy as np

from harness.common import Check, MachineryError, parse_printed_json, quiet_pydrex, run_tlc, scratch

XYZ = {"x": 101, "y": 102, "z": 103}
PAIRS = [(0, 0), (0, 1), (0, 2), (0, 3), (0, 4), (1, 5)]


def V(s, p, c):
    """Injective interpretation of the content term <<step, particle, component>> (exact in binary64)."""
    return float(s * 100000 + p * 1000 + c) + 0.25


def build(path, f, scramble):
    import h5py

    n = f["n"]
    order = list(range(len(f["steps"])))
    if scramble:
        order = order[::-1]
    with h5py.File(path, "w") as h:
        for k in order:
            s, rows = f["steps"][k], f["len"][k]
            g = h.create_group(f"Step#{s}")
            g["id"] = np.asarray(f["ids"] if s == 0 else list(range(1, rows + 1)), dtype=np.int64)
            for name, c in XYZ.items():
                g[name] = np.array([V(s, p, c) for p in range(1, rows + 1)], dtype=float)
            for c in range(1, 10 * n + 2):
                g[f"CPO_{c}"] = np.array([V(s, p, c) for p in range(1, rows + 1)], dtype=float)


def member_bytes(path):
    with zipfile.ZipFile(path) as z:
        return {i.filename: z.read(i.filename) for i in z.infolist()}, [i.filename for i in z.infolist()]


def replay(case, idx, pd, chk, tmp, alt_order=None):
    """Run one behaviour on the real code.  alt_order (a control) replaces the expected step order."""
    f, pre = case["file"], case["pre"]
    n = f["n"]
    phase, fabric = PAIRS[idx % len(PAIRS)]
    d = tmp / f"c{idx}"
    d.mkdir()
    src, out = d / "particles.h5part", d / "run.npz"
    build(src, f, scramble=idx % 2 == 1)
    sig0 = dict(P=f["P"], steps="x".join(map(str, f["steps"])), n=n)
    rng = np.random.default_rng(idx)
    held = {}
    for q in pre:
        m = pd.Mineral(phase=pd.MineralPhase.olivine, fabric=pd.MineralFabric.olivine_A, n_grains=3, seed=int(rng.integers(1, 99)))
        m.save(str(out), postfix=q)
    if pre:
        held, _ = member_bytes(out)
    chk.count(("extract", str(f), str(pre)))
    try:
        with contextlib.redirect_stderr(io.StringIO()):      # progress bars
            pd.io.extract_h5part(str(src), pd.MineralPhase(phase), pd.MineralFabric(fabric), n, str(out))
    except Exception as ex:  # noqa: BLE001
        chk.violation(dict(clause="extract-raised", exc=type(ex).__name__, **sig0), f"extract_h5part raised {type(ex).__name__}: {ex} on {f}", dict(case=case))
        return
    got, names = member_bytes(out)
    want = [f"{k}_{pf}" for k, pf in case["members"]]
    if names != want:
        chk.violation(dict(clause="archive-members", **sig0), f"archive members {names}, H5part.tla expects {want}", dict(case=case))
        return
    for k, b in held.items():
        if got.get(k) != b:
            chk.violation(dict(clause="client-member-touched", **sig0), f"member {k} saved by the client before the extraction was changed", dict(case=case))
            return
    for e in case["particles"]:
        p, steps = e["p"], (alt_order(e["steps"]) if alt_order else e["steps"])
        try:
            m = pd.Mineral.from_file(str(out), postfix=e["postfix"])
            tab = pd.io.read_scsv(str(d / f"run_{e['postfix']}.scsv"))
        except Exception as ex:  # noqa: BLE001
            chk.violation(dict(clause="readback-raised", exc=type(ex).__name__, **sig0), f"reading particle {p} back raised {type(ex).__name__}: {ex}", dict(case=case))
            return
        facts = dict(phase=int(m.phase), fabric=int(m.fabric), n=int(m.n_grains), snaps=len(m.fractions), osnaps=len(m.orientations))
        wantf = dict(phase=phase, fabric=fabric, n=n, snaps=len(steps), osnaps=len(steps))
        if facts != wantf:
            chk.violation(dict(clause="mineral-facts", **sig0), f"particle {p}: {facts}, expected {wantf}", dict(case=case))
            return
        for t, s in enumerate(steps):
            fr = np.array([V(s, p, c) for c in e["frac"]])
            ori = np.array([[[V(s, p, c) for c in row] for row in g] for g in e["ori"]])
            if not (np.array_equal(np.asarray(m.fractions[t]), fr) and np.array_equal(np.asarray(m.orientations[t]), ori)):
                chk.violation(dict(clause="snapshot-content", **sig0), f"particle {p} snapshot {t} (step {s}) does not hold the components H5part.tla assigns to it", dict(case=case, t=t))
                return
        cols = {k: np.asarray(getattr(tab, k), dtype=float) for k in ("strain", "x", "y", "z")}
        exp = {"strain": np.array([e["factor"] * V(s, p, e["strain"]) for s in steps])}
        exp.update({k: np.array([V(s, p, c) for s in steps]) for k, c in XYZ.items()})
        if tuple(tab._fields) != ("strain", "x", "y", "z") or any(cols[k].shape != exp[k].shape or not np.array_equal(cols[k], exp[k]) for k in exp):
            chk.violation(dict(clause="table-content", **sig0), f"particle {p}: table columns {tab._fields} / values differ from the specification", dict(case=case))
            return
    # Inspect
    argv, buf = sys.argv, io.StringIO()
    try:
        sys.argv = ["npz-inspect", str(out)]
        with contextlib.redirect_stdout(buf):
            pd.cli.NPZFileInspector()()
    except BaseException as ex:  # noqa: BLE001  (argparse exits with SystemExit)
        chk.violation(dict(clause="inspect-raised", exc=type(ex).__name__, **sig0), f"the archive inspector raised {type(ex).__name__}: {ex}", dict(case=case))
        return
    finally:
        sys.argv = argv
    listed = [l[3:] for l in buf.getvalue().splitlines() if l.startswith(" - ")]
    wantl = [f"{k}_{pf}" for k, pf in case["listing"]]
    if listed != wantl:
        chk.violation(dict(clause="inspect-listing", **sig0), f"inspector lists {listed}, expected {wantl}", dict(case=case))


def main(tier):
    chk = Check("X06", tier)
    quick = tier != "thorough"
    res = run_tlc("H5part", "H5part" if quick else "H5part_thorough", workers=8, timeout=1200)
    chk.add_tlc("H5part", res, "every particle file of the configuration: GrowsOnly, ArchiveAtEnd, NoDuplicateMembers, InspectListsAll, LayoutPartition, StepsLemma, ShorterLived")
    cases = parse_printed_json(res.output, "CASE")
    if len(cases) < 500:
        raise MachineryError(f"only {len(cases)} behaviours completed")
    pd = quiet_pydrex()
    import pydrex.cli  # noqa: F401
    import pydrex.io  # noqa: F401

    with scratch("x06-") as tmp:
        for idx, case in enumerate(cases):
            replay(case, idx, pd, chk, tmp)
        chk.cov["traces_validated_against_impl"] = len(cases)
        chk.cov["step_sets"] = sorted({"x".join(map(str, c["file"]["steps"])) for c in cases})
        chk.sample(dict(kind="behaviour", case=cases[len(cases) // 2]))
        # controls: (1) the lexicographic step order (Step#10 before Step#9) is told apart from the numeric one
        probe = Check("X06", tier, dry=True)
        c910 = next((c for c in cases if c["file"]["steps"] == [0, 9, 10] and min(c["file"]["len"]) == c["file"]["P"]), None)
        if c910 is None:
            raise MachineryError("no case with steps 0, 9, 10 all alive")
        replay(c910, 100000, pd, probe, tmp, alt_order=lambda s: sorted(s, key=str))
        chk.control("lexicographic-step-order-detected", len(probe.violations) == 1, impl_dependent=True)
        # (2) a wrong component layout in the expectation is flagged
        probe2 = Check("X06", tier, dry=True)
        bad = {**cases[0], "particles": [{**e, "frac": list(reversed(e["frac"])) if len(e["frac"]) > 1 else [e["strain"]]} for e in cases[0]["particles"]]}
        replay(bad, 100001, pd, probe2, tmp)
        chk.control("wrong-layout-detected", len(probe2.violations) == 1, impl_dependent=True)
    return chk.finish(rule="every behaviour of H5part.tla (one per particle file x earlier archive contents) executed on real files", exhaustive=True)
