"""C06 - the returned deformation gradient is the solution of dF/dt = L.F.

Spec:  DefGrad.tla - closed-form flow maps on exact families (nilpotent, lambda I + N, symmetric,
       skew, time- and position-dependent commuting families, non-commuting piecewise products of
       nilpotent steps), semigroup / determinant / right-equivariance / L.F-vs-F.L lemmas proved by
       TLC in rational arithmetic; DefGradTrace.tla - the budget law 5e-3 + 1e-3 (N + 2 strain)
       evaluated on the machine's own N and accumulated strain.
Bind:  every emitted case is integrated by real minerals (mineral configuration, parameters,
       partition of each step into 1/2/5 calls and assemblage cycling over the cases; update_all
       for (ol), (en), (ol,en), (en,ol)); each call is recorded (relative error against the exact
       solution at step ends, determinant against exp of the integrated trace at every call) and
       judged by TLC.  Velocity gradients without closed form are judged relationally (split vs
       whole, right-equivariance, determinant).
"""
import json

import numpy as np

from harness import evalterm, layerb
from harness.common import SEED, Check, MachineryError, cap, parse_printed_json, quiet_pydrex, run_tlc, scratch, write_ndjson

XVEL = np.array([0.7, -0.2, 0.1])
CONFIGS = [  # (phase, fabric, regime, n_grains, M, chi, lam)
    (0, 0, 4, 8, 125, 3, 5), (0, 1, 4, 3, 0, 0, 5), (0, 2, 6, 8, 200, 9, 0), (0, 3, 4, 2, 10, 3, 50), (0, 4, 6, 20, 125, 3, 5),
    (1, 5, 4, 8, 125, 3, 5), (1, 5, 6, 3, 50, 0, 5), (0, 0, 0, 8, 125, 3, 5), (0, 0, 7, 4, 125, 3, 5), (0, 0, 1, 5, 125, 3, 5),
]
ASMS = [([0], 10), ([1], 10), ([0, 1], 7), ([1, 0], 7)]


def rmat(m):
    return np.array([[x[0] / x[1] for x in row] for row in m], dtype=float)


def solution(step):
    return sum(evalterm.ev(t, {}) * rmat(m) for t, m in step["sol"])


def callables(step, t_off, rate=1.0):
    """velocity gradient callable and pathline for one step starting at absolute time t_off.
    rate = k integrates k M over T / k (constant-g steps only): the flow map is unchanged."""
    M = rmat(step["M"]) * rate
    a = step["g"]["a"][0] / step["g"]["a"][1]
    via = step["g"]["via"]
    if via == "x":
        return (lambda t, x: (1.0 + a * x[0]) * M), (lambda t: XVEL * (t - t_off))
    if via == "t":
        return (lambda t, x: (1.0 + a * (t - t_off)) * M), (lambda t: np.zeros(3))
    if via == "t2":
        return (lambda t, x: (1.0 + a * (t - t_off) ** 2) * M), (lambda t: np.zeros(3))
    if via == "hat":
        P = step["T"][0] / step["T"][1] / 2.0
        return (lambda t, x: (1.0 + a * (1.0 - abs(2.0 * (((t - t_off) / P) % 1.0) - 1.0))) * M), (lambda t: np.zeros(3))
    return (lambda t, x: M), (lambda t: np.zeros(3))


def as_layout(F, layout):
    """The same matrix VALUE in a different memory representation (the library is handed arrays built elsewhere:
    Fortran-ordered results of linear algebra, views into larger state arrays, read-only arrays)."""
    if layout == "fortran":
        return np.asfortranarray(F)
    if layout == "view":                      # non-contiguous view into a larger array
        big = np.zeros((6, 6))
        big[::2, ::2] = F
        return big[::2, ::2]
    if layout == "transposed-view":           # the .T of the C-ordered transpose: same value, F-contiguous view
        return np.ascontiguousarray(F.T).T
    if layout == "readonly":
        G = F.copy()
        G.setflags(write=False)
        return G
    return F


LAYOUTS = ("c", "fortran", "c", "view", "transposed-view", "readonly", "c")


def solver_kwargs(tid, span):
    """Documented pass-through keyword arguments of the update (handed on to scipy's LSODA): none / tighter tolerances /
    an explicit first step / a step-size ceiling / a floor / none after a coarse preview call of another mineral.
    Each of them leaves the statement untouched: the returned F still solves dF/dt = L.F to the stated tolerance."""
    k = tid % 6
    if k == 1:
        return dict(rtol=1e-9, atol=1e-11)
    if k == 2:
        return dict(first_step=abs(span) * 1e-3)
    if k == 3:
        return dict(max_step=abs(span) / 7.0)
    if k == 4:
        return dict(min_step=0.0, rtol=1e-7)
    return {}


def run_case(pd, case, cfg, parts, asm, ev_out, tid, use_update_all=False, rate=1.0, t_origin=0.0, layout="c"):
    phase, fabric, regime, n, M, chi, lam = cfg
    par = dict(M=M, chi=chi, asm=asm[0], phiOl=asm[1], x=[lam, 0])
    params = layerb.make_params(par)
    if use_update_all:
        minerals = [pd.Mineral(phase=p, fabric=0 if p == 0 else 5, regime=4, n_grains=n, seed=tid) for p in asm[0]]
    else:
        if phase not in asm[0]:
            asm = ([phase], 10)
            params = layerb.make_params(dict(par, asm=asm[0], phiOl=10))
        minerals = [pd.Mineral(phase=phase, fabric=fabric, regime=regime, n_grains=n, seed=tid)]
    F = rmat(case["F0"])
    F0 = F.copy()
    F = as_layout(F, layout)      # only the first call sees the client's representation; later calls get what was returned
    detref = np.linalg.det(F0)
    ev_out.append(dict(id=len(ev_out), ev="Start", tid=tid))
    t_abs = t_origin   # the flow maps are functions of elapsed time only: any time origin gives the same solution
    logdet = 0.0
    returned = []      # every returned F with a copy taken at once: a result must not change when later calls are made
    for step in case["steps"]:
        T = step["T"][0] / step["T"][1] / rate
        getL, getx = callables(step, t_abs, rate)
        Msym = rmat(step["M"])
        emax = np.abs(np.linalg.eigvalsh((Msym + Msym.T) / 2)).max()
        tr = step["trace"][0] / step["trace"][1]
        edges = np.linspace(0.0, T, parts + 1)
        for k in range(parts):
            s0, s1 = edges[k], edges[k + 1]
            e = dict(id=len(ev_out), ev="Update", tid=tid, ok=True)
            if tid % 6 == 5 and k == 0:
                # call history: a coarse "preview" update of a throwaway mineral with loose solver options comes
                # first (its result is discarded); the judged call that follows relies on the defaults
                try:
                    pd.Mineral(phase=asm[0][0], fabric=0 if asm[0][0] == 0 else 5, regime=4, n_grains=4, seed=1).update_orientations(params, np.eye(3), getL, (t_abs + s0, t_abs + s1, getx), rtol=1e-1, atol=1e-1)
                except Exception:  # noqa: BLE001 - the preview is not judged
                    pass
            try:
                if use_update_all:
                    F = pd.update_all(minerals, params, F, getL, (t_abs + s0, t_abs + s1, getx), **solver_kwargs(tid, s1 - s0))
                else:
                    F = minerals[0].update_orientations(params, F, getL, (t_abs + s0, t_abs + s1, getx), **solver_kwargs(tid, s1 - s0))
            except Exception as ex:  # noqa: BLE001
                e["ok"] = False
                e["exc"] = type(ex).__name__
                e["dstrain_e6"] = 0
                e["det_e9"] = 0
                ev_out.append(e)
                return None
            returned.append((F, np.array(F, dtype=float, copy=True)))
            gi0 = evalterm.ev(step["gint"], dict(s=s0 * rate))
            gi1 = evalterm.ev(step["gint"], dict(s=s1 * rate))
            e["dstrain_e6"] = cap(emax * (gi1 - gi0) * 1e6)
            logdet += tr * (gi1 - gi0)
            e["det_e9"] = cap(abs(np.linalg.det(F) / (detref * np.exp(logdet)) - 1.0) * 1e9)
            if k == parts - 1:
                exact = solution(step)
                e["rel_e9"] = cap(np.abs(F - exact).max() / np.abs(exact).max() * 1e9)
                e["rel"] = float(np.abs(F - exact).max() / np.abs(exact).max())
            ev_out.append(e)
        t_abs += T
    stale = [k for k, (obj, cp) in enumerate(returned) if not np.array_equal(np.asarray(obj, dtype=float), cp)]
    e = dict(id=len(ev_out), ev="Relate", clause="returned-F-changed-by-a-later-call", rel_e9=cap(1e9 if stale else 0), rel=1.0 if stale else 0.0, n1=0, s1_e6=0, n2=0, s2_e6=0)
    ev_out.append(e)
    return F


def general_relations(pd, rng, ev_out, meta, count):
    """Velocity gradients without closed form: split vs whole, right-equivariance, determinant."""
    for i in range(count):
        M1 = layerb.FLOWS[["gen3d", "trace", "ss_xz", "pure_xy"][i % 4]]
        M2 = rng.normal(size=(3, 3)) * 0.5
        getL = lambda t, x: M1 + t * M2 + 0.3 * x[1] * M1.T  # noqa: E731  non-commuting in time and position
        getx = lambda t: np.array([0.2 * t, 0.5 * t, -0.1 * t])  # noqa: E731
        if i % 2 == 1:
            # a CLOSED excursion: the particle moves out and comes back, so that the positions at the two ends of
            # the whole interval are EXACTLY equal (triangle wave: tri(0) = tri(T) = 0) while the path between them is
            # not a point - the split runs see different end positions
            tri = lambda t: 1.0 - abs(2.0 * t / 0.6 - 1.0)  # noqa: E731
            getx = lambda t: np.array([0.4 * tri(t), 0.8 * tri(t), -0.3 * tri(t)])  # noqa: E731
        if i % 4 >= 2:
            # a velocity gradient that is the SAME at the start, the midpoint and the end of the whole interval (and of
            # each half) and different in between: period T / 2 triangle wave on the non-commuting part
            hat = lambda t: 1.0 - abs(2.0 * ((t / 0.3) % 1.0) - 1.0)  # noqa: E731
            getL = lambda t, x: M1 + hat(t) * M2 + 0.3 * x[1] * M1.T  # noqa: E731
            if i % 4 == 3:
                getx = lambda t: np.array([0.4 * hat(t), 0.8 * hat(t), -0.3 * hat(t)])  # noqa: E731
        F0 = np.eye(3) + rng.normal(size=(3, 3)) * 0.2
        if np.linalg.det(F0) <= 0.2:
            F0 = np.eye(3)
        B = np.eye(3) + rng.normal(size=(3, 3)) * 0.3
        cfg = CONFIGS[i % len(CONFIGS)]
        T = 0.6
        ts = np.linspace(0, T, 201)
        Ls = [getL(t, getx(t)) for t in ts]
        strain = float(np.trapezoid([np.abs(np.linalg.eigvalsh((L + L.T) / 2)).max() for L in Ls], ts))
        trint = float(np.trapezoid([np.trace(L) for L in Ls], ts))

        def integ(Fs, parts):
            m = pd.Mineral(phase=cfg[0], fabric=cfg[1], regime=cfg[2], n_grains=cfg[3], seed=i)
            params = layerb.make_params(dict(M=cfg[4], chi=cfg[5], asm=[cfg[0]], phiOl=10, x=[cfg[6], 0]))
            F = Fs.copy()
            for a, b in zip(np.linspace(0, T, parts + 1)[:-1], np.linspace(0, T, parts + 1)[1:]):
                F = m.update_orientations(params, F, getL, (a, b, getx))
            return F

        whole, split, eqv = integ(F0, 1), integ(F0, 4), integ(F0 @ B, 1)
        s6 = cap(strain * 1e6)
        for clause, rel, n1, n2 in (
            ("split-interval-differs-from-whole", np.abs(split - whole).max() / np.abs(whole).max(), 1, 4),
            ("not-right-equivariant(F0.B)", np.abs(eqv - whole @ B).max() / np.abs(whole @ B).max(), 1, 1),
            ("det-F-differs-from-exp-int-trace-L", abs(np.linalg.det(whole) / (np.linalg.det(F0) * np.exp(trint)) - 1.0), 1, 0),
        ):
            e = dict(id=len(ev_out), ev="Relate", clause=clause, rel_e9=cap(rel * 1e9), rel=float(rel), n1=n1, s1_e6=s6, n2=n2, s2_e6=s6 if n2 else 0)
            meta[e["id"]] = dict(kind="general", clause=clause, config=cfg)
            ev_out.append(e)


def main(tier):
    chk = Check("C06", tier)
    quick = tier != "thorough"
    gen = run_tlc("DefGrad", workers=8, timeout=900)
    chk.add_tlc("DefGrad", gen, "closed-form families x F0 x durations x g classes + piecewise nilpotent products; semigroup / det / equivariance / L.F-vs-F.L lemmas")
    cases = parse_printed_json(gen.output, "CASE")
    if len(cases) < 1100:
        raise MachineryError(f"DefGrad emitted only {len(cases)} cases")
    pd = quiet_pydrex()
    rng = np.random.default_rng(SEED)
    order = rng.permutation(len(cases))
    take = list(order[:200] if quick else order)
    longs = [i for i, cs in enumerate(cases) if cs["kind"] == "long"]
    take = (longs[:2] if quick else longs) + [i for i in take if cases[int(i)]["kind"] != "long"]
    events, meta = [], {}
    fams = {}
    for j, ci in enumerate(take):
        case = cases[int(ci)]
        cfg = CONFIGS[j % len(CONFIGS)]
        parts = [1, 2, 5][j % 3]
        asm = ASMS[(j // 3) % len(ASMS)]
        ua = (j % 7 == 3)
        rate = 1.0
        st0 = case["steps"][0]
        if case["kind"] == "long":
            parts = 1   # the whole interval in ONE update call, with enough grains for thousands of solver steps
            cfg = (0, 0, 4, 50, 125, 3, 5)
        elif case["kind"] == "single" and st0["T"] == [9, 200] and st0["g"]["via"] == "const":
            # short history as 50 very short calls at extreme rate factors (laboratory 1e3, geological 1e-15)
            parts, rate = 50, [1e3, 1e-15, 1.0][j % 3]
        # time origin class: the solution depends on elapsed time only (late starts in a long history measured in
        # seconds, negative times as used for pathlines traced backwards)
        t_origin = 0.0 if (case["kind"] == "long" or rate != 1.0) else [0.0, 4.0e5, 0.0, -2.5e6, 37.5][j % 5]
        start = len(events)
        layout = LAYOUTS[j % len(LAYOUTS)]
        run_case(pd, case, cfg, parts, asm, events, tid=j, use_update_all=ua, rate=rate, t_origin=t_origin, layout=layout)
        fam = case["steps"][0]["fam"] + ("/" + case["steps"][0]["g"]["via"]) + ("/seq" if case["kind"] == "sequence" else "") + ("/long" if case["kind"] == "long" else "")
        fams[fam] = fams.get(fam, 0) + 1
        for e in events[start:]:
            meta[e["id"]] = dict(kind="closed-form", family=fam, config=list(cfg), parts=parts, update_all=ua, asm=asm[0], case_index=int(ci), rate=rate, t_origin=t_origin, layout=layout)
            if "rel" in e and e["ev"] == "Update":
                chk.maximum("relative_error_vs_exact", e.pop("rel"))
        chk.count(("case", int(ci), j % len(CONFIGS), parts, ua))
    chk.cov["families_exercised"] = fams
    general_relations(pd, rng, events, meta, 8 if quick else 60)
    for e in events:
        if e["ev"] == "Relate":
            chk.maximum("relation_" + e["clause"], e.pop("rel"))
            chk.count(("relation", e["id"]))
    chk.sample(dict(kind="case", case={k: (v if k != "steps" else [dict(fam=s["fam"], M=s["M"], T=s["T"], g=s["g"]) for s in v]) for k, v in cases[int(take[0])].items()}))
    chk.sample(dict(kind="event", event=next(e for e in events if "rel_e9" in e)))

    def judge(evs):
        with scratch() as d:
            p = d / "defgrad.ndjson"
            write_ndjson(p, evs)
            res = run_tlc("DefGradTrace", workers=1, env={"TRACE_FILE": str(p)}, timeout=900)
        if f'<<"DONE", {len(evs)}>>' not in res.output:
            raise MachineryError("DefGradTrace did not consume the whole trace")
        return parse_printed_json(res.output, "REJECT"), res

    rejects, jres = judge(events)
    chk.add_tlc("DefGradTrace", jres, f"{len(events)} recorded calls / relations judged against the budget law")
    chk.cov["traces_validated_against_impl"] = len(take)
    for rj in rejects:
        m = meta.get(rj["id"], {})
        for clause in rj["clauses"]:
            sig = dict(clause=clause, kind=m.get("kind"), family=m.get("family"), update_all=m.get("update_all"), rate=m.get("rate"), late_origin=bool(m.get("t_origin")), layout=m.get("layout", "c"))
            chk.violation(sig, f"{clause} (N={rj['n']}, strain_e6={rj['strain_e6']}, {m})", dict(meta=m, event=events[rj["id"]], case=cases[m["case_index"]] if "case_index" in m else None))
    # negative controls: F.L instead of L.F would be off by O(0.1); emulate by corrupting measures
    good = [dict(id=0, ev="Start", tid=0), dict(id=1, ev="Update", tid=0, ok=True, dstrain_e6=200000, det_e9=10, rel_e9=6500000),
            dict(id=2, ev="Update", tid=0, ok=True, dstrain_e6=200000, det_e9=9000000, rel_e9=100),
            dict(id=3, ev="Update", tid=0, ok=True, dstrain_e6=200000, det_e9=10, rel_e9=8800000),
            dict(id=4, ev="Relate", clause="split-interval-differs-from-whole", rel_e9=20000000, n1=1, s1_e6=0, n2=4, s2_e6=0)]
    rj, _ = judge(good)
    got = {r["id"]: r["clauses"] for r in rj}
    # event 1: budget(1, 0.2) = 6.4e6 -> 6.5e6 rejected; event 3: budget(3, 0.6) = 9.2e6 -> 8.8e6 accepted (history-dependent)
    chk.control("budget-is-history-dependent", 1 in got and 2 in got and 3 not in got and 4 in got, str(got))
    return chk.finish(
        rule="cases enumerated by TLC (DefGrad), each run under a mineral configuration / partition / assemblage chosen by cycling; distinct by (case, configuration, partition); general-L relations counted separately",
        exhaustive=not quick,
    )
