"""C11 - elastic tensor representations are mutually consistent, norm-preserving maps.

Spec:  spec/Tensors.tla (Layer A: Voigt table, Browaeys & Chevrot 21-vector, transformation law,
       contractions, projector matrices and the point groups that define the classes, invariants,
       polar decomposition by its defining equations) and its drivers
         TensorsIdx    all 81 (p,q,r,s) and 36 (i,j) tuples: symmetries, preimages, weights^2 = counts
         TensorsBasis  21 basis matrices (+ triclinic family): round trips, contractions, isometry on 21x21 pairs
         TensorsRot    basis x exact rotations: law, norm, symmetry, group action (quick: slice, thorough: 40x40)
         TensorsProj   projectors idempotent / self-adjoint / nested / rank / = group average / hexagonal range
         TensorsMat    invariants on P diag(l) P^-1, polar on R.U and V.R (PD and singular PSD stretches)
         TensorsMeasures  (Layer C) the law for float-sampled deviation measures.
Bind:  every case TLC emits is replayed into pydrex.tensors and compared with the exact expected value
       (rationals / Q(sqrt2) decoded to floats; 1e-12 relative, times the spec's exact conditioning
       factor for the polar factors).  Linearity of the implementation is measured on seeded random
       floats (with agreement on a basis it gives agreement everywhere); rotation, projector, polar and
       invariant clauses are additionally measured on random real inputs through their defining
       equations and judged by TLC (TensorsMeasures).  The harness holds no formula of its own: index
       tables, weights, expected tensors, products R2.R1 and conditioning factors all come from TLC.
Note:  the quantifier is "all real 3x3 matrices" and the stretch is "positive SEMI-definite", so the
       polar cases include singular inputs (rank 0, 1, 2).  There the orthogonal factor is not unique
       and only the defining equations and the (unique) stretch are judged.
"""
import concurrent.futures as cf
import json
import math
import re
import types

import numpy as np

from harness.common import SEED, Check, MachineryError, cap, parse_printed_json, quiet_pydrex, run_tlc, scratch, write_ndjson

TOL = 1e-12  # DESIGN section 6: rounding-level agreement; formula-level faults move results by >= 1e-3
JENV = {"_JAVA_OPTIONS": "-XX:ParallelGCThreads=2"}  # many GC threads per JVM thrash on a shared machine
ROOT2 = math.sqrt(2.0)
CLASSES = ("mono", "ortho", "tetr", "hex")


# --------------------------------------------------------------------------- decoding TLC values
def qf(x):
    return x[0] / x[1]


def s2f(x):  # a + b sqrt2
    return x[0][0] / x[0][1] + (x[1][0] / x[1][1]) * ROOT2


def qarr(a, shape=None):
    out = np.array([qf(x) for x in _flat(a, 2)], dtype=float)
    return out.reshape(shape) if shape else out


def sarr(a, shape=None):
    out = np.array([s2f(x) for x in _flat(a, 3)], dtype=float)
    return out.reshape(shape) if shape else out


def _depth(a):
    d = 0
    while isinstance(a, list):
        a = a[0]
        d += 1
    return d


def _flat(a, leaf_depth):
    """Flatten nested lists down to leaves that are themselves lists of depth leaf_depth - 1."""
    if _depth(a) <= leaf_depth - 1:
        return [a]
    out = []
    for x in a:
        out.extend(_flat(x, leaf_depth))
    return out


def reldev(got, exact, scale=None):
    got = np.asarray(got, dtype=float)
    exact = np.asarray(exact, dtype=float)
    if got.shape != exact.shape:
        return float("inf")
    if not np.all(np.isfinite(got)):
        return float("inf")
    s = max(1.0, float(np.abs(exact).max())) if scale is None else scale
    return float(np.abs(got - exact).max()) / s


def _component(value, k):
    try:
        return float(value[k])
    except Exception:  # noqa: BLE001 - a malformed return value is a deviation, not a harness error
        return float("nan")


def call(fn, *args):
    try:
        return True, fn(*args)
    except Exception as ex:  # noqa: BLE001 - the outcome class is what is judged
        return False, type(ex).__name__


class Replayer:
    """Replays TLC cases into pydrex.tensors; every comparison goes through judge()."""

    def __init__(self, T, chk):
        self.T = T
        self.chk = chk
        self.ij_of = {}  # (p,q,r,s) 1-based -> (i,j) 1-based, from TensorsIdx
        self.pre = {}  # (i,j) -> list of tuples
        self.basis = {}  # b -> dict(T=exact tensor, norm2=exact)
        self.single = {}  # (b, R key) -> exact rotated tensor

    def judge(self, fn, clause, got_ok, got, exact, *, kappa=1.0, scale=None, sig=None, replay=None):
        """One comparison of an implementation value with the exact expected value."""
        s = dict(fn=fn, clause=clause)
        s.update(sig or {})
        name = f"{fn}:{clause}" + (f"[{s['form']},{s['input']}]" if "input" in s else "")
        if not got_ok:
            s["clause"] = f"{clause}:raised:{got}"
            self.chk.violation(s, f"{fn} raised {got} where the specification expects a value ({clause})", replay)
            return float("inf")
        dev = reldev(got, exact, scale)
        self.chk.maximum(name, dev / kappa)
        if not dev <= TOL * kappa:
            self.chk.violation(s, f"{fn}: {clause}: deviation {dev:.3e} from the exact expected value exceeds {TOL * kappa:.1e}", replay)
        return dev

    # ---- TensorsIdx
    def load_idx(self, cases):
        t4 = [c for c in cases if c["kind"] == "t4"]
        m6 = [c for c in cases if c["kind"] == "m6"]
        if len(t4) != 81 or len(m6) != 36:
            raise MachineryError(f"index tables incomplete: {len(t4)} tuples, {len(m6)} pairs")
        self.ij_of = {tuple(c["x"]): tuple(c["ij"]) for c in t4}
        self.pre = {tuple(c["ij"]): [tuple(x) for x in c["pre"]] for c in m6}
        self.m6 = {tuple(c["ij"]): c for c in m6}
        if len(self.ij_of) != 81 or sum(len(v) for v in self.pre.values()) != 81:
            raise MachineryError("index tables are not partitions of the 81 tuples")

    def tensor_from_table(self, M):
        """4th-order array whose (p,q,r,s) entry is M[i,j] according to TLC's table (data, not formula)."""
        out = np.empty((3, 3, 3, 3))
        for (p, q, r, s), (i, j) in self.ij_of.items():
            out[p - 1, q - 1, r - 1, s - 1] = M[i - 1, j - 1]
        return out

    def replay_idx(self, override=None):
        T = self.T
        lab = np.zeros((6, 6))
        for i in range(6):
            for j in range(6):
                lab[i, j] = 10 * (min(i, j) + 1) + max(i, j) + 1  # 21 distinct labels, symmetric
        ok, tens = call(T.voigt_to_elastic_tensor, lab)
        table = dict(self.ij_of)
        if override:
            table.update(override)
        for x, (i, j) in sorted(table.items()):
            got = tens[x[0] - 1, x[1] - 1, x[2] - 1, x[3] - 1] if ok else tens
            self.judge("voigt_to_elastic_tensor", "index-map", ok, got, lab[i - 1, j - 1], replay=dict(x=x, ij=(i, j)))
            self.chk.count(("t4", x))
        for (i, j), c in sorted(self.m6.items()):
            ind = np.zeros((3, 3, 3, 3))
            for x in self.pre[(i, j)] + self.pre[(j, i)]:
                ind[x[0] - 1, x[1] - 1, x[2] - 1, x[3] - 1] = 1.0
            B = np.zeros((6, 6))
            B[i - 1, j - 1] = B[j - 1, i - 1] = 1.0
            ok2, got = call(T.elastic_tensor_to_voigt, ind)
            self.judge("elastic_tensor_to_voigt", "index-map", ok2, got, B, replay=dict(ij=(i, j), pre=self.pre[(i, j)]))
            ex = np.zeros(21)
            ex[c["k"] - 1] = s2f(c["w"])
            ok3, got = call(T.voigt_matrix_to_vector, B)
            self.judge("voigt_matrix_to_vector", "position-and-weight", ok3, got, ex, replay=dict(ij=(i, j), k=c["k"], w=c["w"]))
            self.chk.count(("m6", (i, j)))

    # ---- TensorsBasis
    def replay_matrix_case(self, c):
        T = self.T
        M = qarr(c["M"], (6, 6))
        Tx = qarr(c["T"], (3, 3, 3, 3))
        X = sarr(c["X"], (21,))
        n2 = qf(c["norm2"])
        rid = dict(kind=c["kind"], b=c.get("b"), n=c.get("n"))
        if c["kind"] == "basis":
            self.basis[tuple(c["b"])] = dict(T=Tx, norm2=n2)
        ok, t = call(T.voigt_to_elastic_tensor, M)
        self.judge("voigt_to_elastic_tensor", "matrix->tensor", ok, t, Tx, replay=dict(rid, M=c["M"], expected=c["T"]))
        if ok:
            self.judge("voigt_to_elastic_tensor", "frobenius-norm", True, float((np.asarray(t) ** 2).sum()), n2, replay=dict(rid, M=c["M"], norm2=c["norm2"]))
        ok, m = call(T.elastic_tensor_to_voigt, Tx)
        self.judge("elastic_tensor_to_voigt", "tensor->matrix", ok, m, M, replay=dict(rid, T=c["T"], expected=c["M"]))
        ok, x = call(T.voigt_matrix_to_vector, M)
        self.judge("voigt_matrix_to_vector", "matrix->vector", ok, x, X, replay=dict(rid, M=c["M"], expected=c["X"]))
        if ok:
            self.judge("voigt_matrix_to_vector", "vector-norm", True, float((np.asarray(x) ** 2).sum()), n2, replay=dict(rid, M=c["M"], norm2=c["norm2"]))
        ok, m = call(T.voigt_vector_to_matrix, X.copy())
        self.judge("voigt_vector_to_matrix", "vector->matrix", ok, m, M, replay=dict(rid, X=c["X"], expected=c["M"]))
        if "XM" in c:
            e = np.zeros(21)
            e[c["k"] - 1] = 1.0
            ok, m = call(T.voigt_vector_to_matrix, e)
            self.judge("voigt_vector_to_matrix", "unit-vector->matrix", ok, m, sarr(c["XM"], (6, 6)), replay=dict(rid, k=c["k"], expected=c["XM"]))
        ok, dv = call(T.voigt_decompose, M)
        if ok and not (isinstance(dv, (tuple, list)) and len(dv) == 2):
            ok, dv = False, "not-a-pair"
        self.judge("voigt_decompose", "dilatational", ok, dv[0] if ok else dv, qarr(c["d"], (3, 3)), replay=dict(rid, M=c["M"], expected=c["d"]))
        self.judge("voigt_decompose", "deviatoric", ok, dv[1] if ok else dv, qarr(c["v"], (3, 3)), replay=dict(rid, M=c["M"], expected=c["v"]))
        self.chk.count(("mat", c["kind"], json.dumps(rid, sort_keys=True)))

    # ---- TensorsRot
    @staticmethod
    def rkey(R):
        return json.dumps(R)

    def replay_rot_case(self, c):
        T = self.T
        if c["kind"] in ("single", "tric"):
            R = qarr(c["R"], (3, 3))
            if c["kind"] == "single":
                tin = self.basis[tuple(c["b"])]["T"]
                rid = dict(kind="single", b=c["b"], q=c["q"])
            else:
                tin = self.tensor_from_table(qarr(c["M"], (6, 6)))
                rid = dict(kind="tric", n=c["n"], q=c["q"])
            ex = qarr(c["T"], (3, 3, 3, 3))
            ok, got = call(T.rotate, tin, R)
            self.judge("rotate", "transformation-law", ok, got, ex, replay=dict(rid, R=c["R"], expected=c["T"]))
            if ok:
                n2 = float((tin**2).sum())
                self.judge("rotate", "norm-preserved", True, float((np.asarray(got) ** 2).sum()), n2, replay=dict(rid, R=c["R"]))
            if c["kind"] == "single":
                self.single[(tuple(c["b"]), self.rkey(c["R"]))] = ex
            self.chk.count(("rot", json.dumps(rid, sort_keys=True)))
            return
        tin = self.basis[tuple(c["b"])]["T"]
        R1, R2, R21 = qarr(c["R1"], (3, 3)), qarr(c["R2"], (3, 3)), qarr(c["R21"], (3, 3))
        rid = dict(kind="pair", b=c["b"], q=c["q"], q2=c["q2"])
        ok, a = call(lambda: T.rotate(T.rotate(tin, R1), R2))
        ok2, b = call(T.rotate, tin, R21)
        if not ok2:
            ok, a = ok2, b
        self.judge("rotate", "group-action", ok, a, b if ok2 else None, replay=dict(rid, R1=c["R1"], R2=c["R2"], R21=c["R21"]))
        hit = self.single.get((tuple(c["b"]), self.rkey(c["R21"])))
        if hit is not None and ok:
            self.judge("rotate", "group-action-exact", True, a, hit, replay=dict(rid, R1=c["R1"], R2=c["R2"], R21=c["R21"]))
            self.chk.cov["pair_cases_with_exact_composite"] = self.chk.cov.get("pair_cases_with_exact_composite", 0) + 1
        self.chk.count(("rot", json.dumps(rid, sort_keys=True)))

    # ---- TensorsProj
    def replay_proj_case(self, c):
        T = self.T
        x = sarr(c["x"], (21,))
        rid = dict(kind="proj-" + c["kind"], k=c.get("k"), n=c.get("n"), h=c.get("h"))
        for cl in CLASSES:
            ok, got = call(getattr(T, cl + "_project"), x.copy())
            self.judge(cl + "_project", "projection", ok, got, sarr(c["P"][cl], (21,)), replay=dict(rid, x=c["x"], expected=c["P"][cl]))
        self.chk.count(("proj", json.dumps(rid, sort_keys=True)))

    # ---- TensorsMat
    def replay_inv_case(self, c):
        A = qarr(c["A"], (3, 3))
        ok, got = call(self.T.invariants_second_order, A)
        s = max(1.0, float(np.abs(A).max()))
        for k in range(3):
            self.judge(
                "invariants_second_order",
                f"I{k + 1}=e{k + 1}(eigenvalues)",
                ok,
                _component(got, k) if ok else got,
                qf(c["e"][k]),
                scale=s ** (k + 1),
                replay=dict(A=c["A"], eigenvalues=c["l"], expected=c["e"]),
            )
        self.chk.count(("inv", json.dumps(c["A"])))

    def replay_polar_case(self, c):
        M, R, S = qarr(c["M"], (3, 3)), qarr(c["R"], (3, 3)), qarr(c["S"], (3, 3))
        left = c["side"] == "left"
        regular = c["rank"] == 3
        kappa = qf(c["kappa"]) if regular else 1.0
        sig = dict(form=c["side"], input="nonsingular" if regular else "singular")
        rep = dict(kind="polar", M_float=M.tolist(), M=c["M"], left=left, rank=c["rank"], expected_orthogonal=c["R"] if regular else "not unique", expected_stretch=c["S"], kappa=c["kappa"])
        self.chk.count(("polar", c["side"], json.dumps(c["M"])))
        if kappa > 1e6:
            self.chk.skip("polar: stretch conditioning factor above 1e6")
            return
        # the side flag in the forms a client writes it: a Python bool or a numpy bool (the value of `det(F) > 0` or
        # `mask.any()`), positionally or by keyword, and left out where the documented default says the same
        self._polar_form = getattr(self, "_polar_form", 0) + 1
        form = self._polar_form % 5
        flag = np.bool_(left) if form in (1, 3) else bool(left)
        sig["flag"] = ("python-bool", "numpy-bool", "python-bool-keyword", "numpy-bool-keyword", "default-or-python-bool")[form]
        if form in (2, 3):
            ok, out = call(lambda m: self.T.polar_decompose(m, left=flag), M)
        elif form == 4 and left:
            ok, out = call(lambda m: self.T.polar_decompose(m), M)
        else:
            ok, out = call(self.T.polar_decompose, M, flag)
        if not ok:
            self.judge("polar_decompose", "returns", False, out, None, sig=sig, replay=rep)
            return
        try:
            Rg, Sg = np.asarray(out[0], dtype=float), np.asarray(out[1], dtype=float)
        except Exception:  # noqa: BLE001
            self.judge("polar_decompose", "returns", False, "not-a-pair-of-arrays", None, sig=sig, replay=rep)
            return
        sc = max(1.0, float(np.abs(M).max()))
        eye = np.eye(3)
        self.judge("polar_decompose", "orthogonal-factor-orthogonal", True, Rg.T @ Rg if Rg.shape == (3, 3) else Rg, eye, kappa=kappa, scale=1.0, sig=sig, replay=rep)
        self.judge("polar_decompose", "stretch-symmetric", True, Sg - Sg.T if Sg.shape == (3, 3) else Sg, np.zeros((3, 3)), kappa=kappa, scale=sc, sig=sig, replay=rep)
        if Sg.shape == (3, 3) and np.all(np.isfinite(Sg)):
            lam = float(np.linalg.eigvalsh((Sg + Sg.T) / 2).min())
            self.judge("polar_decompose", "stretch-positive-semidefinite", True, min(lam, 0.0), 0.0, kappa=kappa, scale=sc, sig=sig, replay=rep)
        if Rg.shape == (3, 3) and Sg.shape == (3, 3):
            prod = Sg @ Rg if left else Rg @ Sg  # documented order: left M = V.R, right M = R.U
            self.judge("polar_decompose", "product-reproduces-input", True, prod, M, kappa=kappa, scale=sc, sig=sig, replay=rep)
        self.judge("polar_decompose", "stretch-exact", True, Sg, S, kappa=kappa, scale=sc, sig=sig, replay=rep)
        if regular:
            self.judge("polar_decompose", "orthogonal-factor-exact", True, Rg, R, kappa=kappa, scale=1.0, sig=sig, replay=rep)


# --------------------------------------------------------------------------- float-sampled measures
def _sym6(rng):
    a = rng.normal(size=(6, 6)) * rng.choice([0.1, 1.0, 100.0])
    return (a + a.T) / 2


def sample_measures(T, rp, rng, n):
    """Evaluate the defining equations on the implementation's outputs for seeded random inputs.
    Returns (events, inputs): one integer measure per event (units 1e-15 relative), judged by TLC.
    A measure whose evaluation raises inside pydrex is logged as infinite (capped), never as a harness error."""
    from scipy.spatial.transform import Rotation

    ev, inp = [], []

    def measure(fn, clause, thunk, k=1, **info):
        try:
            dev = float(thunk())
        except Exception as ex:  # noqa: BLE001 - the implementation failing is a (maximal) deviation
            dev = float("inf")
            info["raised"] = f"{type(ex).__name__}: {ex}"[:200]
        ev.append(dict(fn=fn, clause=clause, m=cap(dev * 1e15), k=int(k)))
        inp.append(info)

    def memo(thunk):
        box = []

        def get():
            if not box:
                box.append(np.asarray(thunk(), dtype=float))
            return box[0]

        return get

    def rel(a, b, scale):
        a, b = np.asarray(a, dtype=float), np.asarray(b, dtype=float)
        if a.shape != b.shape or not np.all(np.isfinite(a)):
            return float("inf")
        return float(np.abs(a - b).max()) / max(1.0, scale)

    def symdefect(t):
        return float(max(np.abs(t - t.transpose(1, 0, 2, 3)).max(), np.abs(t - t.transpose(0, 1, 3, 2)).max(), np.abs(t - t.transpose(2, 3, 0, 1)).max()))

    def rot(seed_like):
        return Rotation.random(random_state=int(seed_like)).as_matrix()

    def linearity(f, x, y, a, b):
        fx, fy = np.asarray(f(x.copy()), dtype=float), np.asarray(f(y.copy()), dtype=float)
        fz = np.asarray(f(a * x + b * y), dtype=float)
        return rel(fz, a * fx + b * fy, max(abs(a) * np.abs(fx).max(), abs(b) * np.abs(fy).max()))

    MAGS = (1e-15, 1e-9, 1e-4, 1e6, 1e12)   # magnitude classes: SI-unit strain rates, GPa-vs-Pa stiffnesses, ...

    def homogeneity(f, x, mag, deg=1):
        """f(mag x) = mag^deg f(x), relative to the magnitude of the scaled result itself (no absolute floor:
        an absolute threshold hidden in f is invisible on O(1) inputs)."""
        fx = np.asarray(f(np.array(x, dtype=float)), dtype=float)
        fs = np.asarray(f(mag * np.asarray(x, dtype=float)), dtype=float)
        if fs.shape != fx.shape or not np.all(np.isfinite(fs)):
            return float("inf")
        scale = float(np.abs(fx).max()) * mag**deg
        return 0.0 if scale == 0.0 else float(np.abs(fs - mag**deg * fx).max()) / scale

    sym6 = lambda: _sym6(rng)  # noqa: E731
    vec21 = lambda: rng.normal(size=21)  # noqa: E731
    lin = {
        "voigt_to_elastic_tensor": (sym6, lambda x: T.voigt_to_elastic_tensor(x)),
        "elastic_tensor_to_voigt": (lambda: rp.tensor_from_table(_sym6(rng)), lambda x: T.elastic_tensor_to_voigt(x)),
        "voigt_matrix_to_vector": (sym6, lambda x: T.voigt_matrix_to_vector(x)),
        "voigt_vector_to_matrix": (vec21, lambda x: T.voigt_vector_to_matrix(x)),
        "voigt_decompose[0]": (sym6, lambda x: T.voigt_decompose(x)[0]),
        "voigt_decompose[1]": (sym6, lambda x: T.voigt_decompose(x)[1]),
        "mono_project": (vec21, lambda x: T.mono_project(x)),
        "ortho_project": (vec21, lambda x: T.ortho_project(x)),
        "tetr_project": (vec21, lambda x: T.tetr_project(x)),
        "hex_project": (vec21, lambda x: T.hex_project(x)),
    }
    for t in range(n):
        # ---- linearity of every linear map (and of rotate in its tensor argument)
        a, b = (float(z) for z in rng.normal(size=2) * rng.choice([1.0, 10.0]))
        for fn, (gen, f) in lin.items():
            x, y = gen(), gen()
            measure(fn, "linearity", lambda f=f, x=x, y=y: linearity(f, x, y, a, b), a=a, b=b, x=x.tolist(), y=y.tolist())
            measure(fn, "homogeneity", lambda f=f, x=x: homogeneity(f, x, MAGS[t % len(MAGS)]), mag=MAGS[t % len(MAGS)], x=x.tolist())
        # ---- the same value in another in-memory representation gives the same result and is left untouched
        from harness.common import represent

        REPR = ("fortran", "strided", "readonly", "int")

        def representation(f, x, kind):
            base = np.array(x, dtype=float)
            if kind == "int":
                base = np.round(base * 8.0)          # integral values, so that an integer-typed array holds the same value
            ref = np.asarray(f(base.copy()), dtype=float)
            arg = represent(base, kind)
            got = np.asarray(f(arg), dtype=float)
            if got.shape != ref.shape or not np.all(np.isfinite(got)):
                return float("inf")
            if not np.array_equal(np.asarray(arg, dtype=float), base):
                return float("inf")                  # the caller's array was modified
            scale = float(np.abs(ref).max())
            return 0.0 if scale == 0.0 else float(np.abs(got - ref).max()) / scale

        def call_history(f, x, y):
            """Two calls in a row on ONE argument object refilled in place (a caller's work buffer): the second result
            is that of the second contents, and the first result is not changed by the second call (unless it is a
            view of the caller's own buffer)."""
            buf = represent(x, "buffer")
            r1 = f(buf)
            r1c = np.array(r1, dtype=float, copy=True)
            buf = represent(y, "buffer")            # the same object, new contents
            r2 = np.asarray(f(buf), dtype=float)
            ref2 = np.asarray(f(np.array(y, dtype=float, copy=True)), dtype=float)
            if r2.shape != ref2.shape or not np.all(np.isfinite(r2)):
                return float("inf")
            scale = max(float(np.abs(ref2).max()), float(np.abs(r1c).max()), 1e-300)
            dev = float(np.abs(r2 - ref2).max()) / scale
            if isinstance(r1, np.ndarray) and not np.shares_memory(r1, buf):
                dev = max(dev, float(np.abs(np.asarray(r1, dtype=float) - r1c).max()) / scale)
            return dev

        for k_, (fn, (gen, f)) in enumerate(lin.items()):
            kind = REPR[(t + k_) % len(REPR)]
            x = gen()
            measure(fn, "representation", lambda f=f, x=x, kind=kind: representation(f, x, kind), repr=kind, x=np.asarray(x).tolist())
            y = gen()
            measure(fn, "call-history", lambda f=f, x=x, y=y: call_history(f, x, y), x=np.asarray(x).tolist(), y=np.asarray(y).tolist())
        R1, R2 = rot(rng.integers(2**31)), rot(rng.integers(2**31))
        M, M2 = _sym6(rng), _sym6(rng)
        C, C2 = rp.tensor_from_table(M), rp.tensor_from_table(M2)  # elastic tensors built from TLC's table
        fro = float(np.sqrt((C**2).sum()))
        measure("rotate", "linearity", lambda: linearity(lambda z: T.rotate(z, R1), C, C2, a, b), a=a, b=b, M=M.tolist(), M2=M2.tolist(), R=R1.tolist())
        measure("rotate", "homogeneity", lambda: homogeneity(lambda z: T.rotate(z, R1), C, MAGS[(t + 1) % len(MAGS)]), mag=MAGS[(t + 1) % len(MAGS)], M=M.tolist(), R=R1.tolist())
        kr = REPR[t % 3]
        measure("rotate", "representation", lambda: representation(lambda z: T.rotate(z, R1), C, kr), repr=kr, M=M.tolist(), R=R1.tolist())
        measure("rotate", "call-history", lambda: call_history(lambda z: T.rotate(z, R1), C, C2), M=M.tolist(), M2=M2.tolist(), R=R1.tolist())
        measure("rotate", "representation", lambda: max(representation(lambda q: T.rotate(C, q), R1, k2) for k2 in ("fortran", "strided", "readonly")), repr="rotation-matrix", M=M.tolist(), R=R1.tolist())
        # ---- rotation clauses
        rc = memo(lambda: T.rotate(C, R1))
        info = dict(M=M.tolist(), R1=R1.tolist(), R2=R2.tolist())
        measure("rotate", "rot-norm", lambda: abs(float(np.sqrt((rc() ** 2).sum())) - fro) / max(1.0, fro), **info)
        measure("rotate", "rot-group", lambda: rel(T.rotate(rc(), R2), T.rotate(C, R2 @ R1), fro), **info)
        measure("rotate", "rot-identity", lambda: rel(T.rotate(C, np.eye(3)), C, fro), **info)
        measure("rotate", "minor-major-symmetry", lambda: symdefect(rc()) / max(1.0, fro), **info)
        u = rng.normal(size=(4, 3))
        u /= np.linalg.norm(u, axis=1)[:, None]

        def law():  # the rotated tensor, as a multilinear form on rotated probes, equals the original on the probes
            lhs = np.einsum("ijkl,i,j,k,l", rc(), R1 @ u[0], R1 @ u[1], R1 @ u[2], R1 @ u[3])
            rhs = np.einsum("ijkl,i,j,k,l", C, u[0], u[1], u[2], u[3])
            return abs(float(lhs - rhs)) / max(1.0, fro)

        measure("rotate", "rot-law", law, probes=u.tolist(), **info)
        # ---- conversions on random stiffness-like matrices
        tt = memo(lambda: T.voigt_to_elastic_tensor(M))
        xv = memo(lambda: T.voigt_matrix_to_vector(M))
        sm = max(1.0, float(np.abs(M).max()))
        xr, y = rng.normal(size=21), rng.normal(size=21)
        measure("voigt_to_elastic_tensor", "minor-major-symmetry", lambda: symdefect(tt()) / sm, M=M.tolist())
        measure("elastic_tensor_to_voigt", "roundtrip", lambda: rel(T.elastic_tensor_to_voigt(tt()), M, sm), M=M.tolist())
        measure("voigt_to_elastic_tensor", "roundtrip", lambda: rel(T.voigt_to_elastic_tensor(np.asarray(T.elastic_tensor_to_voigt(C))), C, sm), M=M.tolist())
        measure("voigt_vector_to_matrix", "roundtrip", lambda: rel(T.voigt_vector_to_matrix(xv().copy()), M, sm), M=M.tolist())
        measure("voigt_matrix_to_vector", "roundtrip", lambda: rel(T.voigt_matrix_to_vector(np.asarray(T.voigt_vector_to_matrix(xr.copy()))), xr, float(np.abs(xr).max())), x=xr.tolist())
        measure("voigt_matrix_to_vector", "isometry", lambda: abs(float(np.linalg.norm(xv())) - float(np.sqrt((tt() ** 2).sum()))) / max(1.0, float(np.linalg.norm(xv()))), M=M.tolist())

        def contraction():  # against the contractions of the implementation's own 4th-order tensor
            d, v = T.voigt_decompose(M)
            return max(rel(d, np.einsum("ijkk->ij", tt()), 3 * sm), rel(v, np.einsum("ikjk->ij", tt()), 3 * sm))

        measure("voigt_decompose", "contraction", contraction, M=M.tolist())
        # ---- projectors: orthogonal projections onto nested subspaces
        sx = float(np.linalg.norm(xr))
        P = {cl: getattr(T, cl + "_project") for cl in CLASSES}
        for i, cl in enumerate(CLASSES):
            px = memo(lambda cl=cl: P[cl](xr.copy()))
            py = memo(lambda cl=cl: P[cl](y.copy()))
            info = dict(cls=cl, x=xr.tolist(), y=y.tolist())
            measure(cl + "_project", "proj-idempotent", lambda cl=cl, px=px: rel(P[cl](px().copy()), px(), sx), **info)
            measure(cl + "_project", "proj-selfadjoint", lambda px=px, py=py: abs(float(px() @ y - xr @ py())) / max(1.0, sx * float(np.linalg.norm(y))), **info)
            measure(cl + "_project", "proj-pythagoras", lambda px=px: abs(float(xr @ xr - px() @ px() - (xr - px()) @ (xr - px()))) / max(1.0, sx * sx), **info)
            for lower in CLASSES[i + 1 :]:

                def nested(cl=cl, lower=lower, px=px):
                    pl = np.asarray(P[lower](xr.copy()), dtype=float)
                    return max(rel(P[lower](px().copy()), pl, sx), rel(P[cl](pl.copy()), pl, sx))

                measure(cl + "_project", "proj-nested", nested, lower=lower, **info)
        # ---- second-order tensors
        A = rng.normal(size=(3, 3)) * rng.choice([0.01, 1.0, 50.0])
        if t % 4 == 1:
            A = A - 2 * np.outer(A[:, 0], np.eye(3)[0])  # flip the sign of det
        if t % 4 == 2:
            A = (A + A.T) / 2
        if t % 4 == 3:  # prescribed singular values with a chosen condition number
            q1, q2 = rot(rng.integers(2**31)), rot(rng.integers(2**31))
            A = q1 @ np.diag([1.0, 10.0 ** -rng.integers(0, 3), 10.0 ** -rng.integers(0, 6)]) @ q2.T * rng.choice([1.0, 1e3])
        if t % 12 in (5, 9, 11):
            # NEAR-SPECIAL inputs: a structured matrix plus a perturbation of relative size delta that is far above
            # rounding and far below anything a random draw produces (an orthogonal matrix times a tiny strain, a
            # symmetric stretch times a tiny rotation, a diagonal matrix with tiny couplings).  The laws hold for them
            # as for every matrix - to rounding, not to the size of the perturbation.
            delta = (1e-8, 1e-7, 1e-6, 1e-4)[(t // 12) % 4]
            q1 = rot(rng.integers(2**31))
            sym = rng.normal(size=(3, 3))
            sym = (sym + sym.T) / 2
            if t % 12 == 5:
                A = q1 @ (np.eye(3) + delta * sym)
            elif t % 12 == 9:
                w = rng.normal(size=3)
                w = delta * w / np.linalg.norm(w)
                W = np.array([[0, -w[2], w[1]], [w[2], 0, -w[0]], [-w[1], w[0], 0]])
                V = q1 @ np.diag([2.0, 1.0, 0.5]) @ q1.T
                A = V @ (np.eye(3) + W + W @ W / 2)
            else:
                A = np.diag([1.5, -0.75, 0.25]) + delta * rng.normal(size=(3, 3))
        lam = np.linalg.eigvals(A)
        el = (lam.sum().real, (lam[0] * lam[1] + lam[1] * lam[2] + lam[2] * lam[0]).real, (lam[0] * lam[1] * lam[2]).real)
        na = max(1.0, float(np.abs(A).max()))

        def invdev():
            got = T.invariants_second_order(A)
            return max(abs(float(got[k]) - el[k]) / na ** (k + 1) for k in range(3))

        measure("invariants_second_order", "invariants", invdev, A=A.tolist())
        mg = MAGS[(t + 2) % len(MAGS)]

        def invhom():  # I_k(s A) = s^k I_k(A), relative to the natural scale (s |A|)^k
            i1, is_ = T.invariants_second_order(A), T.invariants_second_order(mg * A)
            amax = float(np.abs(A).max())
            return max(abs(float(is_[k]) - mg ** (k + 1) * float(i1[k])) / (mg * amax) ** (k + 1) for k in range(3))

        measure("invariants_second_order", "homogeneity", invhom, A=A.tolist(), mag=mg)
        ka = REPR[t % 3]
        measure("invariants_second_order", "representation", lambda: representation(lambda z: np.array(T.invariants_second_order(z), dtype=float), A, ka), repr=ka, A=A.tolist())
        sv = np.linalg.svd(A, compute_uv=False)
        cond = float(sv[0] / sv[-1]) if sv[-1] > 0 else float("inf")
        if not cond <= 1e6:
            rp.chk.skip("polar measure: condition number of the random input above 1e6")
            continue
        k = max(1, math.ceil(cond))
        for left in (True, False):
            info = dict(A=A.tolist(), left=left, cond=cond)
            fn = "polar_decompose"
            out = memo(lambda left=left, t=t: np.stack([np.asarray(z, dtype=float) for z in T.polar_decompose(A, np.bool_(left) if t % 2 else left)]))
            measure(fn, "polar-orthogonal", lambda out=out: rel(out()[0].T @ out()[0], np.eye(3), 1.0), k, **info)
            measure(fn, "polar-symmetric", lambda out=out: rel(out()[1], out()[1].T, na), k, **info)
            measure(fn, "polar-psd", lambda out=out: max(0.0, -float(np.linalg.eigvalsh((out()[1] + out()[1].T) / 2).min())) / na, k, **info)
            measure(fn, "polar-product", lambda out=out, left=left: rel(out()[1] @ out()[0] if left else out()[0] @ out()[1], A, na), k, **info)

            def polhom(out=out, left=left):  # polar(s A) = (R, s S): the factors of a rescaled input
                rs, ss = (np.asarray(z, dtype=float) for z in T.polar_decompose(mg * A, left))
                if not (np.all(np.isfinite(rs)) and np.all(np.isfinite(ss))):
                    return float("inf")
                prod = ss @ rs if left else rs @ ss
                amax = float(np.abs(A).max())
                return max(float(np.abs(rs - out()[0]).max()), float(np.abs(ss - mg * out()[1]).max()) / (mg * amax), float(np.abs(prod - mg * A).max()) / (mg * amax))

            measure(fn, "polar-homogeneity", polhom, k, mag=mg, **info)
            measure(fn, "polar-representation", lambda left=left: representation(lambda z: np.stack([np.asarray(q, dtype=float) for q in T.polar_decompose(z, left)]), A, ka), k, repr=ka, **info)
    return ev, inp


def judge_measures(events, d, name="measures"):
    path = d / f"{name}.ndjson"
    write_ndjson(path, events)
    res = run_tlc("TensorsMeasures", "TensorsMeasures", workers=1, env=dict(JENV, TRACE_FILE=str(path)), timeout=600)
    done = re.search(r'<<"DONE", (\d+)>>', res.output)
    if not done or int(done.group(1)) != len(events):
        raise MachineryError("TensorsMeasures did not consume the whole measure log:\n" + res.output[-2000:])
    rej = sorted({(int(m.group(1)), m.group(2)) for m in re.finditer(r'<<"REJECT", (\d+), "([^"]*)">>', res.output)})
    return rej, res


# --------------------------------------------------------------------------- replay of a stored violation
def replay(obj):
    """./check C11 --replay <path>: re-run the stored input against the current tree."""
    quiet_pydrex()
    from pydrex import tensors as T

    r = obj.get("replay") or {}
    if r.get("kind") == "polar":
        M = np.array(r["M_float"])
        ok, out = call(T.polar_decompose, M, r["left"])
        if not ok:
            print(f"polar_decompose(M, left={r['left']}) raised {out}; rank(M) = {r['rank']}")
            return 1
        Rg, Sg = np.asarray(out[0]), np.asarray(out[1])
        prod = Sg @ Rg if r["left"] else Rg @ Sg
        orth, pr = float(np.abs(Rg.T @ Rg - np.eye(3)).max()), float(np.abs(prod - M).max())
        print(f"polar_decompose(M, left={r['left']}): |R'R - I| = {orth:.3e}, |product - M| = {pr:.3e}; rank(M) = {r['rank']}")
        return 1 if max(orth, pr) > 1e-9 else 0
    print("stored case (inputs and exact expected values above); re-run ./check C11 to re-judge it")
    return 0


# --------------------------------------------------------------------------- main
def _perturb(a, path, leaf):
    """Deep copy of case `a` with the rational leaf at `path` replaced by `leaf`."""
    b = json.loads(json.dumps(a))
    t = b
    for p in path[:-1]:
        t = t[p]
    t[path[-1]] = leaf
    return b


def main(tier):
    chk = Check("C11", tier)
    quick = tier != "thorough"
    sfx = "" if quick else "_thorough"
    models = [
        ("TensorsIdx", "TensorsIdx", 2, "all 81 (p,q,r,s) and 36 (i,j) tuples: Voigt table, symmetries, preimages, weight^2 = multiplicity"),
        ("TensorsBasis", "TensorsBasis" + sfx, 2, "21 basis matrices + triclinic family: round trips, contractions; isometry on all 21x21 pairs in Q(sqrt2)"),
        ("TensorsProj", "TensorsProj" + sfx, 4, "projectors: idempotent, self-adjoint (21x21), nested, rank, = point-group average, hexagonal range"),
        ("TensorsMat", "TensorsMat" + sfx, 3, "invariants on P diag(l) P^-1 (Cayley-Hamilton); polar R.U / V.R with PD and singular PSD stretches"),
        ("TensorsRot", "TensorsRot" + sfx, 6 if quick else 12, "basis x 40 exact rotations: law, norm, symmetries; group action on " + ("40 x 3" if quick else "all 40 x 40") + " pairs; triclinic x generic rotations"),
    ]
    results = {}
    with cf.ThreadPoolExecutor(max_workers=len(models) + 1) as pool:
        futs = {pool.submit(run_tlc, m, cfg, workers=w, timeout=240 if quick else 1500, env=JENV): (m, note) for m, cfg, w, note in models}
        neg = pool.submit(run_tlc, "TensorsIdx", "TensorsIdx_neg", workers=1, timeout=240, env=JENV, expect_violation=True)
        # meanwhile: import pydrex and let numba compile the functions under test
        quiet_pydrex()
        from pydrex import tensors as T

        call(T.polar_decompose, np.eye(3), True)
        call(T.rotate, np.zeros((3, 3, 3, 3)), np.eye(3))
        for f in futs:
            m, note = futs[f]
            results[m] = f.result()
            chk.add_tlc(m, results[m], note)
        negres = neg.result()
    chk.control("tlc-lemma-rejects-permuted-vector-table", negres.violated in ("WeightLemma", "VecTableLemma"), f"TensorsIdx_neg: violated={negres.violated}")
    # TLC workers print in a scheduling-dependent order: sort, so that runs (and stored replays) are reproducible
    cases = {m: sorted(parse_printed_json(r.output, "CASE"), key=lambda c: json.dumps(c, sort_keys=True)) for m, r in results.items()}
    # every case state must have produced exactly one parsable CASE line (no line lost between workers):
    # emitted = distinct states - seed (initial) states - lemma-only states
    lemma_only = {"TensorsBasis": 441, "TensorsProj": 441 + 21 + 1}
    for m, r in results.items():
        ini = re.search(r"Finished computing initial states: (\d+) distinct state", r.output)
        want = r.distinct - int(ini.group(1)) - lemma_only.get(m, 0) if ini else -1
        if len(cases[m]) != want or want < 40:
            raise MachineryError(f"{m} emitted {len(cases[m])} cases, its state graph has {want} case states")
    if len(cases["TensorsIdx"]) != 117 or sum(c["kind"] == "single" for c in cases["TensorsRot"]) != 21 * 40:
        raise MachineryError("index or rotation tables incomplete")

    rp = Replayer(T, chk)
    # ---- 1. index maps
    rp.load_idx(cases["TensorsIdx"])
    rp.replay_idx()
    chk.sample(dict(kind="index-tuple", case=cases["TensorsIdx"][40]))
    # ---- 2. conversions, contractions, norms on the basis and the triclinic family
    for c in cases["TensorsBasis"]:
        rp.replay_matrix_case(c)
    if len(rp.basis) != 21:
        raise MachineryError("basis cases incomplete")
    b0 = next(c for c in cases["TensorsBasis"] if c["kind"] == "basis" and c["b"] == [1, 4])
    chk.sample(dict(kind="basis-matrix", b=b0["b"], k=b0["k"], vector=b0["X"], dilatational=b0["d"], deviatoric=b0["v"]))
    # ---- 3. rotations (singles first: their exact results serve composite pairs that land on them)
    rot = cases["TensorsRot"]
    for c in sorted(rot, key=lambda c: c["kind"] == "pair"):
        rp.replay_rot_case(c)
    r0 = next(c for c in rot if c["kind"] == "tric")
    chk.sample(dict(kind="rotation", n=r0["n"], q=r0["q"], R=r0["R"], rotated_first_entries=r0["T"][:6]))
    # ---- 4. projectors
    for c in cases["TensorsProj"]:
        rp.replay_proj_case(c)
    p0 = next(c for c in cases["TensorsProj"] if c["kind"] == "unit" and c["k"] == 6)
    chk.sample(dict(kind="projector", k=6, hex=p0["P"]["hex"][:9]))
    # ---- 5. invariants and polar decomposition on constructed inputs
    for c in cases["TensorsMat"]:
        if c["kind"] == "inv":
            rp.replay_inv_case(c)
        else:
            rp.replay_polar_case(c)
    pol = [c for c in cases["TensorsMat"] if c["kind"] == "polar"]
    chk.sample(dict(kind="polar", case=next(c for c in pol if c["rank"] == 3 and c["sg"] == -1 and c["side"] == "left")))
    chk.cov["cases_by_model"] = {m: len(v) for m, v in cases.items()}

    # ---- 6. seeded float measures, judged by TLC
    rng = np.random.default_rng(SEED + 11)
    events, inputs = sample_measures(T, rp, rng, 37 if quick else 400)
    with scratch() as d:
        rej, mres = judge_measures(events, d)
        chk.add_tlc("TensorsMeasures", mres, f"{len(events)} deviation measures of seeded random inputs against the tolerance law")
        for i, e in enumerate(events):
            chk.count(("measure", e["fn"], e["clause"], i))
            chk.maximum(f"measure:{e['fn']}:{e['clause']}", e["m"] * 1e-15 / e["k"])
        for line, clause in rej:
            e = events[line - 1]
            chk.violation(dict(level="float-measure", fn=e["fn"], clause=clause), f"TensorsMeasures rejected line {line}: {e}", dict(event=e, input=inputs[line - 1]))
        chk.sample(dict(kind="measure-event", event=events[len(events) // 2]))
        # negative controls of the judge (synthetic lines, independent of the implementation): exceeded
        # budgets and a smuggled conditioning factor are rejected, lines on the budget are accepted
        ctl = [
            dict(fn="control", clause="rot-group", m=5000, k=1),
            dict(fn="control", clause="rot-group", m=5000, k=10),
            dict(fn="control", clause="polar-product", m=7001, k=7),
            dict(fn="control", clause="polar-product", m=7000, k=7),
            dict(fn="control", clause="rot-group", m=1000, k=1),
        ]
        rj, _ = judge_measures(ctl, d, "neg")
        chk.control("measure-judge-rejects-exceeded-budgets", [x for x, _ in rj] == [1, 2, 3], str(rj))

    # ---- 7. negative controls of the replayers: a wrong expected value must be flagged
    def fires(fn, label, clause):
        probe = Check("C11", tier, dry=True)
        fn(Replayer(T, probe), probe)
        got = [json.loads(k).get("clause") for k, _, _ in probe.violations]
        chk.control(label, any(str(g).startswith(clause) for g in got), f"clauses flagged: {got}")

    wrong = [7, 1000000007]  # a rational that differs from any expected value by > 1e-9

    def ctl_idx(r, p):
        r.load_idx(cases["TensorsIdx"])
        r.replay_idx(override={(2, 3, 1, 1): (5, 1)})

    fires(ctl_idx, "replayer-flags-wrong-voigt-index", "index-map")
    bc = next(c for c in cases["TensorsBasis"] if c["kind"] == "basis" and c["b"] == [4, 5])
    for field, path, clause in (
        ("T", ["T", 40], "matrix->tensor"),
        ("M", ["M", 3, 4], "tensor->matrix"),
        ("X", ["X", 20, 1], "matrix->vector"),
        ("XM", ["XM", 3, 4, 1], "unit-vector->matrix"),
        ("d", ["d", 0, 1], "dilatational"),
        ("v", ["v", 0, 1], "deviatoric"),
        ("norm2", ["norm2"], "vector-norm"),
    ):
        fires(lambda r, p, path=path: r.replay_matrix_case(_perturb(bc, path, wrong)), f"replayer-flags-wrong-{field}", clause)
    sc = next(c for c in rot if c["kind"] == "single" and c["q"] == [1, 1, 1, 0])
    transposed = lambda R: [[R[j][i] for j in range(3)] for i in range(3)]  # noqa: E731
    pc = next(c for c in rot if c["kind"] == "pair" and c["b"] == [1, 5] and c["q"] == [1, 1, 1, 0] and c["R21"] != transposed(c["R21"]))

    def ctl_rot(r, p):
        r.basis = rp.basis
        r.replay_rot_case(_perturb(sc, ["T", 13], wrong))

    def ctl_pair(r, p):
        r.basis = rp.basis
        r.replay_rot_case(dict(pc, R21=transposed(pc["R21"])))

    fires(ctl_rot, "replayer-flags-wrong-rotated-entry", "transformation-law")
    fires(ctl_pair, "replayer-flags-wrong-composite-rotation", "group-action")
    fires(lambda r, p: r.replay_proj_case(_perturb(p0, ["P", "hex", 8, 0], wrong)), "replayer-flags-wrong-projection", "projection")
    ic = next(c for c in cases["TensorsMat"] if c["kind"] == "inv")
    fires(lambda r, p: r.replay_inv_case(_perturb(ic, ["e", 1], wrong)), "replayer-flags-wrong-invariant", "I2=e2(eigenvalues)")
    oc = next(c for c in pol if c["rank"] == 3 and c["side"] == "right" and c["q"] == [1, 1, 1, 0] and c["S"][0][1] != [0, 1])
    fires(lambda r, p: r.replay_polar_case(_perturb(oc, ["R", 0, 0], wrong)), "replayer-flags-wrong-orthogonal-factor", "orthogonal-factor-exact")
    fires(lambda r, p: r.replay_polar_case(dict(oc, side="left")), "replayer-flags-stretch-of-the-other-form", "stretch-exact")

    def ctl_order(r, p):  # an implementation that answers the right form with the left one (and vice versa)
        r.T = types.SimpleNamespace(polar_decompose=lambda M, left: T.polar_decompose(M, not left))
        r.replay_polar_case(oc)

    fires(ctl_order, "replayer-flags-wrong-factor-order", "product-reproduces-input")

    return chk.finish(
        rule="every case emitted by the TLC drivers (index tuples, basis matrices, triclinic integer matrices, basis/triclinic x exact rotations, rotation pairs, unit 21-vectors x 4 projectors, similarity-constructed integer matrices, R.U / V.R products) is one replay, distinct by its identifying tuple; float measures are distinct by (function, clause, draw)",
        exhaustive=False,
        trusted=["numpy eigvals / svd / eigvalsh as measuring instruments for the float-sampled clauses"],
    )
