"""C12 - the elastic symmetry decomposition is correct and frame-independent.

Spec:  spec/Elastic.tla (Layer A, on top of the C11 module Tensors; exact rationals / Q(sqrt2)).
       * cfgs Elastic / Elastic_thorough: TLC proves the lemmas (library tensors orthorhombic, positive
         definite by Sylvester, distinct principal axes; X_iso in every class and orthogonal to the
         residual => 0 <= aniso^2 <= 1; the cascade has tric = mono = 0 and satisfies Pythagoras for
         every axis choice; frame lemma: K, G, |X|^2, |X - X_iso|^2 unchanged by TRotate, d and v
         co-rotate, the columns of R are their eigenvectors) and emits TABLES (rotation table, index
         maps, the term program K, G, num, den, pct and the functionals d_ij, v_ij for the generic
         evaluator), one TENSOR record per library tensor, one CASE record per (tensor, rotation)
         with the exact rotated 6x6, K, G, aniso^2, and the SCEN table of float scenario classes.
       * cfg ElasticNeg: non-vacuity (the unweighted 21-entry norm is not invariant: must be refuted).
       * cfg ElasticJudge: THE LAW (tolerances, which clauses the quantifier demands or excludes) for
         the integer measures recorded here.
Bind:  spec -> code: every CASE's rotated 6x6 (built by TLC, never recomputed here) is fed to
       pydrex.elasticity_components; K, G, percent_anisotropy are compared with the exact values
       (1e-9, DESIGN 6); the metamorphic clauses use the implementation's own output on the unrotated
       tensor as reference (percentages unchanged, hexagonal axis = +-R axis0, unit; orthorhombic:
       mono = tric = 0, class squares add up to aniso^2; 1e-6).
       code -> spec: for every SCEN class x seeded repetitions floats are drawn (the actual built-in
       tensors, random positive-definite orthorhombic tensors, Voigt averages of random / clustered /
       evolved textures built with pydrex.voigt_averages) and rotated by a random frame rotation;
       K, G, percent_anisotropy are compared with the spec's term program, the frame clauses with
       the implementation's own unrotated output; eigen-gaps of d and v and the eigenvector pairing
       margin (numpy leaf on the spec's functionals) are logged so that the law can exclude
       ill-conditioned axes (skipped and counted).
       Every evaluation becomes one ndjson line of integer measures (units 1e-12) judged by TLC.
This file holds no formula of K, G, the isotropic vector, the 21-vector weights or the projectors:
expected values, index maps, functionals and thresholds all come from Elastic.tla.
"""
import json
import math
import os
import zlib

import numpy as np

from harness import evalterm
from harness.common import SEED, Check, MachineryError, cap, parse_printed_json, quiet_pydrex, run_tlc, scratch, write_ndjson

PID = "C12"
WORKERS = int(os.environ.get("VERIF_TLC_WORKERS", "8") or 8)  # other checks share the machine
PCT = ("percent_anisotropy", "percent_hexagonal", "percent_tetragonal", "percent_orthorhombic", "percent_monoclinic", "percent_triclinic")
KEYS = ("bulk_modulus", "shear_modulus") + PCT + ("hexagonal_axis",)
MKEYS = ("kDev", "gDev", "anisoDev", "rangeOut", "pctDev", "unitDev", "axisDev", "mono", "tric", "pyth", "gapD", "gapV", "pairGap")
MARGINS = ("gapD", "gapV", "pairGap")
ZERO_M = {k: 0 for k in MKEYS}
BIG = 2_000_000_000


def qf(x):
    return x[0] / x[1]


def qmat(m):
    return np.array([[qf(x) for x in row] for row in m], dtype=float)


# --------------------------------------------------------------------------- binding to the spec's tables
class Binding:
    def __init__(self, tables):
        self.t = tables
        self.rots = [qmat(R) for R in tables["rots"]]
        self.vidx = np.array(tables["vidx"]) - 1
        self.vpair = np.array(tables["vpair"]) - 1
        self.params = [(p["name"], p["i"] - 1, p["j"] - 1) for p in tables["params"]]
        self.ortho_classes = set(tables["orthoClasses"])

    def env(self, M):
        return {name: float(M[i][j]) for name, i, j in self.params}

    def program(self, M):
        """K, G, num, den, pct of the spec's term program at the entries of M (generic evaluator)."""
        return evalterm.run_program(self.t["program"], self.env(M))

    def contractions(self, M):
        env = self.env(M)
        d = np.array([[evalterm.ev(self.t["dil"][i][j], env) for j in range(3)] for i in range(3)])
        v = np.array([[evalterm.ev(self.t["dev"][i][j], env) for j in range(3)] for i in range(3)])
        return d, v

    def gaps(self, M):
        """Conditioning of the symmetry axes (numpy eigh is a leaf): smallest relative eigenvalue gap of the
        two contractions, and the smallest margin by which an eigenvector of d has a unique nearest
        eigenvector of v."""
        d, v = self.contractions(M)
        if not (np.all(np.isfinite(d)) and np.all(np.isfinite(v))):
            return 0.0, 0.0, 0.0
        (wd, ed), (wv, ev_) = np.linalg.eigh((d + d.T) / 2), np.linalg.eigh((v + v.T) / 2)
        rel = [float(np.min(np.diff(w)) / max(np.max(np.abs(w)), 1e-300)) for w in (wd, wv)]
        c = np.sort(np.abs(ed.T @ ev_), axis=1)
        return rel[0], rel[1], float(np.min(c[:, 2] - c[:, 1]))

    def rotate6(self, M, Q):
        """Tensor law on a 6x6 with the spec's index maps (VoigtIdx / VoigtPair); float scenarios only."""
        T = M[self.vidx[:, :, None, None], self.vidx[None, None, :, :]]
        T = np.einsum("ia,jb,kc,ld,abcd->ijkl", Q, Q, Q, Q, T)
        p = self.vpair
        return T[p[:, 0][:, None], p[:, 1][:, None], p[:, 0][None, :], p[:, 1][None, :]]


class Impl:
    """pydrex.elasticity_components; the mutants exist only for the negative controls."""

    def __init__(self, pd, mutant=None):
        from pydrex import diagnostics

        self.fn = getattr(pd, "elasticity_components", None) or diagnostics.elasticity_components
        self.mutant = mutant

    def __call__(self, mats):
        """List of per-matrix result dicts; an exception on one input becomes {'raised': ...} for that input."""
        mats = [np.array(m, dtype=float) for m in mats]
        if self.mutant == "voigt45":  # an implementation whose Voigt table exchanges the 23 and 13 pairs
            mats = [m[[0, 1, 2, 4, 3, 5], :][:, [0, 1, 2, 4, 3, 5]] for m in mats]
        if self.mutant == "shear2":  # an implementation that reads the shear block as engineering-doubled
            sh = (np.arange(6) > 2).astype(float)
            mats = [m * (1.0 + np.outer(sh, sh)) for m in mats]
        try:
            from harness.common import represent

            self.ncall = getattr(self, "ncall", 0) + 1
            # the batch in one of several in-memory representations of the same values
            batch = represent(np.array(mats), ("c", "fortran", "strided", "readonly", "buffer", "buffer")[self.ncall % 6]) if self.mutant is None else np.array(mats)
            out = self.fn(batch)
            res = [{k: np.array(out[k][i], dtype=float) for k in KEYS} for i in range(len(mats))]
            if self.mutant is None and len(mats) > 1:
                # the decomposition of a matrix is a function of that matrix: a sample of the batch is decomposed
                # alone as well and must give the same answer (axis up to sign)
                for i in range(self.ncall % 5, len(mats), 5):
                    o = self.fn(np.array([mats[i]]))
                    one = {k: np.array(o[k][0], dtype=float) for k in KEYS}
                    same = all(np.allclose(one[k], res[i][k], rtol=1e-9, atol=1e-9, equal_nan=True) for k in KEYS if k != "hexagonal_axis")
                    a, b = one["hexagonal_axis"], res[i]["hexagonal_axis"]
                    same = same and (np.allclose(a, b, atol=1e-9, equal_nan=True) or np.allclose(a, -b, atol=1e-9, equal_nan=True))
                    if not same:
                        res[i] = {"raised": "the result for this matrix inside a batch differs from its result alone"}
        except Exception:  # noqa: BLE001 - find the offending input(s)
            res = []
            for m in mats:
                try:
                    o = self.fn(np.array([m]))
                    res.append({k: np.array(o[k][0], dtype=float) for k in KEYS})
                except Exception as ex:  # noqa: BLE001
                    res.append({"raised": f"{type(ex).__name__}: {ex}"})
        if self.mutant == "fixedaxis":  # an implementation that reports the axis in the symmetry frame
            for r in res:
                if "raised" not in r:
                    r["hexagonal_axis"] = np.array([0.0, 0.0, 1.0])
        return res


# --------------------------------------------------------------------------- projection to integer measures
def _rel(got, exact):
    return abs(float(got) - exact) / max(1.0, abs(exact))


def _finite(o):
    return "raised" not in o and all(np.all(np.isfinite(o[k])) for k in KEYS) and np.shape(o["hexagonal_axis"]) == (3,)


def project(b, sid, kind, cls, hex_tie, ref, rot, R, M_rot, expected, also_ref=None):
    """One recorded evaluation -> event.  ref / rot: implementation output on the unrotated / rotated input;
    expected: dict K, G, pct for the rotated input (exact or term program); also_ref: (M_ref, expected_ref)
    when the unrotated input is judged against the program as well (float scenarios)."""
    ev = dict(sid=sid, kind=kind, cls=cls, hexTie=bool(hex_tie), finite=True, m=dict(ZERO_M))
    if not (_finite(ref) and _finite(rot)):
        ev["finite"] = False
        ev["raised"] = ref.get("raised") or rot.get("raised") or "non-finite output"
        return ev, {}
    f = {}
    pairs = [(rot, expected)] + ([(ref, also_ref[1])] if also_ref else [])
    try:
        return _project_finite(b, ev, f, pairs, ref, rot, R, M_rot, also_ref)
    except (OverflowError, FloatingPointError, ZeroDivisionError):
        # finite but absurd output (e.g. uninitialised memory of magnitude 1e300): arithmetic on it overflows
        ev["finite"] = False
        ev["raised"] = "output of absurd magnitude"
        return ev, {}


def _project_finite(b, ev, f, pairs, ref, rot, R, M_rot, also_ref):
    f["kDev"] = max(_rel(o["bulk_modulus"], e["K"]) for o, e in pairs)
    f["gDev"] = max(_rel(o["shear_modulus"], e["G"]) for o, e in pairs)
    f["anisoDev"] = max(_rel(o["percent_anisotropy"], e["pct"]) for o, e in pairs)
    f["rangeOut"] = max(max(0.0, -float(o["percent_anisotropy"]), float(o["percent_anisotropy"]) - 100.0) for o, _ in pairs)
    f["pctDev"] = max(abs(float(rot[k]) - float(ref[k])) for k in PCT)
    outs = [rot, ref]
    f["unitDev"] = max(abs(float(np.linalg.norm(o["hexagonal_axis"])) - 1.0) for o in outs)
    want = R @ ref["hexagonal_axis"]
    f["axisDev"] = float(min(np.max(np.abs(rot["hexagonal_axis"] - want)), np.max(np.abs(rot["hexagonal_axis"] + want))))
    f["mono"] = max(abs(float(o["percent_monoclinic"])) for o in outs)
    f["tric"] = max(abs(float(o["percent_triclinic"])) for o in outs)
    f["pyth"] = max(
        abs(sum(float(o[k]) ** 2 for k in ("percent_hexagonal", "percent_tetragonal", "percent_orthorhombic")) - float(o["percent_anisotropy"]) ** 2)
        / max(1.0, float(o["percent_anisotropy"]) ** 2)
        for o in outs
    )
    g = b.gaps(M_rot)
    if also_ref:
        g = tuple(min(x, y) for x, y in zip(g, b.gaps(also_ref[0])))
    f["gapD"], f["gapV"], f["pairGap"] = g
    ev["m"] = {k: cap(f[k] * (1e9 if k in MARGINS else 1e12)) for k in MKEYS}
    return ev, f


# --------------------------------------------------------------------------- float concretisation
def _rng(*parts):
    return np.random.default_rng([SEED & 0xFFFFFFFF, zlib.crc32(json.dumps(parts).encode())])


def _rot(rng, n=None):
    from scipy.spatial.transform import Rotation

    return Rotation.random(n, random_state=rng).as_matrix()


class Textures:
    def __init__(self, pd):
        from pydrex import core, minerals

        self.pd, self.core = pd, core
        self.PH = {"olivine": core.MineralPhase.olivine, "enstatite": core.MineralPhase.enstatite}
        self.FAB = {"olivine": core.MineralFabric.olivine_A, "enstatite": core.MineralFabric.enstatite_AB}
        self.regime = core.DeformationRegime.matrix_dislocation
        self.builtin = minerals.StiffnessTensors()

    def mineral(self, phase, n, oris, vols):
        return self.pd.Mineral(phase=self.PH[phase], fabric=self.FAB[phase], regime=self.regime, n_grains=n,
                               fractions_init=np.array(vols, dtype=float), orientations_init=np.array(oris, dtype=float))

    def orientations(self, cls, n, rng):
        from scipy.spatial.transform import Rotation

        if cls == "voigt_clustered":
            a0 = _rot(rng)
            return Rotation.from_rotvec(rng.uniform(0.05, 0.6) * rng.normal(size=(n, 3))).as_matrix() @ a0
        return _rot(rng, n)

    def average(self, cls, n, mix, rng):
        phases = ["olivine", "enstatite"] if mix else ["olivine"]
        mins = [self.mineral(ph, n, self.orientations(cls, n, rng), rng.dirichlet(np.full(n, 0.7))) for ph in phases]
        u = float(rng.uniform(0.1, 0.9))
        phi = [u, 1.0 - u] if mix else [1.0]
        if cls == "voigt_evolved":
            params = self.pd.DefaultParams().as_dict()
            params["phase_assemblage"] = tuple(self.PH[p] for p in phases)
            params["phase_fractions"] = tuple(phi)
            params["gbm_mobility"] = float(rng.choice([10, 50, 125]))
            Q = _rot(rng)
            L = Q @ np.array([[0.0, 2.0, 0.0], [0.0, 0.0, 0.0], [0.0, 0.0, 0.0]]) @ Q.T  # simple shear in an oblique frame
            for m in mins:
                F = np.eye(3)
                for k in range(3):
                    F = m.update_orientations(params, F, lambda t, x: L, (0.15 * k, 0.15 * (k + 1), lambda t: np.zeros(3)))
        avg = np.asarray(self.pd.voigt_averages(mins, [self.PH[p] for p in phases], phi), dtype=float)
        return avg[-1]

    def ortho_random(self, rng):
        for _ in range(1000):
            d = rng.uniform(100, 350, 3)
            o = rng.uniform(-30, 120, 3)
            s = rng.uniform(30, 120, 3)
            B = np.array([[d[0], o[2], o[1]], [o[2], d[1], o[0]], [o[1], o[0], d[2]]])
            if np.min(np.linalg.eigvalsh(B)) > 1.0:  # positive definite with a margin (numpy leaf)
                C = np.zeros((6, 6))
                C[:3, :3] = B
                C[3, 3], C[4, 4], C[5, 5] = s
                return C
        raise MachineryError("could not draw a positive-definite orthorhombic tensor")


def float_scenarios(b, tex, scen, tier, reps):
    """[(sid, cls, A, B, Q)]: A the tensor, B the same tensor expressed in the frame rotated by Q."""
    out = []
    for s in sorted(scen, key=lambda x: json.dumps(x, sort_keys=True)):
        if s["thoroughOnly"] and tier != "thorough":
            continue
        cls = s["cls"]
        n_rep = reps if cls != "voigt_evolved" else max(1, reps // 10)
        if s["n"] >= 1000:
            n_rep = max(1, n_rep // 2)
        if cls.startswith("builtin_") or cls == "ortho_random":
            n_rep *= 3
        for rep in range(n_rep):
            rng = _rng(cls, s["n"], s["mix"], rep)
            if cls.startswith("builtin_"):
                A = np.array(getattr(tex.builtin, cls.split("_", 1)[1]), dtype=float)
            elif cls == "ortho_random":
                A = tex.ortho_random(rng)
                if rep % 2:  # "orthorhombic in some frame": the reference itself in a general frame
                    A = b.rotate6(A, _rot(rng))
            else:
                A = tex.average(cls, s["n"], s["mix"], rng)
            Q = _rot(rng)
            out.append((f"f/{cls}/{s['n']}/{int(s['mix'])}/{rep}", cls, A, b.rotate6(A, Q), Q))
    return out


# --------------------------------------------------------------------------- judge
def judge(events, d):
    path = d / "c12_measures.ndjson"
    write_ndjson(path, events)
    res = run_tlc("Elastic", "ElasticJudge", workers=1, timeout=900, env={"TRACE_FILE": str(path)})
    ver = parse_printed_json(res.output, "VERDICT")
    if len(ver) != len(events) or res.distinct != 2 * len(events) or sorted(v["line"] for v in ver) != list(range(1, len(events) + 1)):
        raise MachineryError(f"judge specification did not consume every recorded line: {len(ver)} verdicts / {res.distinct} states for {len(events)} lines")
    by_line = {v["line"]: v for v in ver}
    return [(list(by_line[i + 1]["bad"]), list(by_line[i + 1]["skip"])) for i in range(len(events))], res


DEMANDED_ALWAYS = ("kDev", "gDev", "anisoDev", "rangeOut", "unitDev")
FRAME = ("pctDev", "axisDev")
ORTHO = ("mono", "tric", "pyth")


# --------------------------------------------------------------------------- main
def main(tier):
    chk = Check(PID, tier)
    quick = tier != "thorough"
    cfg = "Elastic" if quick else "Elastic_thorough"
    res = run_tlc("Elastic", cfg, workers=WORKERS, timeout=300 if quick else 1500)
    chk.add_tlc(cfg, res, "library validity (Sylvester), isotropic-part lemmas, cascade Pythagoras for the three axis choices, frame lemma "
                          "(K, G, |X|^2, |X-X_iso|^2, co-rotating contractions, eigen-axes) on tensors x 40 rotations; emission of exact cases")
    tabs = parse_printed_json(res.output, "TABLES")
    if len(tabs) != 1:
        raise MachineryError(f"expected one TABLES record, got {len(tabs)}")
    tables = tabs[0]
    cnt = tables["counts"]
    tensors = {t["t"]: t for t in parse_printed_json(res.output, "TENSOR")}
    cases = parse_printed_json(res.output, "CASE")
    scen = parse_printed_json(res.output, "SCEN")
    cases.sort(key=lambda c: (c["t"], c["r"]))  # TLC workers print in arbitrary order
    if len(tensors) != cnt["tensors"] or len(cases) != cnt["tensors"] * cnt["rots"] or len(scen) != cnt["scen"]:
        raise MachineryError(f"emitted {len(tensors)} tensors / {len(cases)} cases / {len(scen)} scenario classes, spec counts {cnt}")
    if res.distinct != 2 * (len(tensors) + len(cases) + len(scen) + 1):
        raise MachineryError(f"state count {res.distinct} does not match the emitted records")
    if len({(c["t"], c["r"]) for c in cases}) != len(cases) or cnt["ortho"] < (40 if quick else 150) or cnt["notPD"] < 1:
        raise MachineryError(f"case table malformed: {cnt}")
    chk.cov["library"] = dict(cnt)
    neg = run_tlc("Elastic", "ElasticNeg", workers=4, timeout=300, expect_violation=True)
    chk.add_tlc("ElasticNeg", neg, "non-vacuity: the unweighted sum of squares of the 21 entries is not invariant under TRotate")
    chk.control("tlc-refutes-unweighted-norm-invariance", neg.violated == "NegFlatNormInvariant", str(neg.violated))

    b = Binding(tables)
    ident = tables["identity"]
    pd = quiet_pydrex()
    impl = Impl(pd)
    tex = Textures(pd)

    # the spec's built-in table against the library's actual defaults
    builtin_ok = {}
    for t in tensors.values():
        if t["fam"] == "builtin":
            builtin_ok[t["t"]] = bool(np.allclose(qmat(t["M"]) / t["scale"], np.array(getattr(tex.builtin, t["name"]), dtype=float), rtol=0, atol=1e-9))
            if not builtin_ok[t["t"]]:
                chk.skip(f"built-in {t['name']} stiffness differs from the spec's table: exact cases of it are run as a custom tensor; the actual built-in is covered by the float class")

    # ---- 1. spec -> code: every exact case
    mats = [qmat(c["M"]) / c["scale"] for c in cases]
    outs = impl(mats)
    ref_of = {c["t"]: outs[i] for i, c in enumerate(cases) if c["r"] == ident}
    events, meta = [], []
    selfcheck = 0.0
    for i, c in enumerate(cases):
        prog = b.program(mats[i])
        exp = dict(K=qf(c["K"]) / c["scale"], G=qf(c["G"]) / c["scale"], pct=evalterm.ev(c["pct"], prog))
        # machinery self-check: the two routes of the spec (exact arithmetic, term program) must agree
        dev = max(_rel(prog["K"], exp["K"]), _rel(prog["G"], exp["G"]), _rel(prog["pct"], exp["pct"]))
        selfcheck = max(selfcheck, dev)
        if dev > 1e-11:
            raise MachineryError(f"term program and exact values of Elastic.tla disagree on case t={c['t']} r={c['r']}: {dev:.3g}")
        ev, f = project(b, f"x/{c['t']}/{c['r']}", "exact", c["fam"], tensors[c["t"]]["hexTie"], ref_of[c["t"]], outs[i], b.rots[c["r"] - 1], mats[i], exp)
        events.append(ev)
        meta.append(dict(kind="exact", case=c, floats=f, nontrivial=c["r"] != ident, expected=exp))
    chk.maximum("spec_selfcheck_program_vs_exact", selfcheck)

    # informational only (NOT part of the statement, never a violation): the implementation's unrotated
    # class percentages and axis against the spec's exact cascade with the closest hexagonal axis
    info = dict(tensors=0, axis_agrees=0, max_class_pct_dev=0.0, hex_ties=0)
    for t in tensors.values():
        if not t["exact"] or not _finite(ref_of[t["t"]]):
            continue
        info["tensors"] += 1
        info["hex_ties"] += int(t["hexTie"])
        o = ref_of[t["t"]]
        info["axis_agrees"] += int(abs(abs(float(o["hexagonal_axis"][t["bestAxis"] - 1])) - 1.0) < 1e-9)
        for k, name in (("hex", "percent_hexagonal"), ("tetr", "percent_tetragonal"), ("ortho", "percent_orthorhombic")):
            info["max_class_pct_dev"] = max(info["max_class_pct_dev"], abs(float(o[name]) - 100.0 * math.sqrt(qf(t["class2"][k]))))
    chk.cov["informational_vs_exact_cascade"] = info

    # ---- 2. code -> spec: float scenarios
    reps = 10 if quick else 250
    scs = float_scenarios(b, tex, scen, tier, reps)
    fouts = impl([s[2] for s in scs] + [s[3] for s in scs])
    for k, (sid, cls, A, B, Q) in enumerate(scs):
        pa, pb = b.program(A), b.program(B)
        ev, f = project(b, sid, "float", cls, False, fouts[k], fouts[len(scs) + k], Q, B, pb, also_ref=(A, pa))
        events.append(ev)
        meta.append(dict(kind="float", sid=sid, cls=cls, A=A, B=B, Q=Q, floats=f, nontrivial=True))
    n_real = len(events)

    # ---- 3. negative controls riding in the same judge run
    ctl = []  # (event, expected bad list or None, expected skip membership or None, impl-dependent?)
    clean = dict(sid="ctl/clean", kind="float", cls="ortho_random", hexTie=False, finite=True, m=dict(ZERO_M, gapD=50_000_000, gapV=50_000_000, pairGap=900_000_000))
    ctl.append((clean, [], None, False))
    for field, clause in (("kDev", "bulk-modulus"), ("gDev", "shear-modulus"), ("anisoDev", "percent-anisotropy"), ("rangeOut", "anisotropy-outside-0-100"),
                          ("unitDev", "axis-not-unit"), ("pctDev", "percentages-change-under-rotation"), ("axisDev", "axis-does-not-corotate"),
                          ("mono", "monoclinic-part-nonzero"), ("tric", "triclinic-part-nonzero"), ("pyth", "class-squares-do-not-sum")):
        e = json.loads(json.dumps(clean))
        e["sid"] = f"ctl/corrupt/{field}"
        e["m"][field] = 5_000_000 if field in FRAME + ORTHO + ("unitDev",) else 5_000  # 5e-6 > 1e-6 / 5e-9 > 1e-9
        ctl.append((e, [clause], None, False))
    e = json.loads(json.dumps(clean))
    e.update(sid="ctl/not-ortho-class", cls="voigt_random")
    e["m"].update(mono=BIG, tric=BIG, pyth=BIG)  # not demanded outside the orthorhombic classes
    ctl.append((e, [], None, False))
    e = json.loads(json.dumps(clean))
    e["sid"] = "ctl/excluded/gap"
    e["m"].update(pctDev=BIG, axisDev=BIG, mono=BIG, tric=BIG, pyth=BIG, gapV=1000)  # ill-conditioned: excluded, not rejected
    ctl.append((e, [], "eigenvalues-not-separated", False))
    e = json.loads(json.dumps(clean))
    e["sid"] = "ctl/excluded/gap-still-judges-moduli"
    e["m"].update(kDev=5_000, gapD=0)
    ctl.append((e, ["bulk-modulus"], "eigenvalues-not-separated", False))
    e = json.loads(json.dumps(clean))
    e["sid"] = "ctl/excluded/pairing"
    e["m"].update(pctDev=BIG, axisDev=BIG, pairGap=10)
    ctl.append((e, [], "eigenvector-pairing-ambiguous", False))
    e = json.loads(json.dumps(clean))
    e.update(sid="ctl/excluded/tie", hexTie=True)
    e["m"].update(axisDev=BIG, pctDev=BIG)
    ctl.append((e, [], "hexagonal-axis-tie", False))
    e = json.loads(json.dumps(clean))
    e.update(sid="ctl/not-finite", finite=False)
    ctl.append((e, ["not-finite"], None, False))
    e = json.loads(json.dumps(clean))
    e["sid"] = "ctl/malformed"
    del e["m"]["pyth"]
    ctl.append((e, ["malformed"], None, False))
    # replayer controls: wrong expected values / wrong rotation / mutant implementations must be flagged
    cand = [i for i, c in enumerate(cases) if c["exact"] and c["r"] > 24 and not tensors[c["t"]]["hexTie"] and _finite(outs[i])]
    if not cand:
        # every exact case in a rotated frame came back raised / non-finite: that is itself the verdict (the controls
        # below are built from the implementation's output and cannot be constructed)
        k = next(i for i, c in enumerate(cases) if c["exact"] and c["r"] > 24)
        chk.violation(dict(level="exact", clause="not-finite", cls="every-rotated-exact-case"),
                      f"elasticity_components returned no finite result for any exact case in a rotated frame (first: {outs[k].get('raised') or 'non-finite output'})",
                      dict(kind="exact", case=cases[k]))
        chk.sample(dict(kind="exact-evaluation (rejected)", event=events[0]))
        return chk.finish(rule="exact cases replayed; run stopped because no rotated exact case produced a finite result", exhaustive=False)
    i0 = cand[len(cand) // 2]
    c0 = cases[i0]
    exp0 = meta[i0]["expected"]
    other = next(c for c in cases if c["exact"] and c["r"] == c0["r"] and c["aniso2"] != c0["aniso2"] and c["K"] != c0["K"])
    for name, wrong, clause in (
        ("wrong-K", dict(exp0, K=exp0["K"] * (1 + 1e-6)), "bulk-modulus"),
        ("wrong-G", dict(exp0, G=qf(other["G"]) / other["scale"] if other["G"] != c0["G"] else exp0["G"] + 1e-3), "shear-modulus"),
        ("wrong-aniso", dict(exp0, pct=evalterm.ev(other["pct"], {})), "percent-anisotropy"),
    ):
        e, _ = project(b, f"ctl/replayer/{name}", "exact", c0["fam"], False, ref_of[c0["t"]], outs[i0], b.rots[c0["r"] - 1], mats[i0], wrong)
        ctl.append((e, [clause], None, True))
    a0 = ref_of[c0["t"]]["hexagonal_axis"] if _finite(ref_of[c0["t"]]) else np.array([0.0, 0.0, 1.0])
    a0 = np.asarray(a0, dtype=float).reshape(-1)
    if a0.shape != (3,) or not np.all(np.isfinite(a0)) or abs(float(np.linalg.norm(a0)) - 1.0) > 1e-6:
        a0 = np.array([0.0, 0.0, 1.0])   # a broken implementation must not break the construction of a control
    rw = next(r for r in range(25, 41) if min(np.max(np.abs(b.rots[r - 1] @ a0 - b.rots[c0["r"] - 1] @ a0)), np.max(np.abs(b.rots[r - 1] @ a0 + b.rots[c0["r"] - 1] @ a0))) > 0.1)
    e, _ = project(b, "ctl/replayer/wrong-rotation", "exact", c0["fam"], False, ref_of[c0["t"]], outs[i0], b.rots[rw - 1], mats[i0], exp0)
    ctl.append((e, ["axis-does-not-corotate"], None, True))
    mut_expect = {"voigt45": {"percentages-change-under-rotation"}, "shear2": {"shear-modulus", "percent-anisotropy"}, "fixedaxis": {"axis-does-not-corotate"}}
    mut_lines = {}
    sub = cand[:: max(1, len(cand) // 12)][:12]
    for mut in mut_expect:
        mi = Impl(pd, mut)
        mo = mi([mats[i] for i in sub])
        mref = {}
        for i in sub:
            t = cases[i]["t"]
            if t not in mref:
                mref[t] = mi([mats[next(k for k, c in enumerate(cases) if c["t"] == t and c["r"] == ident)]])[0]
        mut_lines[mut] = []
        for k, i in enumerate(sub):
            c = cases[i]
            e, _ = project(b, f"ctl/mutant/{mut}/{c['t']}/{c['r']}", "exact", c["fam"], False, mref[c["t"]], mo[k], b.rots[c["r"] - 1], mats[i], meta[i]["expected"])
            mut_lines[mut].append(len(events) + len(ctl))
            ctl.append((e, None, None, True))

    with scratch() as d:
        verdicts, jr = judge(events + [x[0] for x in ctl], d)
    chk.add_tlc("ElasticJudge", jr, f"{n_real} recorded evaluations ({len(cases)} exact, {len(scs)} float) + {len(ctl)} control lines judged by Law")
    chk.cov["traces_validated_against_impl"] += n_real

    # ---- 4. verdicts of the real evaluations
    stats, min_gap = {}, {}
    shown = set()
    for (bad, skips), ev, mt in zip(verdicts[:n_real], events, meta):
        chk.count(ev["sid"], nontrivial=mt["nontrivial"])
        st = stats.setdefault(ev["kind"] + ":" + ev["cls"], dict(judged=0, rejected=0, axes_excluded=0))
        st["judged"] += 1
        st["rejected"] += int(bool(bad))
        st["axes_excluded"] += int(bool(skips))
        for s in skips:
            chk.skip(f"{ev['kind']}: {s} - frame and orthorhombic clauses not demanded (moduli and percent anisotropy still judged)")
        f = mt["floats"]
        demanded = DEMANDED_ALWAYS + (() if skips else FRAME + (ORTHO if ev["cls"] in b.ortho_classes else ()))
        for k in demanded:
            if k in f:
                chk.maximum(f"{ev['kind']}_{k}", f[k])
        if f and not skips:
            for k in MARGINS:
                min_gap[ev["kind"] + "_" + k] = min(min_gap.get(ev["kind"] + "_" + k, 1.0), f[k])
        for cl in bad:
            sig = dict(level=ev["kind"], clause=cl, cls=ev["cls"])
            if mt["kind"] == "exact":
                c = mt["case"]
                what = (f"{tensors[c['t']]['name']} tensor t={c['t']} in the frame of rotation r={c['r']}: {cl} "
                        f"({ev.get('raised') or 'deviations ' + json.dumps({k: float('%.3g' % v) for k, v in f.items()})})")
                rp = dict(kind="exact", case=c, rotation=tables["rots"][c["r"] - 1], tensor=tensors[c["t"]], expected=mt["expected"])
            else:
                what = f"float scenario {ev['sid']} (seed {SEED}): {cl} ({ev.get('raised') or 'deviations ' + json.dumps({k: float('%.3g' % v) for k, v in f.items()})})"
                rp = dict(kind="float", sid=ev["sid"], seed=SEED, cls=ev["cls"], A=mt["A"].tolist(), B=mt["B"].tolist(), Q=mt["Q"].tolist())
            chk.violation(sig, what, rp)
        if not bad and ev["kind"] + ev["cls"] not in shown and mt["nontrivial"] and (mt["kind"] == "float" or mt["case"]["r"] > 24):
            shown.add(ev["kind"] + ev["cls"])
            if mt["kind"] == "exact":
                c = mt["case"]
                chk.sample(dict(kind="exact-case", t=c["t"], r=c["r"], fam=c["fam"], rotation=tables["rots"][c["r"] - 1], M_first_row=c["M"][0], K=c["K"], G=c["G"], aniso2=c["aniso2"], event=ev), limit=8)
            else:
                chk.sample(dict(kind="float-scenario", event=ev), limit=8)
    if not chk.cov["samples"]:  # nothing passed: the evidence still shows what was evaluated
        for kind in ("exact", "float"):
            k = next((k for k, mt in enumerate(meta) if mt["kind"] == kind and mt["nontrivial"]), None)
            if k is not None:
                chk.sample(dict(kind=kind + "-evaluation (rejected)", event=events[k]), limit=8)
    chk.cov["verdicts_by_class"] = stats
    for k in sorted(stats):
        print(f"C12 {k}: " + ", ".join(f"{a}={v}" for a, v in stats[k].items()))
    chk.cov["smallest_margins_among_judged_frame_clauses"] = min_gap

    # ---- 5. verdicts of the controls
    def impl_control(name, fired, detail=""):
        """Controls that run the real function presuppose that it satisfies the property; when this run has
        already found violations they are recorded but not enforced (exit 1, not machinery failure)."""
        if not fired and (chk.violations or chk.known_hits):
            chk.cov["negative_controls"].append({"control": name, "fired": False, "detail": "not enforced - the implementation violates the property in this run; " + detail})
            return
        chk.control(name, fired, detail)

    for k, (e, want_bad, want_skip, dep) in enumerate(ctl):
        if want_bad is None:
            continue
        bad, skips = verdicts[n_real + k]
        ok = bad == want_bad and (want_skip is None or want_skip in skips) and (want_skip is not None or not skips)
        (impl_control if dep else chk.control)("judge:" + e["sid"], ok, f"bad={bad} skip={skips}")
    for mut, need in mut_expect.items():
        got = set()
        for ln in mut_lines[mut]:
            got |= set(verdicts[ln][0])
        impl_control(f"mutant-{mut}-rejected", need <= got, str(sorted(got)))

    # ---- a series whose neighbours resemble each other: consecutive members that share BOTH contractions (dilatational
    # and deviatoric stiffness) exactly and differ elsewhere - an integer family: C44+=a, C55+=b, C66+=c, C11-=b+c,
    # C22-=a+c, C33-=a+b, C23+=a, C13+=b, C12+=c.  The decomposition of a matrix is a function of that matrix: what a
    # member reports inside the series is what it reports alone (in the identity frame and after an axis permutation).
    base = np.diag([320.0, 200.0, 240.0, 64.0, 78.0, 80.0])
    base[0, 1] = base[1, 0] = 68.0
    base[0, 2] = base[2, 0] = 72.0
    base[1, 2] = base[2, 1] = 74.0

    def shifted(a, b, c):
        m = base.copy()
        m[3, 3] += a; m[4, 4] += b; m[5, 5] += c
        m[0, 0] -= b + c; m[1, 1] -= a + c; m[2, 2] -= a + b
        m[1, 2] += a; m[2, 1] += a; m[0, 2] += b; m[2, 0] += b; m[0, 1] += c; m[1, 0] += c
        return m

    perm = [1, 2, 0, 4, 5, 3]
    fn = impl.fn
    for fam in ([(0, 0, 0), (6, -3, 2), (0, 0, 0), (-4, 5, 1)], [(2, 2, -5), (0, 0, 0)]):
        for frame in ("identity", "cyclic"):
            mats = [shifted(*abc) for abc in fam]
            if frame == "cyclic":
                mats = [m[perm, :][:, perm] for m in mats]
            try:
                series = fn(np.array(mats))
                for i, m in enumerate(mats):
                    alone = fn(np.array([m]))
                    chk.count(("same-contraction-neighbours", str(fam), frame, i))
                    same = all(np.allclose(np.asarray(series[k][i], dtype=float), np.asarray(alone[k][0], dtype=float), rtol=1e-9, atol=1e-9, equal_nan=True) for k in KEYS if k != "hexagonal_axis")
                    a1, a2 = np.asarray(series["hexagonal_axis"][i], dtype=float), np.asarray(alone["hexagonal_axis"][0], dtype=float)
                    same = same and (np.allclose(a1, a2, atol=1e-9, equal_nan=True) or np.allclose(a1, -a2, atol=1e-9, equal_nan=True))
                    if not same:
                        chk.violation(dict(level="series", clause="member-of-a-series-differs-from-itself-alone", neighbours="same-contractions"),
                                      f"member {i} of a series whose consecutive members share both contractions reports other percentages / axis than alone ({frame} frame, shifts {fam})",
                                      dict(kind="same-contraction-series", shifts=fam, frame=frame, member=i))
            except Exception as ex:  # noqa: BLE001
                chk.violation(dict(level="series", clause="series-raised", exc=type(ex).__name__), f"elasticity_components raised {ex!r} on a series of positive-definite orthorhombic tensors", dict(kind="same-contraction-series", shifts=fam, frame=frame))

    # ---- a creeping series: consecutive members differ, but by less than any tolerance a "same as the previous one"
    # shortcut would plausibly use (a slowly stiffening, slowly turning tensor along a near-stagnant stretch of a
    # pathline).  Same law: a member inside the series reports what it reports alone.
    P = np.zeros((6, 6))
    P[0, 3] = P[3, 0] = 1.0; P[1, 4] = P[4, 1] = -2.0; P[2, 5] = P[5, 2] = 1.5; P[0, 4] = P[4, 0] = 0.5; P[3, 4] = P[4, 3] = -1.0
    generic = base + 3.0 * P
    length = 400 if tier == "quick" else 4000
    for grow, turn in ((3e-8, 5e-10), (1e-9, 1e-8), (2e-12, 0.0), (0.0, 3e-7)):
        mats = [generic * (1.0 + grow * k) + (turn * k) * 100.0 * P for k in range(length)]
        try:
            series = fn(np.array(mats))
            for i in (0, 1, 2, 7, length // 2, length - 1):
                alone = fn(np.array([mats[i]]))
                chk.count(("creeping-series", grow, turn, i))
                same = all(np.allclose(np.asarray(series[k][i], dtype=float), np.asarray(alone[k][0], dtype=float), rtol=1e-11, atol=1e-11, equal_nan=True) for k in KEYS if k != "hexagonal_axis")
                a1, a2 = np.asarray(series["hexagonal_axis"][i], dtype=float), np.asarray(alone["hexagonal_axis"][0], dtype=float)
                same = same and (np.allclose(a1, a2, atol=1e-11, equal_nan=True) or np.allclose(a1, -a2, atol=1e-11, equal_nan=True))
                if not same:
                    chk.violation(dict(level="series", clause="member-of-a-series-differs-from-itself-alone", neighbours="creeping"),
                                  f"member {i} of a creeping series (relative growth {grow} and coupling drift {turn} per member) reports other moduli / percentages / axis than alone",
                                  dict(kind="creeping-series", grow=grow, turn=turn, member=i, length=length))
                    break
        except Exception as ex:  # noqa: BLE001
            chk.violation(dict(level="series", clause="series-raised", exc=type(ex).__name__), f"elasticity_components raised {ex!r} on a creeping series of positive-definite tensors", dict(kind="creeping-series", grow=grow, turn=turn))

    return chk.finish(
        rule="exact: every (library tensor, rotation) CASE emitted by Elastic.tla - 2 built-in tensors and the valid members of the "
        "small-integer orthorhombic family x 40 rotations with denominator <= 3, distinct by (t, r), non-trivial when r is not the identity; "
        "float: every SCEN class of the tier (actual built-ins, random PD orthorhombic, Voigt averages of random / clustered / evolved "
        "textures x grain counts x one or two phases) x seeded repetitions, each under one random frame rotation, distinct by scenario id",
        exhaustive=False,
        trusted=["harness/evalterm.py evaluating the term program and functionals emitted by Elastic.tla",
                 "numpy einsum (float frame rotation with the spec's index maps), numpy eigvalsh (eigen-gap margins), scipy Rotation.random"],
    )


def replay(obj):
    """./check C12 --replay <file>: run the stored input against the current tree again."""
    rp = obj.get("replay") or {}
    pd = quiet_pydrex()
    impl = Impl(pd)
    res = run_tlc("Elastic", "Elastic", workers=WORKERS, timeout=300)
    b = Binding(parse_printed_json(res.output, "TABLES")[0])
    if rp.get("kind") == "exact":
        c, t = rp["case"], rp["tensor"]
        M = qmat(c["M"]) / c["scale"]
        ref, rot = impl([qmat(t["M"]) / t["scale"], M])
        R = qmat(rp["rotation"])
        ev, f = project(b, "replay", "exact", c["fam"], t["hexTie"], ref, rot, R, M, rp["expected"])
    elif rp.get("kind") == "float":
        A, B, Q = (np.array(rp[k], dtype=float) for k in ("A", "B", "Q"))
        ref, rot = impl([A, B])
        ev, f = project(b, "replay", "float", rp["cls"], False, ref, rot, Q, B, b.program(B), also_ref=(A, b.program(A)))
    else:
        print("nothing to replay")
        return 0
    with scratch() as d:
        verdicts, _ = judge([ev], d)
    print(json.dumps(dict(event=ev, deviations=f, bad=verdicts[0][0], skip=verdicts[0][1]), indent=1, default=str))
    return 1 if verdicts[0][0] else 0
