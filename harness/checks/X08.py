"""X08 (extension, not one of the listed properties) - the pole-figure command line tool follows spec/PoleFigTool.tla.

Spec:  PoleFigTool.tla - pydrex.cli.PoleFigureVisualiser as a state machine (Parse -> Load -> Select -> Resample ->
       Strains -> Plot) with Python's range / slice semantics written out (PySlice = PySlice_AdjustIndices).  TLC checks
       over every world of the configuration (archive kinds x requested member set x history length x every
       `--range start:stop:step` with start, stop in 0..6 and step in -2..3, malformed texts, no range x strain file
       none / one row per snapshot / one row short): LabelsAreTrue (column j of a drawn figure shows snapshot labels[j]
       of the REQUESTED mineral with that snapshot's strain), InclusiveWhenAligned, DefaultIsPrefix, NoSilentEmpty,
       Terminates, and the named deviations OverRun, DescendingToZeroRefused, ClippedStartMislabels (the last one found
       by TLC when the model was first run).
Bind:  every terminal state TLC emits is replayed through the REAL tool on real NPZ archives and SCSV files
       (sys.argv, Mineral.from_file, resample_orientations, read_scsv); what reaches visualisation.polefigures is
       recorded by attribute replacement and decoded (each snapshot of each member set is one distinguishable rotation,
       each strain row one distinguishable number): outcome class, label range, the snapshot behind every column, the
       member set they come from, the strain of every column.  The real renderer decides every refusal; it draws a
       sample of the figures (a file must appear).
"""
import json
import math
import os
import sys

import numpy as np

from harness.common import Check, MachineryError, parse_printed_json, quiet_pydrex, run_tlc, scratch

AXIS = {"none": 0, "a": 1, "b": 2}
NG = 3


def rot(axis, k):
    t = math.radians(4.0 * (k + 1))
    c, s = math.cos(t), math.sin(t)
    i, j = [(1, 2), (2, 0), (0, 1)][axis]
    m = np.eye(3)
    m[i, i], m[i, j], m[j, i], m[j, j] = c, -s, s, c
    return m


def decode(stack):
    """(member set, snapshot index) of a resampled stack, or None when it is not ONE snapshot of the archive."""
    m = np.asarray(stack, dtype=float)
    if m.ndim != 3 or m.shape[1:] != (3, 3) or len(m) == 0 or not np.isfinite(m).all():
        return None
    if np.abs(m - m[0]).max() > 1e-12:
        return None
    for name, ax in AXIS.items():
        i, j = [(1, 2), (2, 0), (0, 1)][ax]
        if abs(m[0][ax, ax] - 1.0) < 1e-12 and abs(m[0][i, i] - 1.0) > 1e-9:
            k = math.degrees(math.atan2(m[0][j, i], m[0][i, i])) / 4.0 - 1
            if abs(k - round(k)) < 1e-6:
                return name, int(round(k))
    return None


def main(tier):
    chk = Check("X08", tier)
    res = run_tlc("PoleFigTool", "PoleFigTool", workers=8, timeout=600)
    chk.add_tlc("PoleFigTool", res, "LabelsAreTrue, InclusiveWhenAligned, DefaultIsPrefix, NoSilentEmpty, Terminates, named deviations; every world")
    cases = parse_printed_json(res.output, "CASE")
    cases.sort(key=lambda r: json.dumps(r["w"], sort_keys=True))   # TLC's workers emit in no fixed order
    if len(cases) != 40500:
        raise MachineryError(f"{len(cases)} terminal states instead of 40500")
    pd = quiet_pydrex()
    import pydrex.cli as cli
    import pydrex.visualisation as vis
    from pydrex import core, io, minerals

    real_polefigures = vis.polefigures
    seen = {}
    render_every = 400 if tier == "quick" else 60
    # quick tier: every world of the two shorter multi-snapshot histories and of the 26-snapshot one for the default
    # request, every seventh world otherwise; thorough: every world
    def chosen(i, w):
        if tier != "quick":
            return True
        return w["n"] in (2, 5) or w["range"]["k"] != "ok" or i % 7 == 0

    with scratch("x08-") as d:
        archives = {}

        def archive(kind, n):
            key = (kind, n)
            if key not in archives:
                path = str(d / f"arch_{kind}_{n}.npz")
                members = {"whole": ["none"], "ab": ["a", "b"], "whole_a": ["none", "a"]}[kind]
                for idx, pf in enumerate(members):
                    # the first member set of the archive has n snapshots, any other one n + 1
                    ns = n if idx == 0 else n + 1
                    m = minerals.Mineral(core.MineralPhase.olivine, core.MineralFabric.olivine_A, core.DeformationRegime.matrix_dislocation, n_grains=NG)
                    m.orientations = [np.stack([rot(AXIS[pf], k)] * NG) for k in range(ns)]
                    m.fractions = [np.full(NG, 1.0 / NG) for _ in range(ns)]
                    m.save(path, postfix=None if pf == "none" else pf)
                archives[key] = (path, {pf: (n if idx == 0 else n + 1) for idx, pf in enumerate(members)})
            return archives[key]

        strainfiles = {}

        def strainfile(rows):
            if rows not in strainfiles:
                path = str(d / f"strain_{rows}.scsv")
                io.save_scsv(path, {"delimiter": ",", "missing": "-", "fields": [{"name": "strain", "type": "float", "fill": "NaN"}]}, [[10.0 * k + 5 for k in range(rows)]])
                strainfiles[rows] = path
            return strainfiles[rows]

        calls = []
        errors = []

        def recorder(orientations, ref_axes, i_range, density=False, savefile="polefigures.png", strains=None, **kwargs):
            calls.append(dict(stacks=[decode(s) for s in orientations], labels=list(i_range), strains=None if strains is None else list(strains), savefile=savefile))
            consistent = len(orientations) == len(i_range) and (strains is None or len(strains) == len(i_range))
            if not consistent or recorder.render:
                # the real renderer decides every refusal (it raises before it draws) and draws the sampled figures
                return real_polefigures(orientations, ref_axes, i_range, density=density, savefile=savefile, strains=strains, **kwargs)

        recorder.render = False
        real_error = cli._log.error
        argv0 = sys.argv
        vis.polefigures = recorder
        cli._log.error = lambda *a, **k: errors.append(a)
        n_render = 0
        try:
            for i, rec in enumerate(cases):
                w = rec["w"]
                if not chosen(i, w):
                    chk.skip("world-not-in-the-quick-sample")
                    continue
                # the member set the world's `n` describes is the REQUESTED one when the archive holds it
                kind, pf = w["kind"], w["postfix"]
                members = {"whole": ["none"], "ab": ["a", "b"], "whole_a": ["none", "a"]}[kind]
                # histories: requested member has n snapshots; build the archive so that this is the case
                base_n = w["n"] if (pf not in members or members.index(pf) == 0) else w["n"] - 1
                if base_n < 1:
                    chk.skip("history-would-be-empty")
                    continue
                path, lens = archive(kind, base_n)
                if pf in lens and lens[pf] != w["n"]:
                    raise MachineryError("archive construction does not realise the world")
                out = str(d / "out.png")
                if os.path.exists(out):
                    os.remove(out)
                argv = ["pydrex-polefigures", path, "-o", out]
                r = w["range"]
                if r["k"] == "ok":
                    argv += ["-r", f"{r['start']}:{r['stop']}:{r['step']}"]
                elif r["k"] == "bad":
                    argv += ["-r", r["text"]]
                if pf != "none":
                    argv += ["-p", pf]
                if w["scsv"] != "none":
                    argv += ["-f", strainfile(w["n"] if w["scsv"] == "full" else w["n"] - 1)]
                del calls[:], errors[:]
                want = rec["outcome"]
                recorder.render = want == "drawn" and len(rec["sel"]) <= 3 and (n_render * render_every <= i)
                sys.argv = argv
                try:
                    cli.PoleFigureVisualiser()()
                    got = "reported" if errors else ("drawn" if calls else "nothing")
                except KeyError:
                    got = "KeyError"
                except SystemExit as ex:
                    got = f"SystemExit:{ex.code}"
                except Exception as ex:  # noqa: BLE001
                    got = f"other:{type(ex).__name__}: {ex}"[:160]
                chk.count((kind, pf, w["n"], str(r), w["scsv"]))
                seen[want] = seen.get(want, 0) + 1
                sig = dict(range=r["k"], step=r.get("step", "-"), scsv=w["scsv"], kind=kind, postfix=pf)
                shown = " ".join(argv[1:2] + argv[4:])
                if got != want:
                    chk.violation(dict(sig, clause="outcome", want=want, got=got.split(":")[0]), f"pydrex-polefigures {shown} on a history of {w['n']} snapshots: {got}; PoleFigTool.tla says {want}", dict(case=rec, argv=argv))
                    continue
                if want != "drawn":
                    continue
                c = calls[-1]
                if c["labels"] != rec["labels"]:
                    chk.violation(dict(sig, clause="labels"), f"pydrex-polefigures {shown}: labels {c['labels']}, PoleFigTool.tla says {rec['labels']}", dict(case=rec, argv=argv))
                cols = c["stacks"]
                if any(x is None for x in cols):
                    chk.violation(dict(sig, clause="column-is-not-one-snapshot"), f"pydrex-polefigures {shown}: a column mixes snapshots or holds something that is not a stored orientation", dict(case=rec, argv=argv))
                    continue
                if [x[1] for x in cols] != rec["sel"]:
                    chk.violation(dict(sig, clause="columns-show-other-snapshots"), f"pydrex-polefigures {shown}: columns show snapshots {[x[1] for x in cols]}, PoleFigTool.tla says {rec['sel']} (labels {rec['labels']})", dict(case=rec, argv=argv))
                if any(x[0] != pf for x in cols):
                    chk.violation(dict(sig, clause="columns-from-another-mineral"), f"pydrex-polefigures {shown}: columns come from member sets {sorted({x[0] for x in cols})}, requested {pf}", dict(case=rec, argv=argv))
                if w["scsv"] != "none":
                    gotstr = None if c["strains"] is None else [int(round((s - 5) / 10.0)) for s in c["strains"]]
                    if gotstr != rec["strains"]:
                        chk.violation(dict(sig, clause="strain-rows"), f"pydrex-polefigures {shown}: strain rows {gotstr}, PoleFigTool.tla says {rec['strains']}", dict(case=rec, argv=argv))
                elif c["strains"] is not None:
                    chk.violation(dict(sig, clause="strains-without-a-file"), f"pydrex-polefigures {shown}: strains passed without a strain file", dict(case=rec, argv=argv))
                if recorder.render:
                    n_render += 1
                    if not os.path.exists(out) or os.path.getsize(out) == 0:
                        chk.violation(dict(sig, clause="no-figure-written"), f"pydrex-polefigures {shown}: reported nothing and wrote no figure", dict(case=rec, argv=argv))
        finally:
            vis.polefigures = real_polefigures
            cli._log.error = real_error
            sys.argv = argv0
    chk.cov["outcomes_replayed"] = seen
    chk.cov["figures_rendered"] = n_render
    chk.sample(dict(kind="case", case=cases[0]))
    chk.control("decoder-tells-snapshots-apart", decode(np.stack([rot(1, 3)] * NG)) == ("a", 3) and decode(np.stack([rot(1, 3), rot(1, 4), rot(1, 3)])) is None)
    return chk.finish(rule="every terminal state enumerated by TLC replayed through the real tool (quick: sampled worlds)", exhaustive=(tier != "quick"))
