"""C18 - analytic flows are self-consistent and pathlines follow them inside the domain.

Spec:  Flows.tla (Layer A: axis-letter table, documented velocity fields as Terms, symbolic
       derivative D, exact lemmas, exact strain increments) and PathTrace.tla (Layer C: scenario
       space of get_pathline calls + the trace machine that holds the thresholds of the statement).
Bind:  spec -> code  TLC prints axis-table entries, per (family, axis pair) the velocity terms, the
                     9 Jacobian terms and the trace term, parameter classes, point classes and
                     ~1.4e3 exact strain-increment cases; this file evaluates the terms with the
                     generic evaluator (harness/evalterm.py) and compares with the callables of
                     pydrex.velocity / pydrex.utils.strain_increment.
       code -> spec  the real get_pathline is called for every scenario TLC selected; integer
                     measures are recorded per pathline (Call / Stamps / Seg x 8 / End) and the
                     file is judged by TLC against PathTrace.tla.
All violations are collected (one signature per (clause, family[, exception])), so a failing
family does not hide the other clauses.
"""
import json
import math
import multiprocessing as mp
import os
import re
import zlib

import numpy as np

from harness import evalterm
from harness.common import SEED, Check, MachineryError, cap, parse_printed_json, quiet_pydrex, run_tlc, scratch, write_ndjson

LETTERS = "XYZ"
TOL = 1e-9  # DESIGN section 6: "to rounding", relative to the conditioning scale of the expression
NSEG = 8


# --------------------------------------------------------------------------- term helpers
def mag(t, env):
    """Forward rounding-error scale of a term: the value of the expression with every partial
    result replaced by its absolute value (sum of |terms| for + and -).  Generic, knows nothing
    about the flows; used only as the scale of the 1e-9 relative tolerance."""
    op = t[0]
    if op in ("q", "param", "var"):
        return abs(evalterm.ev(t, env))
    if op in ("add", "sub"):
        return mag(t[1], env) + mag(t[2], env)
    if op == "mul":
        return mag(t[1], env) * mag(t[2], env)
    if op == "div":
        b = evalterm.ev(t[2], env)
        return mag(t[1], env) * mag(t[2], env) / (b * b)
    if op == "neg":
        return mag(t[1], env)
    if op in ("sin", "cos"):
        return abs(evalterm.ev(t, env)) + mag(t[1], env)
    if op == "atan2":
        return abs(evalterm.ev(t, env)) + 1.0
    if op == "pow":
        e = evalterm.ev(t[2], env)
        return mag(t[1], env) ** e * (1.0 + abs(e)) if e >= 0 else abs(evalterm.ev(t, env)) * (1.0 + abs(e))
    if op == "sqrt":
        return abs(evalterm.ev(t, env))
    raise MachineryError(f"mag: unknown operator {op!r}")


def num(x):
    """n/d * 10^e (PathTrace.tla number format)."""
    return x["n"] / x["d"] * 10.0 ** x["e"]


def exc_class(ex):
    return "ValueError" if isinstance(ex, ValueError) else "other:" + type(ex).__name__


# --------------------------------------------------------------------------- A. axis table
def axis_verdict(e, name, out, r):
    """Pure judgement of one observed outcome against a table entry -> violation signature or None."""
    if e["ok"]:
        if out != "returned":
            return dict(clause="axis-table", call=name, kind="valid-pair-rejected", got=out)
        if name == "to_indices2d":
            try:
                same = tuple(int(v) for v in r) == tuple(e["idx"])
            except Exception:  # noqa: BLE001
                same = False
            if not same:
                return dict(clause="axis-table", call=name, kind="wrong-indices")
        return None
    if out != e["exc"]:
        return dict(clause="axis-table", call=name, kind="invalid-pair", got=out)
    return None


def replay_axis_entry(pd, e, chk):
    from pydrex import geometry, velocity

    calls = {
        "to_indices2d": lambda: geometry.to_indices2d(e["a"], e["b"]),
        "simple_shear": lambda: velocity.simple_shear_2d(e["a"], e["b"], 1.0),
        "cell": lambda: velocity.cell_2d(e["a"], e["b"], 1.0),
        "corner": lambda: velocity.corner_2d(e["a"], e["b"], 1.0),
    }
    for name, f in calls.items():
        try:
            r = f()
            out = "returned"
        except Exception as ex:  # noqa: BLE001
            r, out = None, exc_class(ex)
        sig = axis_verdict(e, name, out, r)
        if sig:
            chk.violation(sig, f"{name}({e['a']!r}, {e['b']!r}) -> {out} {r if name == 'to_indices2d' else ''}; table says {e['exc'] if not e['ok'] else e['idx']}", dict(entry=e))


# --------------------------------------------------------------------------- B. flows
def build_flow(fam, axes, envf):
    from pydrex import velocity

    if fam == "simple_shear":
        return velocity.simple_shear_2d(axes[0], axes[1], envf["rate"])
    if fam == "cell":
        return velocity.cell_2d(axes[0], axes[1], envf["U"], envf["d"])
    return velocity.corner_2d(axes[0], axes[1], envf["U"])


def judge_gradient(Jv, S, Lc):
    """Compare the gradient callable's value Lc with the spec Jacobian values Jv (scale S).
    Returns (failing clauses, deviation / S, |trace| / S)."""
    dev = float(np.abs(Lc - Jv).max()) if np.all(np.isfinite(Lc)) else math.inf
    trc = abs(float(np.trace(Lc))) if np.all(np.isfinite(Lc)) else math.inf
    s = S if S > 0 else 1.0
    fails = []
    if not dev <= TOL * S:
        fails.append("gradient-is-jacobian")
    if not trc <= TOL * S:
        fails.append("trace-free")
    return fails, dev / s, trc / s


class FlowJudge:
    """Accumulates, per (family, clause), passing/failing evaluations and the first failing instance."""

    def __init__(self):
        self.table = {}
        self.first = {}
        self.bad_axes = {}

    def note(self, fam, clause, ok, inst=None):
        t = self.table.setdefault((fam, clause), [0, 0])
        t[0 if ok else 1] += 1
        if not ok:
            self.first.setdefault((fam, clause), inst)
            self.bad_axes.setdefault((fam, clause), set()).add(inst["axes"] if inst else "?")


def replay_flows(cases, chk, judge, quick):
    jac = {}
    envs, pts = {}, {}
    for c in cases:
        if c["kind"] == "jac":
            jac.setdefault((c["fam"], "".join(c["axes"])), {})[c["conv"]] = c
        elif c["kind"] == "env":
            envs.setdefault(c["fam"], []).append(c["env"])
        elif c["kind"] == "point":
            pts.setdefault(c["fam"], []).append(c["pt"])
    if sorted({k[0] for k in jac}) != ["cell", "corner", "simple_shear"] or len(jac) != 18:
        raise MachineryError(f"Flows.tla emitted {len(jac)} (family, axes) Jacobians, expected 18")
    for v in envs.values():
        v.sort(key=json.dumps)
    for v in pts.values():
        v.sort(key=json.dumps)
    nfd = 0
    for (fam, axes), byconv in sorted(jac.items()):
        any_rec = next(iter(byconv.values()))
        ih, iv = any_rec["idx"]
        io = 3 - ih - iv
        for ei, envt in enumerate(envs[fam]):
            envf = {k: evalterm.ev(t, {}) for k, t in envt.items()}
            envf["pi"] = math.pi
            try:
                u_code, L_code = build_flow(fam, axes, envf)
            except Exception as ex:  # noqa: BLE001
                judge.note(fam, "constructor-raised-for-valid-arguments", False, dict(fam=fam, axes=axes, env=envf, exc=repr(ex)[:200]))
                continue
            # evaluate spec and code at all point classes
            rows = []
            for pi_, pt in enumerate(pts[fam]):
                x = np.zeros(3)
                x[ih], x[iv], x[io] = (evalterm.ev(pt[k], envf) for k in ("ph", "pv", "po"))
                if pt["cls"] == "origin":
                    chk.skip("corner flow at the origin (outside the domain: the field is singular there)")
                    continue
                env = dict(envf, x1=x[0], x2=x[1], x3=x[2])
                try:
                    uc = np.asarray(u_code(np.nan, x), dtype=float)
                    Lc = np.asarray(L_code(np.nan, x), dtype=float)
                    if uc.shape != (3,) or Lc.shape != (3, 3):
                        raise TypeError(f"callables returned shapes {uc.shape}, {Lc.shape}")
                except Exception as ex:  # noqa: BLE001
                    inst = dict(fam=fam, axes=axes, env=envf, x=x.tolist(), cls=pt["cls"], exc=repr(ex)[:200])
                    judge.note(fam, "callable-raised-inside-domain", False, inst)
                    continue
                rows.append((pi_, pt, x, env, uc, Lc))
            # which documented velocity convention does the velocity callable follow?
            match = []
            udev = {}
            for conv, rec in sorted(byconv.items()):
                worst = 0.0
                ok = True
                for pi_, pt, x, env, uc, Lc in rows:
                    uv = np.array([evalterm.ev(t, env) for t in rec["u"]])
                    su = max(mag(t, env) for t in rec["u"])
                    d = float(np.abs(uc - uv).max()) if np.all(np.isfinite(uc)) else math.inf
                    if not d <= TOL * su:
                        ok = False
                        udev.setdefault(conv, dict(x=x.tolist(), cls=pt["cls"], code=uc.tolist(), spec=uv.tolist()))
                    if su > 0:
                        worst = max(worst, d / su)
                if ok:
                    match.append(conv)
                    chk.maximum(f"velocity_dev_over_scale:{fam}", worst)
            if len(match) != 1:
                inst = dict(fam=fam, axes=axes, env=envf, matching_conventions=match, first_mismatch=udev)
                judge.note(fam, "velocity-is-documented-field", False, inst)
                for _ in rows:
                    chk.skip(f"gradient not compared: velocity callable of {fam} follows no single documented field")
                continue
            judge.note(fam, "velocity-is-documented-field", True)
            rec = byconv[match[0]]
            for pi_, pt, x, env, uc, Lc in rows:
                Jv = np.array([[evalterm.ev(t, env) for t in row] for row in rec["J"]])
                S = max(mag(t, env) for row in rec["J"] for t in row)
                trs = abs(evalterm.ev(rec["tr"], env))
                if not trs <= 1e-11 * S:
                    raise MachineryError(f"spec Jacobian of {fam}/{axes} is not trace-free at {x}: {trs} (scale {S})")
                # sanity of the derivative operator D: central differences of the spec's own field terms
                if (ei + pi_) % 5 == 0:
                    hh = 1e-5 * max(abs(x[ih]), abs(x[iv]))
                    if hh > 0:
                        for j in (ih, iv):
                            xp, xm = x.copy(), x.copy()
                            xp[j] += hh
                            xm[j] -= hh
                            ep = dict(envf, x1=xp[0], x2=xp[1], x3=xp[2])
                            em = dict(envf, x1=xm[0], x2=xm[1], x3=xm[2])
                            fd = (np.array([evalterm.ev(t, ep) for t in rec["u"]]) - np.array([evalterm.ev(t, em) for t in rec["u"]])) / (xp[j] - xm[j])
                            if not np.abs(fd - Jv[:, j]).max() <= 1e-4 * S:
                                raise MachineryError(f"D operator disagrees with central differences for {fam}/{axes} at {x}: {fd} vs {Jv[:, j]}")
                        nfd += 1
                fails, dev, trc = judge_gradient(Jv, S, Lc)
                chk.count((fam, axes, ei, pi_))
                inst = dict(fam=fam, axes=axes, conv=match[0], env={k: v for k, v in envf.items() if k != "pi"}, x=x.tolist(), cls=pt["cls"],
                            gradient=Lc.tolist(), jacobian=Jv.tolist(), scale=S, J_terms=rec["J"])
                for clause in ("gradient-is-jacobian", "trace-free"):
                    judge.note(fam, clause, clause not in fails, inst)
                if not fails:
                    chk.maximum(f"gradient_dev_over_scale:{fam}", dev)
                    chk.maximum(f"trace_over_scale:{fam}", trc)
                if fam == "corner" and pt["cls"] == "near-corner" and ei == 0 and axes == "XZ" and not any(sm.get("kind") == "jacobian-point" for sm in chk.cov["samples"]):
                    chk.sample(dict(kind="jacobian-point", fam=fam, axes=axes, x=x.tolist(), cls=pt["cls"], gradient=Lc.tolist(), jacobian=Jv.tolist()))
    chk.cov["D_operator_finite_difference_checks"] = nfd
    return jac, envs, pts


# --------------------------------------------------------------------------- C. strain increments
def strain_judge(got, exp, scale):
    """Pure comparison of an observed strain increment with the spec's exact value."""
    try:
        dev = abs(float(got) - exp)
    except Exception:  # noqa: BLE001
        return False, math.inf
    ok = dev <= TOL * scale + 1e-300
    return ok, (dev / scale if scale > 0 else dev)


def strain_case(c):
    """Concrete inputs and exact expected value of a TLC strain case (numbers n/d * 10^e)."""
    L = np.array([[x[0] / x[1] for x in row] for row in c["L"]], dtype=float) * 10.0 ** c["eL"]
    dt = c["dt"][0] / c["dt"][1] * 10.0 ** c["eT"]
    exp = c["expected"][0] / c["expected"][1] * 10.0 ** c["eExp"]
    return L, dt, exp, abs(dt) * float(np.abs(L).max())


def strain_dev(utils, c):
    L, dt, exp, scale = strain_case(c)
    try:
        got = float(utils.strain_increment(float(dt), np.ascontiguousarray(L)))
    except Exception as ex:  # noqa: BLE001
        return False, math.inf, "raised " + repr(ex)[:120], exp
    ok, dev = strain_judge(got, exp, scale)
    return ok, dev, got, exp


def dt_class(c):
    return "negative" if c["dt"][0] < 0 else ("zero" if c["dt"][0] == 0 else "positive")


# --------------------------------------------------------------------------- D. pathlines
def concretise(rec, seed, rep=0):
    """Scenario class -> concrete call arguments (floats), seeded per scenario (rep = index of the draw)."""
    s = rec["scen"]
    rng = np.random.default_rng([seed, zlib.crc32(json.dumps(s, sort_keys=True).encode()), rep])
    ih, iv = LETTERS.index(s["axes"][0]), LETTERS.index(s["axes"][1])
    io = 3 - ih - iv
    b = {k: num(v) for k, v in rec["b"].items()}
    lo, hi = np.zeros(3), np.zeros(3)
    lo[ih], hi[ih], lo[iv], hi[iv], lo[io], hi[io] = b["hlo"], b["hhi"], b["vlo"], b["vhi"], b["o"], b["o"]
    K = rec["K"]
    loc = s["loc"]
    if loc["kind"] == "cell":
        fh = (loc["i"] - 1 + rng.uniform(0.02, 0.98)) / K
        fv = (loc["j"] - 1 + rng.uniform(0.02, 0.98)) / K
    else:
        a = rng.uniform(0.05, 0.95)
        dep = (1e-4, 1e-6, 1e-9)[int(loc.get("j", 0))]
        fh, fv = {1: (dep, a), 2: (1 - dep, a), 3: (a, dep), 4: (a, 1 - dep)}[loc["i"]]
    xf = lo.copy()
    xf[ih] = lo[ih] + fh * (hi[ih] - lo[ih])
    xf[iv] = lo[iv] + fv * (hi[iv] - lo[iv])
    xf_repr = "float"
    if loc["kind"] == "int":
        # integer lattice points strictly inside the box (not the origin: a stagnation / singular point of the flows)
        alo, ahi = math.floor(lo[ih]) + 1, math.ceil(hi[ih]) - 1      # integers strictly inside (lo, hi)
        blo, bhi = math.floor(lo[iv]) + 1, math.ceil(hi[iv]) - 1
        if alo <= ahi and blo <= bhi and float(lo[io]).is_integer():
            for _ in range(8):
                a, b = int(rng.integers(alo, ahi + 1)), int(rng.integers(blo, bhi + 1))
                if (a, b) != (0, 0):
                    xf[ih], xf[iv] = float(a), float(b)
                    xf_repr = "int64" if loc["i"] == 1 else "intlist"
                    break
    return dict(xf_repr=xf_repr, fam=s["fam"], axes=s["axes"], amp=num(rec["amp"]), size=num(rec["size"]), lo=lo.tolist(), hi=hi.tolist(), xf=xf.tolist(),
                max_strain=s["lim_e1"] / 10.0, steps=(s["steps"] or None), ih=ih, iv=iv)


class NoReturn(Exception):
    """get_pathline used up the evaluation budget without returning (it would not return in practice)."""


class ClientFault(Exception):
    """The client's own exception, raised by its velocity callable (fault history of run_pathline)."""


EVAL_BUDGET = 20_000  # velocity evaluations per get_pathline call; calls that return need < 1e3 (maximum kept in the evidence)


def budgeted(u, counter):
    def f(t, x):
        counter[0] += 1
        if counter[0] > EVAL_BUDGET:
            raise NoReturn(f"more than {EVAL_BUDGET} velocity evaluations")
        return u(t, x)

    return f


def measure_path(tid, ts, pos, u, L, lo, hi, xf, max_strain, strain_inc, tamper=None):
    """Project a returned (timestamps, interpolant) to the Stamps / Seg / End events PathTrace.tla reads.

    Measures (all on the interpolant, no formula of the flows is used):
    * knots = the interpolant's own step boundaries (scipy OdeSolution.ts; a uniform grid if absent);
    * ODE residual at the middle of every step, central difference over half the step (the stencil never
      straddles a step boundary), compared with the velocity callable there; only on the interior 96 % of
      the time span, only where the whole stencil is inside the box, and not in the step in which the path
      leaves the box (the integrated field is discontinuous there: zero outside the box);
    * excursion outside the box at the knots, 4 points per step and the returned timestamps;
    * tensorial strain = sum of strain_inc(dt, gradient callable) over 4 sub-intervals per step, over
      the part of the path that is inside the box.
    tamper (negative controls of this recorder): judge the path against a 1.2 x field / account strain with
    a 2 x gradient / a box 2 % smaller on every side / a shifted end point.
    """
    ev, info = [], {}
    ts = np.asarray(ts, dtype=float)
    ext = float((hi - lo).max())
    if tamper == "velocity":
        u0 = u
        u = lambda t, x: 1.2 * np.asarray(u0(t, x))  # noqa: E731
    elif tamper == "gradient":
        L0 = L
        L = lambda t, x: 2.0 * np.asarray(L0(t, x))  # noqa: E731
    elif tamper == "box":
        lo, hi = lo + 0.02 * (hi - lo), hi - 0.02 * (hi - lo)
    elif tamper == "end":
        xf = xf + 1e-6 * ext

    def excursion(x):
        return float(np.maximum(lo - x, x - hi).max())

    x0 = np.asarray(pos(0.0), dtype=float)
    end_dev = float(np.abs(x0 - xf).max()) / ext
    ev.append(dict(tid=tid, ev="Stamps", nT=int(len(ts)), incr=bool(np.all(np.diff(ts) > 0)), tLast0=bool(len(ts) > 0 and ts[-1] == 0.0),
                   endDev_e12=cap(math.ceil(end_dev * 1e12) if math.isfinite(end_dev) else math.inf)))
    t0 = float(ts[0]) if len(ts) else 0.0
    T = -t0
    info.update(T=T, nT=int(len(ts)), endDev=end_dev)
    segs = [[0.0, 0.0, 0.0] for _ in range(NSEG)]  # excursion, ODE residual, strain

    def seg_of(t):
        return min(NSEG - 1, max(0, int((t - t0) / T * NSEG))) if T > 0 else 0

    umax = 0.0
    if T > 0:
        knots = np.unique(np.asarray(getattr(pos, "ts", np.linspace(t0, 0.0, 97)), dtype=float))
        knots = knots[(knots >= t0) & (knots <= 0.0)]
        if len(knots) < 2 or knots[0] > t0 or knots[-1] < 0.0:
            knots = np.unique(np.concatenate([[t0], knots, [0.0]]))
        info["steps"] = int(len(knots) - 1)
        m = 4 if len(knots) <= 600 else 1
        a_lo, a_hi = t0 + 0.02 * T, -0.02 * T
        for t in list(ts) + list(knots):
            k = seg_of(t)
            segs[k][0] = max(segs[k][0], excursion(np.asarray(pos(t), dtype=float)) / ext)
        for n in range(len(knots) - 1):
            ka, kb = float(knots[n]), float(knots[n + 1])
            w = (kb - ka) / m
            for j in range(m):
                tm = ka + (j + 0.5) * w
                xm = np.asarray(pos(tm), dtype=float)
                e = excursion(xm)
                k = seg_of(tm)
                segs[k][0] = max(segs[k][0], e / ext)
                if e <= 0:
                    segs[k][2] += float(strain_inc(float(w), np.ascontiguousarray(np.asarray(L(np.nan, xm), dtype=float))))
            tm, h = 0.5 * (ka + kb), 0.25 * (kb - ka)
            if n == 0 or tm - h < a_lo or tm + h > a_hi:
                continue
            st = [np.asarray(pos(tm + dh), dtype=float) for dh in (-h, 0.0, h)]
            if any(excursion(x) > 0 for x in st):
                continue
            uu = np.asarray(u(np.nan, st[1]), dtype=float)
            umax = max(umax, float(np.abs(uu).max()))
            k = seg_of(tm)
            res = float(np.abs((st[2] - st[0]) / (2 * h) - uu).max())
            if res > 1e-3 * max(umax, float(np.abs(uu).max())):
                # the difference quotient is an estimate of the derivative only where the path is smooth over the
                # stencil; where the velocity field turns over a distance far shorter than a solver step (a path
                # grazing the singular corner of the corner flow) the estimate is repeated on shrinking stencils and
                # the smallest residual counts - a derivative that really differs from u differs at every scale
                hh = h
                for _ in range(6):
                    hh /= 4.0
                    a, b = np.asarray(pos(tm - hh), dtype=float), np.asarray(pos(tm + hh), dtype=float)
                    res = min(res, float(np.abs((b - a) / (2 * hh) - uu).max()))
            # "within integration tolerance": the returned positions are accurate to the solver's tolerances (defaults
            # atol 1e-8, rtol 1e-5), so the velocity the path follows is that of a point within that distance - where the
            # field changes by |grad u| x tolerance (next to the singular corner of the corner flow |grad u| ~ U / r
            # reaches 1e8) a difference of that size between dx/dt and u(x) is inside the statement
            try:
                gmax = float(np.abs(np.asarray(L(np.nan, st[1]), dtype=float)).max())
            except Exception:  # noqa: BLE001
                gmax = 0.0
            if np.isfinite(gmax):
                res = max(0.0, res - 10.0 * gmax * (1e-8 + 1e-5 * float(np.abs(st[1]).max())))
            segs[k][1] = max(segs[k][1], res)
    for k, (out, dres, dstrain) in enumerate(segs, start=1):
        ode = dres / umax if umax > 0 else (0.0 if dres == 0 else math.inf)
        ev.append(dict(tid=tid, ev="Seg", k=k, ode_e6=cap(ode * 1e6), out_e6=cap(max(out, 0.0) * 1e6), dStrain_e6=cap(dstrain * 1e6, 200_000_000)))
    ev.append(dict(tid=tid, ev="End"))
    info.update(ode=max(s[1] for s in segs) / umax if umax > 0 else 0.0, outside=max(max(s[0] for s in segs), 0.0),
                ratio=sum(s[2] for s in segs) / max_strain)
    return ev, info


def run_pathline(job):
    """Call the real get_pathline for one scenario and record the events of its pathline.
    Anything the implementation raises (constructor, get_pathline, interpolant, callables during the
    measurement) is an outcome of the call, never a harness failure."""
    tid, rec, seed = job[:3]
    rep = job[4] if len(job) > 4 else 0
    quiet_pydrex()
    from pydrex import pathlines, utils

    a = concretise(rec, seed, rep)
    envf = {"rate": a["amp"], "U": a["amp"], "d": a["size"]}
    lo, hi, xf = np.array(a["lo"]), np.array(a["hi"]), np.array(a["xf"])
    xf_arg = xf
    if a.get("xf_repr") == "int64":
        xf_arg = xf.astype(np.int64)
    elif a.get("xf_repr") == "intlist":
        xf_arg = [int(v) for v in xf]
    ih, iv = a["ih"], a["iv"]
    interior = bool(lo[ih] < xf[ih] < hi[ih] and lo[iv] < xf[iv] < hi[iv])
    ev = [dict(tid=tid, ev="Call", scen=rec["scen"], interior=interior, out="returned")]
    info = dict(args=a)
    nev = [0]
    try:
        u, L = build_flow(a["fam"], a["axes"], envf)
        # call-history classes (the statement is about EVERY call, whatever was called before it, and the documented
        # solver keyword arguments are part of the interface): plain / a coarse "preview" call with loose solver
        # options on the same inputs first, its result discarded / the judged call itself with tighter tolerances
        form = tid % 4
        kw = {}
        u_judged = None
        if form == 1:
            try:
                pathlines.get_pathline(xf_arg, budgeted(u, [0]), L, lo, hi, a["max_strain"], regular_steps=a["steps"], method="RK23", rtol=0.2, atol=0.05 * float(np.max(hi - lo)))
            except BaseException as ex:  # noqa: BLE001 - the preview is not judged
                if isinstance(ex, (KeyboardInterrupt, SystemExit, MemoryError)):
                    raise
        elif form == 2:
            kw = dict(rtol=1e-8, atol=1e-10 * float(np.max(hi - lo)))
        elif form == 3:
            # fault history: a call for ANOTHER final location that succeeds, then a call with the judged inputs whose
            # velocity callable fails part-way through the integration (the client's own exception), then the judged
            # call - identical inputs, healthy callable.  A failed call must leave nothing behind.
            other = np.where(np.arange(3) == ih, 0.5 * (lo + hi) + 0.11 * (hi - lo), np.where(np.arange(3) == iv, 0.5 * (lo + hi) - 0.07 * (hi - lo), xf))
            # ONE velocity callable object for the failing call and for the judged retry (what a client has whose data
            # source was briefly unavailable): it fails after a few evaluations while `flaky_on` is set
            cnt, flaky_on = [0], [True]
            counted = budgeted(u, nev)

            def flaky(t, x):
                cnt[0] += 1
                if flaky_on[0] and cnt[0] > 7:
                    raise ClientFault("velocity callable failed")
                return counted(t, x)

            for args in ((other, budgeted(u, [0])), (xf_arg, flaky)):
                try:
                    pathlines.get_pathline(args[0], args[1], L, lo, hi, a["max_strain"], regular_steps=a["steps"])
                except BaseException as ex:  # noqa: BLE001 - neither call is judged
                    if isinstance(ex, (KeyboardInterrupt, SystemExit, MemoryError)):
                        raise
            flaky_on[0] = False
            nev[0] = 0
            u_judged = flaky
        info["call_form"] = ("plain", "after-coarse-preview", "tight-tolerances", "after-a-failed-call")[form]
        ts, pos = pathlines.get_pathline(xf_arg, u_judged or budgeted(u, nev), L, lo, hi, a["max_strain"], regular_steps=a["steps"], **kw)
    except NoReturn as ex:
        ev[0]["out"] = "NoReturn"
        info["exc"] = repr(ex)
        return ev, info
    except Exception as ex:  # noqa: BLE001
        ev[0]["out"] = exc_class(ex)
        info["exc"] = repr(ex)[:200]
        return ev, info
    try:
        ev2, info2 = measure_path(tid, ts, pos, u, L, lo, hi, xf, a["max_strain"], utils.strain_increment)
    except Exception as ex:  # noqa: BLE001
        ev[0]["out"] = "measure:" + type(ex).__name__  # the returned object or the callables raised while being evaluated
        info["exc"] = repr(ex)[:200]
        return ev, info
    info.update(info2, nfev=nev[0])
    return ev + ev2, info


class SynthPath:
    """Exact pathline of the linear field u = (rate * x3, 0, 0): x(t) = xf + u(xf) t (recorder controls only)."""

    def __init__(self, xf, vel, T, n=20):
        self.xf, self.vel = np.asarray(xf, dtype=float), np.asarray(vel, dtype=float)
        self.ts = np.linspace(-T, 0.0, n + 1)

    def __call__(self, t):
        return self.xf + self.vel * t


def synthetic_recording(tid, scen, tamper):
    """An implementation-independent pathline (exact solution of a linear field built here, strain law written
    out here) pushed through the same recorder; with a tamper the trace spec must reject it."""
    rate, lim = 1.0, scen["lim_e1"] / 10.0
    xf = np.array([0.97, 0.0, 0.5])
    u = lambda t, x: np.array([rate * x[2], 0.0, 0.0])  # noqa: E731
    L = lambda t, x: np.array([[0.0, 0.0, rate], [0.0, 0.0, 0.0], [0.0, 0.0, 0.0]])  # noqa: E731
    sinc = lambda dt, G: abs(dt) * float(np.abs(np.linalg.eigvalsh((G + G.T) / 2)).max())  # noqa: E731
    T = lim / (rate / 2)  # the strain limit is reached exactly at t = -T
    pos = SynthPath(xf, u(0, xf), T)
    lo, hi = np.array([-1.0, 0.0, -1.0]), np.array([1.0, 0.0, 1.0])
    ev, info = measure_path(tid, pos.ts, pos, u, L, lo, hi, xf, lim, sinc, tamper)
    return [dict(tid=tid, ev="Call", scen=scen, interior=True, out="returned")] + ev, info


def validate(events, d, cfg, name="trace.ndjson", timeout=1200):
    path = d / name
    write_ndjson(path, events)
    res = run_tlc("PathTrace", cfg, workers=1, env={"TRACE_FILE": str(path)}, timeout=timeout)
    rejects = []
    for line in res.output.splitlines():
        if line.startswith('<<"REJECT"'):
            for m in re.finditer(r'<<(\d+), (\d+), "([^"]*)">>', line):
                rejects.append((int(m.group(1)), int(m.group(2)), m.group(3)))
    done = re.search(r'<<"DONE", (\d+), (\d+), "(\w+)">>', res.output)
    if not done or int(done.group(1)) != len(events) or done.group(3) != "idle":
        raise MachineryError("PathTrace did not consume the whole trace:\n" + res.output[-2000:])
    return sorted(set(rejects)), res, int(done.group(2))


# --------------------------------------------------------------------------- main
def main(tier):
    chk = Check("C18", tier)
    quick = tier != "thorough"
    nproc = min(4 if quick else 12, os.cpu_count() or 2)
    # ---- 1. Layer A: lemmas + case emission
    res = run_tlc("Flows", "Flows" if quick else "Flows_thorough", workers=4, timeout=900)
    chk.add_tlc("Flows", res, "axis table 8x8 strings; 3 families x 6 axis pairs symbolic Jacobians (+ 2 shear conventions); parameter and point classes; exact strain-increment cases; lemmas OffPlaneZero, ShearExact, CellTraceFree, CornerExact, StrainSpectrum")
    cases = parse_printed_json(res.output, "CASE")
    kinds = {}
    for c in cases:
        kinds[c["kind"]] = kinds.get(c["kind"], 0) + 1
    if kinds.get("axis") != 64 or kinds.get("jac") != 24 or kinds.get("strain", 0) < 1000:
        raise MachineryError(f"Flows.tla emitted an incomplete case set: {kinds}")
    # negative control of the lemmas: a planted transcription error must violate them
    for cfg, inv in (("Flows_plantedCell", "CellTraceFree"),) + ((("Flows_plantedSpectrum", "StrainSpectrum"),) if not quick else ()):
        pl = run_tlc("Flows", cfg, workers=2, timeout=600, expect_violation=True)
        chk.control(f"planted-error-violates-{inv}", pl.violated == inv, f"TLC reported {pl.violated}")
    # ---- 2. scenario space of get_pathline calls
    sc = run_tlc("PathTrace", "PathScen" if quick else "PathScen_thorough", workers=4, timeout=900, env={"VERIF_SEED": SEED})
    chk.add_tlc("PathTrace(scenarios)", sc, "family x axes x (parameters, box) x final-location class x strain limit x regular_steps; quick: congruence sub-family with all factor pairs, shifted by the seed")
    scen = parse_printed_json(sc.output, "SCEN")
    scen.sort(key=lambda r: json.dumps(r["scen"], sort_keys=True))
    if len(scen) < 500:
        raise MachineryError(f"PathTrace emitted only {len(scen)} scenarios")

    pd = quiet_pydrex()
    from pydrex import utils

    # ---- 3. axis table
    for e in (c for c in cases if c["kind"] == "axis"):
        replay_axis_entry(pd, e, chk)
        chk.count(("axis", e["a"], e["b"]))
    # negative control built from the table's own entries and synthetic outcomes (independent of the implementation)
    e_ok = next(c for c in cases if c["kind"] == "axis" and c["a"] == "X" and c["b"] == "Z")
    e_bad = next(c for c in cases if c["kind"] == "axis" and c["a"] == "X" and c["b"] == "X")
    verdicts = [axis_verdict(e_ok, "to_indices2d", "returned", tuple(e_ok["idx"])), axis_verdict(e_ok, "to_indices2d", "returned", (2, 0)),
                axis_verdict(e_ok, "cell", "ValueError", None), axis_verdict(e_bad, "corner", "returned", None),
                axis_verdict(e_bad, "to_indices2d", "other:KeyError", None), axis_verdict(e_bad, "simple_shear", "ValueError", None)]
    chk.control("wrong-axis-outcomes-detected", [v and v["kind"] for v in verdicts] == [None, "wrong-indices", "valid-pair-rejected", "invalid-pair", "invalid-pair", None],
                str([v and v["kind"] for v in verdicts]))
    chk.sample(dict(kind="axis-entry", entry=next(c for c in cases if c["kind"] == "axis" and c["ok"])))

    # ---- 4. gradient = Jacobian of the documented field, trace-free
    judge = FlowJudge()
    jac, envs, pts = replay_flows(cases, chk, judge, quick)
    # negative controls of the comparator
    Jv = np.array([[0.0, 0.0, 1.0], [0.0, 0.0, 0.0], [0.0, 0.0, 0.0]])
    f1, _, _ = judge_gradient(Jv, 1.0, Jv * (1 + 1e-6))
    f2, _, _ = judge_gradient(Jv, 1.0, Jv + np.diag([1e-6, 0, 0]))
    f3, _, _ = judge_gradient(Jv, 1.0, Jv * (1 + 1e-13))
    chk.control("perturbed-jacobian-detected", f1 == ["gradient-is-jacobian"] and f2 == ["gradient-is-jacobian", "trace-free"] and f3 == [], f"{f1} {f2} {f3}")
    for (fam, clause), (npass, nfail) in sorted(judge.table.items()):
        if nfail:
            inst = judge.first[(fam, clause)]
            chk.violation(dict(clause=clause, family=fam),
                          f"{fam}: {clause} fails at {nfail} of {npass + nfail} evaluated (axes, parameters, point) instances, axis pairs {sorted(judge.bad_axes[(fam, clause)])}; "
                          f"first: axes={inst.get('axes')} x={inst.get('x')} gradient={inst.get('gradient')} jacobian-of-velocity={inst.get('jacobian')}",
                          dict(kind="flow", instance=inst, failing=nfail, evaluated=npass + nfail))

    # ---- 5. strain increments (dt > 0, dt < 0 and dt = 0 classes; the statement says |dt|)
    sfail = {}
    strains = [c for c in cases if c["kind"] == "strain"]
    by_dt = {}
    for c in strains:
        by_dt[dt_class(c)] = by_dt.get(dt_class(c), 0) + 1
    chk.cov["strain_cases_by_dt_sign"] = by_dt
    if min(by_dt.get(k, 0) for k in ("negative", "positive", "zero")) < 1:
        raise MachineryError(f"Flows.tla strain cases do not cover all dt sign classes: {by_dt}")
    for c in strains:
        ok, dev, got, exp = strain_dev(utils, c)
        chk.count(("strain", json.dumps(c["L"]), tuple(c["dt"]), c["eL"], c["eT"]))
        t = judge.table.setdefault((f"strain:{c['fam']}:dt-{dt_class(c)}", "strain-increment"), [0, 0])
        t[0 if ok else 1] += 1
        if ok:
            chk.maximum("strain_increment_dev_over_scale", dev)
        else:
            sfail.setdefault((c["fam"], dt_class(c)), []).append(dict(case=c, got=got, expected=exp))
    for (fam, dtc), lst in sorted(sfail.items()):
        L0, dt0, _, _ = strain_case(lst[0]["case"])
        chk.violation(dict(clause="strain-increment", family=fam, dt=dtc),
                      f"strain_increment differs from |dt| max|eig D| on {len(lst)} exact {fam} cases with {dtc} dt; first: dt={dt0} L={L0.tolist()} got {lst[0]['got']} expected {lst[0]['expected']}",
                      dict(kind="strain", instance=lst[0], failing=len(lst)))
    # negative control of the comparator, from the spec's own exact value (independent of the implementation)
    c0 = next(c for c in strains if c["fam"] == "pythagorean-shear" and c["expected"][0] > 0 and c["dt"][0] < 0)
    _, _, exp0, sc0 = strain_case(c0)
    j = [strain_judge(exp0, exp0, sc0)[0], strain_judge(exp0 * (1 + 1e-13), exp0, sc0)[0], strain_judge(exp0 * (1 + 1e-6), exp0, sc0)[0],
         strain_judge(-exp0, exp0, sc0)[0], strain_judge(float("nan"), exp0, sc0)[0]]
    chk.control("perturbed-strain-increment-detected", j == [True, True, False, False, False], str(j))
    chk.sample(dict(kind="strain-case", case=c0, got=strain_dev(utils, c0)[2]))

    # ---- 6. pathlines: call the real get_pathline for every selected scenario, record, validate
    for fam in ("simple_shear", "cell", "corner"):  # JIT warm-up in the parent so that forked workers inherit it
        run_pathline((0, next(r for r in scen if r["scen"]["fam"] == fam), SEED))
    draws = 1 if quick else 2  # final locations drawn per scenario class
    jobs = [(1 + i * draws + r, rec, SEED, None, r) for i, rec in enumerate(scen) for r in range(draws)]
    if nproc > 1:
        with mp.get_context("fork").Pool(nproc) as pool:
            results = pool.map(run_pathline, jobs, chunksize=max(1, len(jobs) // (nproc * 8)))
    else:
        results = [run_pathline(j) for j in jobs]
    events = []
    infos = {}
    outcome = {}
    for (tid, rec, _, _, rep), (ev, info) in zip(jobs, results):
        events.extend(ev)
        infos[tid] = (rec, info)
        fam = rec["scen"]["fam"]
        o = ev[0]["out"]
        outcome[(fam, o)] = outcome.get((fam, o), 0) + 1
        chk.count(("path", json.dumps(rec["scen"], sort_keys=True), rep))
        if o == "returned":
            for m in ("endDev", "ode", "outside", "ratio"):
                chk.maximum(f"pathline_{m}:{fam}", info[m])
    # ---- shared flow objects: ONE pair of callables serves a whole lattice of final locations (a client that traces
    # many particles through one flow), in one process, same box / strain limit / step count throughout.  Every call is
    # judged on where its pathline ends (the other clauses are judged on the scenario corpus above).
    from pydrex import pathlines as _pl
    for fam, axes, envf in (("shear", ("X", "Z"), dict(rate=0.4, U=1.0, d=1.0)), ("corner", ("X", "Z"), dict(rate=1.0, U=0.7, d=1.0))):
        try:
            u_sh, L_sh = build_flow(fam, axes, envf)
        except Exception as ex:  # noqa: BLE001 - judged by the axis table / flow replay
            chk.skip("shared-flow lattice: flow constructor raised " + type(ex).__name__)
            continue
        lo, hi = (np.array([-3.0, -1.0, -3.0]), np.array([3.0, 1.0, 3.0])) if fam == "shear" else (np.array([-0.5, -1.0, -3.5]), np.array([4.0, 1.0, 0.0]))
        grid = [(a, b) for a in ((-2.0, -1.0, 0.0, 1.0, 2.0) if fam == "shear" else (0.0, 1.0, 2.0, 3.0)) for b in ((-2.0, -1.0) if fam == "shear" else (-3.0, -2.0, -1.0))]
        cnt_sh = [0]
        u_b = budgeted(u_sh, cnt_sh)        # ONE callable object for the whole lattice; the budget is reset per call
        for a, b in grid:
            xf = np.array([a, 0.0, b])
            chk.count(("shared-flow-lattice", fam, a, b))
            cnt_sh[0] = 0
            try:
                ts, pos = _pl.get_pathline(xf, u_b, L_sh, lo, hi, 0.8, regular_steps=5)
                end = np.asarray(pos(0.0), dtype=float)
                dev = float(np.abs(end - xf).max())
            except NoReturn:
                chk.skip("shared-flow lattice: no return within the evaluation budget (listed finding F9d)")
                continue
            except Exception as ex:  # noqa: BLE001 - the statement promises a pathline for every interior final location
                out = exc_class(ex)
                if fam == "corner" and out.startswith("ValueError"):
                    chk.skip("shared-flow lattice: root-finder ValueError (listed finding F9c)")
                    continue
                chk.violation(dict(clause="pathline-raised", form="shared-flow-lattice", fam=fam, exc=out), f"get_pathline raised {ex!r} for the interior final location {xf.tolist()} ({fam})", dict(kind="shared-flow-lattice", fam=fam, xf=xf.tolist()))
                continue
            if not dev <= 1e-6 * float(np.max(hi - lo)):
                chk.violation(dict(clause="ends-at-final-location", form="shared-flow-lattice", fam=fam),
                              f"{fam}: the pathline requested for the final location {xf.tolist()} ends at {end.tolist()} at t = 0 (same flow callables as the previous calls)",
                              dict(kind="shared-flow-lattice", fam=fam, xf=xf.tolist(), end=end.tolist()))
    with scratch() as d:
        cfg = "PathTrace" if quick else "PathTrace_thorough"
        rejects, tr, npath = validate(events, d, cfg)
        chk.add_tlc("PathTrace", tr, f"{len(events)} recorded lines of {len(jobs)} get_pathline calls")
        if npath != len(jobs):
            raise MachineryError(f"PathTrace closed {npath} pathlines, {len(jobs)} were recorded")
        chk.cov["traces_validated_against_impl"] += len(jobs)
        by_sig = {}
        for tid, line, clause in rejects:
            if clause.startswith("malformed"):
                raise MachineryError(f"recorded trace malformed at line {line}: {clause}")
            rec, info = infos[tid]
            fam = rec["scen"]["fam"]
            sig = dict(clause=clause.split(":")[0], family=fam)
            if ":" in clause:
                sig["exc"] = clause.split(":", 1)[1]
            if sig["clause"] == "strain-bound" or sig.get("exc") == "NoReturn":
                # narrow to the scenario's discrete parameter / box / location classes
                sig["par"] = rec["scen"]["par"]
                sig["box"] = rec["scen"]["box"]
                sig["loc"] = rec["scen"]["loc"]["kind"]
            by_sig.setdefault(json.dumps(sig, sort_keys=True), []).append((tid, line))
        clauses = ("pathline-returned", "timestamps-increasing", "ends-at-t0", "ends-at-final-location", "follows-velocity", "inside-box", "strain-bound")
        nfam = {}
        for tid, (rec, info) in infos.items():
            nfam[rec["scen"]["fam"]] = nfam.get(rec["scen"]["fam"], 0) + 1
        bad_tids = {}
        for key, lst in by_sig.items():
            sg = json.loads(key)
            bad_tids.setdefault((sg["family"], sg["clause"]), set()).update(t for t, _ in lst)
        for fam, n in nfam.items():
            for cl in clauses:
                nbad = len(bad_tids.get((fam, cl), ()))
                nj = n if cl == "pathline-returned" else outcome.get((fam, "returned"), 0)
                judge.table[(fam, cl)] = [nj - nbad, nbad]
        breakdown = {}
        for key, lst in by_sig.items():
            sg = json.loads(key)
            for t in {t for t, _ in lst}:
                sc_ = infos[t][0]["scen"]
                kk = f"{sg['clause']}{':' + sg['exc'] if 'exc' in sg else ''} | {sc_['fam']}/{sc_['par']}/{sc_['box']} | loc={sc_['loc']['kind']} | lim={sc_['lim_e1'] / 10}"
                breakdown[kk] = breakdown.get(kk, 0) + 1
        chk.cov["pathline_rejections_by_class"] = dict(sorted(breakdown.items()))
        for key, lst in sorted(by_sig.items()):
            sig = json.loads(key)
            tid, line = lst[0]
            rec, info = infos[tid]
            tids = sorted({t for t, _ in lst})
            chk.violation(sig, f"get_pathline/{sig['family']}: {sig['clause']} rejected by PathTrace for {len(tids)} of {nfam[sig['family']]} interior final locations; "
                               f"first: scenario {json.dumps(rec['scen'], sort_keys=True)} final_location={info['args']['xf']} "
                               f"{info.get('exc', '')}{ {k: float('%.4g' % v) for k, v in info.items() if k in ('ratio', 'ode', 'outside', 'endDev', 'T')} if 'ratio' in info else ''}",
                          dict(kind="pathline", scenario=rec, seed=SEED, rep=(tid - 1) % draws, args=info["args"], info={k: v for k, v in info.items() if k != "args"}, event=events[line - 1],
                               failing=len(tids), of=nfam[sig["family"]], other_failing_scenarios=[infos[t][0]["scen"] for t in tids[1:6]]))
        good = next((tid for tid, (rec, info) in sorted(infos.items()) if "ratio" in info and info["T"] > 0), None)
        shown = good if good is not None else min(infos)
        chk.sample(dict(kind="pathline-events", events=[e for e in events if e["tid"] == shown][:4], info={k: v for k, v in infos[shown][1].items() if k != "args"}))
        # ---- negative controls, all independent of the implementation -------------------------------------
        # (a) trace spec: a hand-made accepted pathline (values from the spec's own thresholds), one corrupted copy per clause
        cscen = dict(fam="simple_shear", axes="XZ", par="unit", box="sym", loc=dict(kind="cell", i=4, j=3), lim_e1=5, steps=0)
        lim = cscen["lim_e1"]
        base = [dict(tid=0, ev="Call", scen=cscen, interior=True, out="returned"),
                dict(tid=0, ev="Stamps", nT=21, incr=True, tLast0=True, endDev_e12=0)] \
            + [dict(tid=0, ev="Seg", k=k, ode_e6=100, out_e6=10, dStrain_e6=lim * 100000 // NSEG) for k in range(1, NSEG + 1)] + [dict(tid=0, ev="End")]

        def variant(n, f):
            v = json.loads(json.dumps(base))
            for e in v:
                e["tid"] = n
            return f(v)

        def set_(v, i, k, val):
            v[i][k] = val
            return v

        variants = [
            ("untouched", lambda v: v),
            ("pathline-returned:ValueError", lambda v: [dict(v[0], out="ValueError")]),
            ("timestamps-increasing", lambda v: set_(v, 1, "incr", False)),
            ("ends-at-t0", lambda v: set_(v, 1, "tLast0", False)),
            ("ends-at-final-location", lambda v: set_(v, 1, "endDev_e12", 1001)),
            ("follows-velocity", lambda v: set_(v, 4, "ode_e6", 50001)),
            ("inside-box", lambda v: set_(v, 6, "out_e6", 1001)),
            ("strain-bound", lambda v: set_(v, 3, "dStrain_e6", v[3]["dStrain_e6"] + 25000 * lim + 8)),
            ("at-the-thresholds", lambda v: set_(set_(set_(set_(v, 1, "endDev_e12", 1000), 4, "ode_e6", 50000), 6, "out_e6", 1000), 3, "dStrain_e6", v[3]["dStrain_e6"] + 25000 * lim)),
            ("malformed:Seg-in-phase-segs", lambda v: v[:5] + v[6:]),
        ]
        bad_events = []
        for n, (name, f) in enumerate(variants, start=1):
            bad_events.extend(variant(n, f))
        # a malformed pathline leaves the machine mid-trace; the next Call must resynchronise it
        bad_events.extend(variant(len(variants) + 1, lambda v: v))
        # (b) recorder: an exact pathline of a linear field built here, pushed through measure_path untouched and tampered
        tampers = [(None, None), ("velocity", "follows-velocity"), ("gradient", "strain-bound"), ("box", "inside-box"), ("end", "ends-at-final-location")]
        synth_info = {}
        for n, (tm, _) in enumerate(tampers, start=100):
            evs, synth_info[n] = synthetic_recording(n, cscen, tm)
            bad_events.extend(evs)
        rj, tr2, _ = validate(bad_events, d, cfg, name="controls.ndjson")
        got = {}
        for tid, line, clause in rj:
            got.setdefault(tid, set()).add(clause)
        for n, (name, _) in enumerate(variants, start=1):
            if name in ("untouched", "at-the-thresholds"):
                chk.control(f"trace-control-{name}-accepted", n not in got, str(got.get(n)))
            elif name.startswith("malformed"):
                chk.control("trace-control-malformed-named", any(c.startswith("malformed") for c in got.get(n, ())), str(got.get(n)))
            else:
                chk.control(f"trace-control-{name.split(':')[0]}-rejected", got.get(n) == {name}, str(got.get(n)))
        chk.control("trace-control-resynchronises-after-malformed", (len(variants) + 1) not in got, str(got.get(len(variants) + 1)))
        for n, (tm, clause) in enumerate(tampers, start=100):
            si = {k: float("%.3g" % v) for k, v in synth_info[n].items() if k in ("ode", "outside", "ratio", "endDev")}
            if tm is None:
                chk.control("recorder-control-exact-synthetic-pathline-accepted", n not in got, f"{got.get(n)} {si}")
            else:
                chk.control(f"recorder-control-tampered-{tm}-rejected-as-{clause}", got.get(n) == {clause}, f"{got.get(n)} {si}")
        chk.add_tlc("PathTrace(controls)", tr2, f"{len(bad_events)} lines: a hand-made accepted pathline, one corrupted copy per clause, one at the thresholds, one malformed; an exact synthetic pathline recorded untouched and with four tampers")

    chk.cov["pathline_outcomes"] = {f"{f}/{o}": n for (f, o), n in sorted(outcome.items())}
    chk.cov["clause_table"] = {f"{f}/{c}": dict(passed=p, failed=n) for (f, c), (p, n) in sorted(judge.table.items())}
    for (f, c), (p, n) in sorted(judge.table.items()):
        print(f"  clause {c:32s} family {f:28s} passed={p:6d} failed={n}")
    return chk.finish(
        rule="flows: every (family, axis pair, parameter class, point class) TLC enumerated, distinct by tuple, non-trivial = inside the domain; "
        "strain increments: every exact case TLC emitted, distinct by (L, dt, scales); pathlines: one get_pathline call per scenario class TLC selected "
        "(final location drawn inside its class with the seed), distinct by scenario record",
        exhaustive=False,
        trusted=["generic term evaluator harness/evalterm.py", "numpy/scipy (interpolant evaluation, norms)"],
    )


def replay(obj):
    """./check C18 --replay <file>: re-run the recorded instance against the current tree."""
    quiet_pydrex()
    from pydrex import pathlines, utils

    r = obj.get("replay") or {}
    if r.get("kind") == "flow":
        i = r["instance"]
        if "gradient" not in i:
            print(i)
            return 0
        envf = dict(i["env"], pi=math.pi)
        u, L = build_flow(i["fam"], i["axes"], {**envf, "rate": envf.get("rate"), "U": envf.get("U"), "d": envf.get("d")})
        x = np.array(i["x"])
        env = dict(envf, x1=x[0], x2=x[1], x3=x[2])
        Jv = np.array([[evalterm.ev(t, env) for t in row] for row in i["J_terms"]])
        Lc = np.asarray(L(np.nan, x))
        print("gradient callable:\n", Lc, "\nJacobian of the documented velocity (spec terms):\n", Jv)
        fails, dev, trc = judge_gradient(Jv, i["scale"], Lc)
        print("failing clauses now:", fails)
        return 1 if fails else 0
    if r.get("kind") == "pathline":
        ev, info = run_pathline((1, r["scenario"], r.get("seed", 0), None, r.get("rep", 0)))
        print("now:", ev[0]["out"], {k: v for k, v in info.items() if k != "args"})
        for e in ev[1:]:
            print("  ", e)
        cl = obj["signature"]["clause"]
        if cl == "pathline-returned":
            return 0 if ev[0]["out"] == "returned" else 1
        return 1 if ev[0]["out"] != "returned" or (cl == "strain-bound" and info["ratio"] > 1.25) or (cl == "follows-velocity" and info["ode"] > 5e-2) \
            or (cl == "inside-box" and info["outside"] > 1e-3) else 0
    if r.get("kind") == "strain":
        ok, dev, got, exp = strain_dev(utils, r["instance"]["case"])
        print("strain_increment ->", got, "expected", exp)
        return 0 if ok else 1
    return 0
