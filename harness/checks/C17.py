"""C17 - mineral persistence round trip is exact for any history and any postfix set.

Spec:  PyDRex.tla persistence actions (SavePostfix, SaveWholeFile [named deviation], SaveCorrupt,
       Load, FromFile, LoadBadName); RoundTrip, PostfixIsolation, FailureAtomic, DiskWellFormed
       model-checked over all orders of saves and loads (PyDRexC17).
Bind:  simulated behaviours replayed on a scratch directory with the archive projected after
       every call (key sets, meta, grain count, per-snapshot digests, both loaders); the same
       calls recorded and validated by MineralTrace.tla.
"""
from harness import layerb
from harness.common import SEED, Check, MachineryError, run_tlaps, run_tlc


def long_histories(chk, counts):
    """LONG histories (code -> spec).  The content terms of the model double in size with every update, so TLC
    cannot enumerate behaviours with dozens of updates; the trace specification has no such limit because it binds
    digests.  A mineral is updated until it holds exactly K snapshots (counts at and around powers of two, where
    chunked writers have their boundaries), saved under a postfix and as a whole file, and recovered through both
    loaders; the recorded calls are validated by MineralTrace.tla (RoundTrip, archive contents, append-only)."""
    from harness.common import scratch

    par = dict(M=125, chi=3, asm=[0], phiOl=10, x=[5, 0])
    for K in counts:
        with scratch() as d:
            w = layerb.World(d, dt=0.02)
            acts = [dict(a="Create", m="a", c=dict(phase=0, fabric=0, regime=4, n=2), seed=7, tex="random"),
                    dict(a="Create", m="b", c=dict(phase=1, fabric=5, regime=4, n=3), seed=7, tex="random")]
            acts += [dict(a="UpdateOk", m="a", fl="ss_xz", par=par, cb=layerb.NOCB) for _ in range(K - 1)]
            acts += [dict(a="SavePostfix", m="a", f="f1", pf="ol_1"), dict(a="SaveWholeFile", m="a", f="f2"),
                     dict(a="FromFile", m="d", f="f1", k="ol_1"), dict(a="Load", m="b", f="f2", k="none")]
            events = []
            for act in acts:
                lens_before = {name: len(m.orientations) for name, m in w.minerals.items()}
                err = w.do(act)
                ev = w.event(K, act, err, lens_before)
                if act["a"] not in ("SavePostfix", "SaveWholeFile", "FromFile", "Load"):
                    ev["disk"] = {}          # the archive does not exist yet
                events.append(ev)
                chk.count(("long", K, len(events)))
                if err != "None":
                    break
            rejects, tr = layerb.validate_trace(events, d)
        chk.add_tlc(f"MineralTrace(long history, {K} snapshots)", tr, f"{len(events)} recorded calls")
        chk.cov["traces_validated_against_impl"] += 1
        last = events[-1]
        if last["exc"] != "None":
            chk.violation(dict(level="trace", clause="persistence-call-raised", ev=last["ev"], snapshots=K),
                          f"{last['ev']} raised {w.last_exc!r} for a valid mineral holding {K} snapshots", dict(kind="long-history", K=K, event={k: v for k, v in last.items() if k != 'obs'}))
        for tid, line, clause in rejects:
            if clause.startswith(layerb.TRACE_CLAUSES["C17"]):
                chk.violation(dict(level="trace", clause=clause, ev=events[line - 1]["ev"], snapshots=K),
                              f"trace spec rejected call {line} ({events[line - 1]['ev']}) of the history with {K} snapshots: {clause}", dict(kind="long-history", K=K))
            else:
                chk.skip("foreign-reject-" + clause)


def main(tier):
    chk = Check("C17", tier)
    quick = tier != "thorough"
    mc = run_tlc("PyDRexC17", "PyDRexC17q" if quick else "PyDRexC17", workers=16, timeout=1800, coverage=not quick)
    chk.add_tlc("PyDRexC17", mc, "3 minerals x 6 configs, 3 postfixes, saves/loads in all orders (MaxOps %d): RoundTrip, PostfixIsolation, FailureAtomic, AppendOnly, DiskWellFormed" % (6 if quick else 7))
    if not quick:
        dead = [a for a, (d, t) in (mc.coverage or {}).items() if t == 0 and a in ("SavePostfix", "SaveWholeFile", "SaveCorrupt", "Load", "FromFile", "LoadBadName")]
        if dead:
            raise MachineryError(f"actions never taken: {dead}")
    # unbounded part: the history / persistence laws proved by TLAPS on the abstraction (HistoryLaws.tla); the TLC
    # run above checked PROPERTY RefinesLaws, i.e. that every step of the Layer-B machine is a step of that abstraction
    proof = run_tlaps("HistoryLawsProofs")
    chk.cov["tlaps"] = dict(module="HistoryLawsProofs", obligations_proved=proof["proved"], wall_s=proof["wall_s"],
                            theorems=["TypeInvariant", "AppendOnly", "FailureAtomic", "RefusalAtomic", "RoundTrip", "SaveIsolation", "DiskNonEmpty"],
                            link="PROPERTY RefinesLaws checked by TLC in PyDRexC17 (all reachable states of the bounded configuration)")
    if proof["proved"] < 200:
        raise MachineryError(f"only {proof['proved']} proof obligations")
    layerb.quiet = True
    from harness.common import quiet_pydrex

    quiet_pydrex()
    num = 120 if quick else 3000
    behs, sim = layerb.generate_behaviours("PyDRexC17", "PyDRexC17Sim", num, 14, SEED + 17)
    chk.add_tlc("PyDRexC17(simulate)", sim, f"{num} random behaviours, 2 archives, 3 postfixes, depth 12")
    enum, eres = layerb.enumerate_behaviours("PyDRexC17", "PyDRexC17Enum" if quick else "PyDRexC17Enum_thorough", workers=8)
    chk.add_tlc("PyDRexC17Enum", eres, "every order of three postfix saves (postfixes '1', '10', 'q': one a string prefix of another; a mineral with all-zero ordinals) followed by one recovery through either loader - all behaviours emitted and replayed")
    if len(enum) < 70:
        raise MachineryError(f"only {len(enum)} enumerated persistence behaviours")
    enum2, e2res = layerb.enumerate_behaviours("PyDRexC17", "PyDRexC17Enum2", workers=8)
    chk.add_tlc("PyDRexC17Enum2", e2res, "save, recover, save again into the same archive (postfix or whole-file rewrite), recover again - all behaviours emitted and replayed")
    if len(enum2) < 100:
        raise MachineryError(f"only {len(enum2)} save-recover-save-recover behaviours")
    behs = behs + enum + enum2
    events, comp = layerb.run_behaviours(chk, "C17", behs, fcheck=False)
    import numpy as np

    rk = [int(x) for x in np.random.default_rng(SEED + 1717).integers(5, 130, size=1 if quick else 4)]    # and a seeded draw of counts
    long_histories(chk, ((64, 33) if quick else (64, 128, 127, 65, 100)) + tuple(rk))
    acts = {}
    for e in events:
        acts[e["ev"]] = acts.get(e["ev"], 0) + 1
    chk.cov["calls_by_kind"] = acts
    for need in ("SavePostfix", "SaveWholeFile", "SaveCorrupt", "Load", "FromFile", "LoadBadName"):
        if acts.get(need, 0) == 0:
            chk.machinery_doubt(f"no {need} call was exercised")
    chk.sample(dict(kind="behaviour", calls=[s["act"] for s in behs[0][1:]]))
    chk.sample(dict(kind="trace-event", event=next(e for e in events if e["ev"] == "Load")))

    # negative controls: a loaded history that differs from the archive / an archive changed by a refused save
    def swap_loaded(bad):
        for i, e in enumerate(bad):
            if e["ev"] in ("Load", "FromFile") and e["exc"] == "None":
                e["obs"][e["m"]]["odig"][-1] = "0123456789abcdef"
                return i + 1
        return None

    cl = layerb.corrupt_and_validate(events, swap_loaded)
    chk.control("loaded-content-differs-rejected", cl is not None and "loaded-state-differs-from-archive" in cl, str(cl), impl_dependent=True)

    def wrong_meta(bad):
        for i, e in enumerate(bad):
            if e["ev"] in ("SavePostfix",) and e["exc"] == "None":
                e["disk"][e["f"]][e["pf"]]["meta"][1] += 1
                return i + 1
        return None

    cl = layerb.corrupt_and_validate(events, wrong_meta)
    chk.control("archive-meta-differs-rejected", cl is not None and "archive-differs-after-save" in cl, str(cl), impl_dependent=True)

    def lost_entry(bad):
        for i, e in enumerate(bad):
            if e["ev"] == "SavePostfix" and e["exc"] == "None" and len(e["disk"].get(e["f"], {})) >= 2:
                other = next(k for k in e["disk"][e["f"]] if k != e["pf"])
                del e["disk"][e["f"]][other]
                return i + 1
        return None

    cl = layerb.corrupt_and_validate(events, lost_entry)
    if cl is not None:
        chk.control("postfix-save-dropping-entry-rejected", "archive-differs-after-save" in cl, str(cl), impl_dependent=True)
    return chk.finish(
        rule="behaviours of PyDRexC17 drawn by tlc -simulate (distinct call sequences); every call's post-state (minerals and archives) compared with the specification",
        exhaustive=False,
    )
