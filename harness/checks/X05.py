"""X05 (extension, not one of the listed properties) - geometric helpers follow spec/GeoHelpers.tla.

Spec:  GeoHelpers.tla - to_indices2d (axis letters, either case, refusals), smallest_angle (bidirectional axis,
       optional projection onto a plane; exact at 0 / 30 / 45 / 60 / 90 degrees), shirley_concentric_squaredisk
       (exact on the axes and diagonals in Q(sqrt2); radius law); lemmas IdxLemmas, AngleLemmas, RadiusLemma checked
       by TLC.
Bind:  every case TLC emits is replayed into the real function.  The float laws of the square-to-disk map (radius =
       max(|x|, |y|), odd symmetry, wedge angle) are measured on a seeded grid and on points next to the wedge borders.
"""
import numpy as np

from harness.common import SEED, Check, MachineryError, parse_printed_json, quiet_pydrex, run_tlc

TOL = 1e-9


def main(tier):
    chk = Check("X05", tier)
    res = run_tlc("GeoHelpers", "GeoHelpers", workers=4, timeout=300)
    chk.add_tlc("GeoHelpers", res, "index table over 9 x 9 letter pairs, angle table over 14 x 14 integer vectors (+ 3 planes), square-to-disk map on axes and diagonals: IdxLemmas, AngleLemmas, RadiusLemma")
    cases = parse_printed_json(res.output, "CASE")
    if len(cases) < 400:
        raise MachineryError(f"only {len(cases)} cases")
    pd = quiet_pydrex()
    from pydrex import diagnostics, geometry

    kinds = {}
    for c in cases:
        k = c["kind"]
        kinds[k] = kinds.get(k, 0) + 1
        chk.count((k, str(c)))
        if k == "idx":
            try:
                got = ("ok", list(geometry.to_indices2d(c["h"], c["v"])))
            except ValueError:
                got = ("ValueError", [])
            except Exception as ex:  # noqa: BLE001
                got = (type(ex).__name__, [])
            if got != (c["exp"]["out"], list(c["exp"]["idx"])):
                chk.violation(dict(fn="to_indices2d", clause="table", expected=c["exp"]["out"]), f"to_indices2d({c['h']!r}, {c['v']!r}) -> {got}; GeoHelpers.tla expects {c['exp']}", dict(case=c))
        elif k in ("angle", "angleplane"):
            v = np.array(c["v"], dtype=float)
            a = np.array(c["a"], dtype=float)
            v, a = v / np.linalg.norm(v), a / np.linalg.norm(a)
            try:
                if k == "angle":
                    got = float(diagnostics.smallest_angle(v, a))
                else:
                    plane = np.zeros(3)
                    plane[c["k"] - 1] = 1.0
                    got = float(diagnostics.smallest_angle(v, a, plane))
            except Exception as ex:  # noqa: BLE001
                chk.violation(dict(fn="smallest_angle", clause="raised", exc=type(ex).__name__), f"smallest_angle raised {ex!r} on {c}", dict(case=c))
                continue
            chk.maximum("smallest_angle_dev_deg", abs(got - c["deg"]))
            if not abs(got - c["deg"]) <= 1e-5:     # arccos near 0 / 1 loses half the digits: 1e-5 degrees
                chk.violation(dict(fn="smallest_angle", clause="value", with_plane=k == "angleplane", deg=c["deg"]), f"smallest_angle -> {got}; GeoHelpers.tla expects {c['deg']} degrees for {c}", dict(case=c))
        elif k == "shirley":
            x, y = c["nx"] / 2.0, c["ny"] / 2.0
            ex = (c["exp"]["x"][0] + c["exp"]["x"][1] * np.sqrt(2.0)) / 4.0
            ey = (c["exp"]["y"][0] + c["exp"]["y"][1] * np.sqrt(2.0)) / 4.0
            try:
                gx, gy = geometry.shirley_concentric_squaredisk([x], [y])
                dev = max(abs(float(gx[0]) - ex), abs(float(gy[0]) - ey))
            except Exception as exn:  # noqa: BLE001
                chk.violation(dict(fn="shirley_concentric_squaredisk", clause="raised", exc=type(exn).__name__), f"raised {exn!r} on ({x}, {y})", dict(case=c))
                continue
            chk.maximum("shirley_exact_dev", dev)
            if not dev <= TOL:
                chk.violation(dict(fn="shirley_concentric_squaredisk", clause="exact-point"), f"({x}, {y}) -> ({float(gx[0])}, {float(gy[0])}); GeoHelpers.tla expects ({ex}, {ey})", dict(case=c))
    chk.cov["cases_by_kind"] = kinds
    # float laws of the square-to-disk map
    rng = np.random.default_rng(SEED + 5)
    pts = rng.uniform(-1, 1, size=(4000, 2))
    edge = rng.uniform(-1, 1, size=(500, 1))
    pts = np.vstack([pts, np.hstack([edge, edge * (1 + 1e-9)]), np.hstack([edge, -edge * (1 - 1e-9)]), np.hstack([edge, np.full_like(edge, 1.0)]), np.hstack([np.full_like(edge, -1.0), edge])])
    try:
        gx, gy = geometry.shirley_concentric_squaredisk(pts[:, 0], pts[:, 1])
        mx, my = geometry.shirley_concentric_squaredisk(-pts[:, 0], -pts[:, 1])
        r = np.hypot(gx, gy)
        want = np.abs(pts).max(axis=1)
        wedge = np.abs(pts[:, 0]) >= np.abs(pts[:, 1])
        ang = np.where(wedge, np.pi / 4 * pts[:, 1] / np.where(pts[:, 0] == 0, 1, pts[:, 0]), np.pi / 2 - np.pi / 4 * pts[:, 0] / np.where(pts[:, 1] == 0, 1, pts[:, 1]))
        s = np.where(wedge, np.sign(pts[:, 0]), np.sign(pts[:, 1]))
        ex, ey = s * want * np.cos(ang), s * want * np.sin(ang)
        measures = dict(radius=float(np.abs(r - want).max()), odd=float(max(np.abs(gx + mx).max(), np.abs(gy + my).max())), value=float(max(np.abs(gx - ex).max(), np.abs(gy - ey).max())))
    except Exception as exn:  # noqa: BLE001
        chk.violation(dict(fn="shirley_concentric_squaredisk", clause="raised", exc=type(exn).__name__), f"raised {exn!r} on the float grid", {})
        measures = {}
    for name, dev in measures.items():
        chk.maximum("shirley_" + name + "_dev", dev)
        chk.count(("shirley-float", name))
        if not dev <= 1e-8:     # the implementation's 1e-12 guard in the ratio moves images by up to ~1e-10
            chk.violation(dict(fn="shirley_concentric_squaredisk", clause="float-" + name), f"square-to-disk map: {name} law off by {dev:.3g} on a seeded grid (incl. points next to the wedge borders)", dict(seed=SEED + 5))
    chk.sample(dict(kind="case", case=cases[0]))
    chk.control("angle-comparison-detects-a-wrong-angle", abs(float(diagnostics.smallest_angle(np.array([1.0, 0, 0]), np.array([0.0, 1, 0]))) - 45) > 1e-5, impl_dependent=True)
    return chk.finish(rule="every case enumerated by TLC replayed; float laws on a seeded grid of 6000 points", exhaustive=True)
