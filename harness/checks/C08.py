"""C08 - multiphase: each phase evolves independently with its own volume factor.

Spec:  PyDRexC08 (three pre-built minerals, twins a/b + enstatite c; every interleaving of
       single and bulk updates under every assemblage order / fraction pair; invariants
       NonInterference (refinement to the solo machine), Twins, OwnFractionOnly), C08Equiv
       (parameter pairs with equal effective mobility).
Bind:  every enumerated behaviour is executed on real minerals; content terms are bound to
       SHA-256 digests: equal terms - within a behaviour and across ALL behaviours of the run -
       must be bit-identical arrays (so solo, interleaved, permuted-assemblage, reordered-bulk and
       twin runs must agree bit for bit).  Effective-mobility pairs are compared to solver tolerance.
"""
import json

import numpy as np

from harness import layerb
from harness.common import SEED, Check, MachineryError, parse_printed_json, quiet_pydrex, run_tlc, scratch


def run_pair(pd, pair, n=8, regime=4):
    outs = []
    for par in (pair["multi"], pair["single"]):
        p = pair["phase"]
        m = pd.Mineral(phase=p, fabric=0 if p == 0 else 5, regime=regime, n_grains=n, seed=3)
        L = layerb.FLOWS["gen3d"]
        F = np.eye(3)
        rp = pair.get("rp") or []
        for k in range(3):
            kw = {}
            if rp:
                kw["get_regime"] = lambda t, x, t0=k * 0.2: rp[0] if (t - t0) < 0.08 else rp[1]
            F = m.update_orientations(layerb.make_params(par), F, lambda t, x: L, (k * 0.2, (k + 1) * 0.2, lambda t: np.zeros(3)), **kw)
        outs.append((np.array(m.orientations), np.array(m.fractions)))
    do = np.abs(outs[0][0] - outs[1][0]).max()
    df = np.abs(outs[0][1] - outs[1][1]).max()
    return do, df


def main(tier):
    chk = Check("C08", tier)
    quick = tier != "thorough"
    if quick:
        res = run_tlc("PyDRexC08", "PyDRexC08q", workers=8, timeout=600)
        chk.add_tlc("PyDRexC08(MaxUpd=1)", res, "all interleavings of single/bulk updates, 1 update per mineral: NonInterference, Twins, OwnFractionOnly")
    else:
        big = run_tlc("PyDRexC08", "PyDRexC08", workers=16, timeout=1800)
        chk.add_tlc("PyDRexC08(MaxUpd=2)", big, "all interleavings, 2 updates per mineral: NonInterference, Twins, OwnFractionOnly")
        res = run_tlc("PyDRexC08", "PyDRexC08q", workers=8, timeout=600)
        chk.add_tlc("PyDRexC08(MaxUpd=1)", res, "enumeration for replay")
    behs = parse_printed_json(res.output, "BEH")
    if len(behs) != 600:
        raise MachineryError(f"expected 600 complete interleavings, got {len(behs)}")
    nsim = 60 if quick else 1500
    sims, sim = layerb.generate_behaviours("PyDRexC08", "PyDRexC08Sim", nsim, 14, SEED + 8)
    chk.add_tlc("PyDRexC08(simulate, MaxUpd=3)", sim, f"{nsim} random interleavings, 3 flows, 3 updates per mineral")
    nflt = 24 if quick else 800
    flts, fsim = layerb.generate_behaviours("PyDRexC08", "PyDRexC08FaultSim", nflt, 16, SEED + 9)
    chk.add_tlc("PyDRexC08(simulate, client faults)", fsim, f"{nflt} random interleavings with failing single / bulk updates in between (UpdateFaulted, UpdateAllFaulted)")
    nlife = 24 if quick else 800
    life_mc = run_tlc("PyDRexC08", "PyDRexC08Life", workers=4, timeout=900)
    chk.add_tlc("PyDRexC08(object life cycle)", life_mc, "every interleaving of updates, failing updates and ONE Clone (deepcopy / pickle) up to 3 calls: LifeNonInterference (a clone evolves as the solo mineral its original was), LifeTwins, FailureAtomic")
    lifes, lsim = layerb.generate_behaviours("PyDRexC08", "PyDRexC08LifeSim", nlife, 13, SEED + 10)
    chk.add_tlc("PyDRexC08(simulate, object life cycle)", lsim, f"{nlife} random interleavings in which a mineral is duplicated (copy.deepcopy / pickle round trip) and original and copy go on independently")
    sims = sims + flts + lifes
    pd = quiet_pydrex()
    events, comp = layerb.run_behaviours(chk, "C08", behs + sims, fcheck=False)
    chk.cov["bound_terms"] = dict(orientations=len(comp.omap), fractions=len(comp.fmap))
    # second pass with the documented solver keyword arguments handed to EVERY update (per-mineral and bulk alike):
    # the content terms are bound afresh (own comparator), so twins, reorderings of the bulk list, solo and
    # interleaved runs must again agree bit for bit - a mineral that does not receive the caller's options diverges
    sub = (behs[::7] if quick else behs[::2]) + sims[: (30 if quick else 300)]
    _, comp_kw = layerb.run_behaviours(chk, "C08", sub, fcheck=False, solver_kw=dict(rtol=1e-4, atol=1e-5, first_step=1e-3), sig_extra=lambda detail: dict(solver_options=True))
    chk.cov["bound_terms_with_solver_options"] = dict(orientations=len(comp_kw.omap), fractions=len(comp_kw.fmap), behaviours=len(sub))
    chk.sample(dict(kind="interleaving", calls=[s["act"] for s in behs[17][1:]]))
    chk.sample(dict(kind="bound-term", term=json.loads(next(iter(comp.omap))), digest=next(iter(comp.omap.values()))))
    # negative control: a digest bound to a term must be rejected when it changes
    probe = layerb.Comparator()
    probe.omap = dict(comp.omap)
    k = next(iter(probe.omap))
    probe.bind(probe.omap, json.loads(k), "ffffffffffffffff", "C08", "content-function-o", {})
    chk.control("changed-digest-for-same-term-detected", len(probe.mismatches) == 1)

    # own-fraction clause: effective mobility pairs
    eq = run_tlc("C08Equiv", workers=4, timeout=300)
    chk.add_tlc("C08Equiv", eq, "parameter pairs (multiphase, single-phase) with equal effective mobility")
    pairs = parse_printed_json(eq.output, "PAIR")
    rng = np.random.default_rng(SEED)
    if quick:
        # a seeded sample, stratified by regime programme (4 pairs of each, olivine first: enstatite has no migration)
        by = {}
        for i in rng.permutation(len(pairs)):
            by.setdefault(json.dumps(pairs[int(i)]["rp"]), []).append(pairs[int(i)])
        pairs = [q for grp in by.values() for q in sorted(grp, key=lambda q: (q["phase"], q["multi"]["M"] == 0))[:3] + grp[-1:]]
    for pi, pair in enumerate(pairs):
        regime = (4, 6)[pi % 2]       # both dislocation-type regimes
        try:
            do, df = run_pair(pd, pair, regime=regime)
        except Exception as e:  # noqa: BLE001
            chk.violation(dict(clause="pair-run-raised", exc=type(e).__name__, rp=str(pair.get("rp"))), f"a supported update of the effective-mobility pair raised {e!r}", pair)
            continue
        chk.count(("pair", json.dumps(pair, sort_keys=True), regime))
        chk.maximum("effective_mobility_pair_dO", do)
        chk.maximum("effective_mobility_pair_dF", df)
        if not (do <= 1e-6 and df <= 1e-6):
            chk.violation(dict(clause="own-phase-fraction-scales-mobility", phase=pair["phase"], asm=str(pair["multi"]["asm"]), regime=regime),
                          f"multiphase run differs from single-phase run with M*phi: dO={do:.3g} dF={df:.3g} pair={pair}", pair)
    chk.sample(dict(kind="effective-mobility-pair", pair=pairs[0]))
    # negative control for the pair comparison: a pair with a DIFFERENT effective mobility must differ
    wrong = json.loads(json.dumps(next(p for p in parse_printed_json(eq.output, "PAIR") if p["multi"]["M"] >= 50 and p["phase"] == 0)))
    wrong["single"]["M"] = wrong["multi"]["M"]
    do, df = run_pair(pd, wrong)
    chk.control("unequal-effective-mobility-distinguishable", df > 1e-6, f"dF={df:.3g}", impl_dependent=True)
    return chk.finish(
        rule="every complete interleaving of the MaxUpd=1 model (600) plus simulated deeper ones; distinct by call sequence; effective-mobility pairs distinct by parameter pair",
        exhaustive=False,
        extra={"exhaustive_part": "all 600 complete interleavings of PyDRexC08 with one update per mineral were replayed"},
    )
