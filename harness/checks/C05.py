"""C05 - texture depends on the strain path, not on the strain rate.

Spec:  PairTrace.tla - scenario classes (rate factor k in 1e-16 .. 1e3 x fabric x regime x flow x
       texture x partition x parameters) and the judge: the scaled run (k L, t / k) must reproduce
       textures and deformation gradient within twice the accumulated ODE budget, evaluated on the
       machine's own N and strain.  Whether the agreement is still at rounding level (1e-12, the
       statement's remark about the present code) is reported in the evidence, not demanded.
Bind:  paired update histories on real minerals, recorded per step, judged by TLC.
"""
import json

import numpy as np

from harness import pairs
from harness.common import SEED, Check, cap, quiet_pydrex


def main(tier):
    chk = Check("C05", tier)
    quick = tier != "thorough"
    scens, sres = pairs.sample_scenarios(tier, "scale")
    chk.add_tlc("PairTrace(sample)", sres, "seeded sample of rate-scaling scenario classes")
    if not quick:
        pairs.full_space(chk)
    pd = quiet_pydrex()
    rng = np.random.default_rng(SEED + 55)
    events, meta = [], {}
    ks = set()
    rounding_level = 0
    for sc in scens:
        k = float(sc["k"])
        ks.add(sc["k"])
        o0, f0 = pairs.initial(sc, rng)
        getL, getx = pairs.flow_pair(sc["flow"], rate=1.0)
        getLk, getxk = pairs.flow_pair(sc["flow"], rate=k)
        single = len(ks) % 4 == 3 or (sc["fab"] == "EN" and k < 1e-10)
        if single:
            # the client's callable returns a SINGLE-precision velocity gradient (a field read from a float32 file); the
            # relation is judged within solver tolerance, far above single precision
            getL = (lambda g: (lambda t, x: np.asarray(g(t, x)).astype(np.float32)))(getL)
            getLk = (lambda g: (lambda t, x: np.asarray(g(t, x)).astype(np.float32)))(getLk)
            chk.cov["single_precision_gradient_pairs"] = chk.cov.get("single_precision_gradient_pairs", 0) + 1
        try:
            r1 = pairs.run_member(pd, sc, o0, f0, getL, getx, rate=1.0, layout=("C", "view")[len(events) % 2])
            r2 = pairs.run_member(pd, sc, o0, f0, getLk, getxk, rate=k)
        except Exception as e:  # noqa: BLE001
            chk.violation(dict(clause="raised", exc=type(e).__name__, k=sc["k"], fabric=sc["fab"]), f"paired run raised {e!r} for k={sc['k']}", dict(scen=sc))
            continue
        events.append(dict(id=len(events), ev="Start"))
        worst = 0.0
        for step, ((A1, f1, F1, ds), (A2, f2, F2, _)) in enumerate(zip(r1, r2)):
            ok = pairs.safe_grains(sc, f1, f2)
            if not ok.all():
                chk.skip("grain-near-sliding-floor")
            dA = float(np.abs(A2 - A1)[ok].max()) if ok.any() else 0.0
            dfv = float(np.abs(f2 - f1)[ok].sum()) if ok.any() else 0.0
            dG = float(np.abs(F2 - F1).max() / max(1.0, np.abs(F1).max()))
            e = dict(id=len(events), ev="Step", rel="rate-scaling", dstrain_e6=cap(ds * 1e6), dA_e9=cap(dA * 1e9), df_e9=cap(dfv * 1e9), dG_e9=cap(dG * 1e9))
            meta[e["id"]] = dict(scen=sc, step=step)
            events.append(e)
            worst = max(worst, dA, dfv, dG)
            chk.maximum("orientation_dev", dA)
            chk.maximum("volume_L1_dev", dfv)
            chk.maximum("F_dev", dG)
        rounding_level += worst <= 1e-12
        chk.count(("pair", json.dumps(sc, sort_keys=True)))
    chk.cov["rate_factors_exercised"] = sorted(ks)
    chk.cov["pairs_agreeing_at_rounding_level_1e-12"] = int(rounding_level)
    chk.cov["pairs"] = len(scens)
    rejects, jres = pairs.judge(events)
    chk.add_tlc("PairTrace(judge)", jres, f"{len(events)} recorded steps judged against twice the accumulated budget")
    chk.cov["traces_validated_against_impl"] = len(scens)
    for rj in rejects:
        m = meta[rj["id"]]
        for clause in rj["clauses"]:
            sig = dict(clause=clause, k=m["scen"]["k"], fabric=m["scen"]["fab"], regime=m["scen"]["regime"])
            chk.violation(sig, f"{clause} beyond twice the accumulated budget at step {m['step']} (N={rj['n']}): {m['scen']}", dict(meta=m, event=events[rj["id"]]))
    chk.sample(dict(kind="scenario", scen=scens[0]))
    chk.sample(dict(kind="event", event=next((e for e in events if e["ev"] == "Step"), dict(note="no step was recorded: every paired run raised"))))
    rj, _ = pairs.judge([dict(id=0, ev="Start"), dict(id=1, ev="Step", rel="rate-scaling", dstrain_e6=200000, dA_e9=10, df_e9=90000000, dG_e9=10),
                         dict(id=2, ev="Step", rel="rate-scaling", dstrain_e6=200000, dA_e9=10, df_e9=10, dG_e9=13000000)])
    got = {r["id"]: r["clauses"] for r in rj}
    chk.control("judge-rejects-rate-dependent-deviation", got.get(1) == ["rate-scaling:volume-fractions"] and 2 not in got, str(got))
    return chk.finish(rule="TLC-sampled scenario classes of PairTrace (rate factor x fabric x regime x flow x texture x partition x parameters), distinct by class record", exhaustive=False)
