"""C04 - frame indifference and crystal-symmetry invariance of rates and textures.

Spec:  DRexKernel.tla Covariant / TwoFold lemmas (exact, coefficient-wise in the symbolic slip
       rates, checked by TLC on every single-grain case of DRexGen: frame rotations from the
       octahedral group, all three two-folds); PairTrace.tla (scenario classes + judge: twice the
       accumulated ODE budget on the machine's own N and strain).
Bind:  rates - the exact lemma holds in the model and C02 binds the model to the code; in addition
       derivatives is called on rotated / two-folded float inputs (rounding tolerance);
       textures - paired update histories (frame rotation classes octahedral / rational / random,
       two-fold patterns none / all / subset) recorded per step and judged by TLC.
"""
import json

import numpy as np
from scipy.spatial.transform import Rotation

from harness import kernel, layerb, pairs
from harness.common import SEED, Check, MachineryError, cap, quiet_pydrex, run_tlc

PAR = dict(n=3.5, p=1.5, lam=5.0, M=125.0, phi=0.7)
# parameter points for the rate-level relations (incl. whole-number exponents, even and odd)
PARS = [PAR, dict(n=2.0, p=1.0, lam=5.0, M=125.0, phi=1.0), dict(n=4.0, p=2.0, lam=0.0, M=50.0, phi=0.3),
        dict(n=5.0, p=1.5, lam=10.0, M=200.0, phi=0.7), dict(n=3.0, p=1.0, lam=5.0, M=10.0, phi=1.0),
        # equal exponents (the one coincidence of the two documented ranges is p = n = 2; the relations hold for every value)
        dict(n=2.0, p=2.0, lam=5.0, M=125.0, phi=0.7), dict(n=3.5, p=3.5, lam=5.0, M=125.0, phi=1.0), dict(n=1.5, p=1.5, lam=2.0, M=60.0, phi=0.5)]


def rate_level(chk, core, rng, count):
    """instantaneous rates under frame rotation and two-folds, on float inputs (1e-9)."""
    worst = 0.0
    for i in range(count):
        PAR = PARS[(i // 3) % len(PARS)]
        fab = ["A", "B", "C", "D", "E", "EN"][i % 6]
        regime = [4, 6][(i // 6) % 2]
        phase, fabric = kernel.FAB[fab]
        n = [1, 3, 20][i % 3]
        A = Rotation.random(n, random_state=int(rng.integers(1 << 30))).as_matrix()
        if i % 4 == 3 and n >= 2:
            # RELATED grains: consecutive grains that are images of one another under a symmetry of the SAMPLE frame (a
            # symmetrised texture: half-turns about the external axes, axis permutations) - their entries agree up to
            # signs / positions, yet they are different orientations with different rates
            ext = [np.diag([-1.0, -1.0, 1.0]), np.diag([1.0, -1.0, -1.0]), np.diag([-1.0, 1.0, -1.0]), np.eye(3)[[1, 2, 0]], np.eye(3)[[2, 0, 1]]]
            for g in range(1, n, 2):
                A[g] = A[g - 1] @ ext[(i // 4 + g) % len(ext)]
        f = rng.random(n)
        f /= f.sum()
        L = layerb.FLOWS[["gen3d", "trace", "ss_xz", "pure_xy", "axi_c"][i % 5]]
        Q = Rotation.random(random_state=int(rng.integers(1 << 30))).as_matrix()
        D = (L + L.T) / 2
        o1, df1 = core.derivatives(regime, phase, fabric, n, A.copy(), f.copy(), D, L, np.zeros((3, 3)), PAR["p"], PAR["n"], PAR["lam"], PAR["M"], PAR["phi"])
        L2 = Q @ L @ Q.T
        A2 = np.einsum("gij,kj->gik", A, Q)
        o2, df2 = core.derivatives(regime, phase, fabric, n, A2.copy(), f.copy(), (L2 + L2.T) / 2, L2, np.zeros((3, 3)), PAR["p"], PAR["n"], PAR["lam"], PAR["M"], PAR["phi"])
        s = max(1.0, np.abs(o1).max())
        dev = max(np.abs(o2 - np.einsum("gij,kj->gik", o1, Q)).max() / s, np.abs(df2 - df1).max() / max(1.0, np.abs(df1).max()))
        # two-folds on a random subset of grains
        S = pairs.TWOFOLDS[i % 3]
        mask = rng.random(n) < 0.5
        A3 = A.copy()
        A3[mask] = np.einsum("ij,gjk->gik", S, A[mask])
        o3, df3 = core.derivatives(regime, phase, fabric, n, A3.copy(), f.copy(), D, L, np.zeros((3, 3)), PAR["p"], PAR["n"], PAR["lam"], PAR["M"], PAR["phi"])
        exp3 = o1.copy()
        exp3[mask] = np.einsum("ij,gjk->gik", S, o1[mask])
        dev2 = max(np.abs(o3 - exp3).max() / s, np.abs(df3 - df1).max() / max(1.0, np.abs(df1).max()))
        worst = max(worst, dev, dev2)
        chk.count(("rate", i))
        if dev > 1e-9:
            chk.violation(dict(level="rates", clause="frame-rotation", fabric=fab, regime=regime), f"rates are not frame-indifferent: deviation {dev:.3g} (fabric {fab}, regime {regime}, params {PAR})", dict(fab=fab, regime=regime, par=PAR, A=A.tolist(), f=f.tolist(), L=L.tolist(), Q=Q.tolist()))
        if dev2 > 1e-9:
            chk.violation(dict(level="rates", clause="crystal-two-fold", fabric=fab, regime=regime), f"rates are not invariant under a lattice two-fold: deviation {dev2:.3g} (fabric {fab}, regime {regime}, params {PAR})", dict(fab=fab, regime=regime, par=PAR, A=A.tolist(), f=f.tolist(), L=L.tolist(), S=S.tolist(), mask=mask.tolist()))
    chk.maximum("rate_level_deviation", worst)
    principal_frame(chk, core, rng, max(12, count // 10))


def principal_frame(chk, core, rng, count):
    """Aggregates in which some grains are aligned EXACTLY with the principal axes of an irrotational flow given in its
    principal frame (no slip system is resolved on them there; in the rotated frame they are in general position),
    evaluated right after an unrelated aggregate of the same size - as happens when several polycrystals are advanced in
    one process.  Tolerances: 1e-6 on the orientation rates, 5e-2 relative on the volume rates: the aligned grains carry
    exactly zero strain energy in the principal frame and a rounding-born one in the rotated frame (resolved shear
    ~1e-16 raised to the power p/n), which moves the volume rates by up to 3e-3 of their largest value on the unchanged
    tree (1500 draws); a mis-assigned energy moves them by O(1)."""
    octa = np.round(Rotation.create_group("O").as_matrix())
    worst_o = worst_f = 0.0
    for i in range(count):
        PAR = PARS[i % len(PARS)]
        fab = ["A", "B", "C", "D", "E", "EN"][i % 6]
        regime = [4, 6][(i // 6) % 2]
        phase, fabric = kernel.FAB[fab]
        n = [8, 5, 20][i % 3]
        L = np.diag([[2.0, -0.5, -1.5], [1.0, -1.0, 0.0], [0.5, 0.5, -1.0], [-0.5, 1.0, -0.5]][i % 4])
        A = Rotation.random(n, random_state=int(rng.integers(1 << 30))).as_matrix()
        for g in rng.choice(n, size=2, replace=False):
            A[g] = octa[int(rng.integers(24))]
        f = rng.random(n) + 0.2
        f /= f.sum()
        Q = Rotation.random(random_state=int(rng.integers(1 << 30))).as_matrix()

        def call(Ax, Lx):
            return core.derivatives(regime, phase, fabric, n, Ax.copy(), f.copy(), (Lx + Lx.T) / 2, Lx, np.zeros((3, 3)), PAR["p"], PAR["n"], PAR["lam"], PAR["M"], PAR["phi"])

        try:
            call(Rotation.random(n, random_state=int(rng.integers(1 << 30))).as_matrix(), layerb.FLOWS["ss_xz"])   # the unrelated aggregate
            o1, df1 = call(A, L)
            o2, df2 = call(np.einsum("gij,kj->gik", A, Q), Q @ L @ Q.T)
        except Exception as e:  # noqa: BLE001
            chk.violation(dict(level="rates", clause="principal-frame-raised", exc=type(e).__name__), f"derivatives raised {e!r} on an aggregate with grains aligned with the principal axes of the flow", dict(fab=fab, regime=regime))
            continue
        o1, df1, o2, df2 = (np.asarray(x, dtype=float) for x in (o1, df1, o2, df2))
        eo = float(np.abs(o2 - np.einsum("gij,kj->gik", o1, Q)).max()) / max(1.0, float(np.abs(o1).max()))
        ef = float(np.abs(df2 - df1).max()) / max(float(np.abs(df1).max()), 1e-300) if np.abs(df1).max() > 0 else float(np.abs(df2).max())
        worst_o, worst_f = max(worst_o, eo), max(worst_f, ef)
        chk.count(("principal-frame", i))
        if not (eo <= 1e-6 and ef <= 5e-2):
            chk.violation(dict(level="rates", clause="frame-rotation-principal-frame", fabric=fab, regime=regime),
                          f"rates of an aggregate with grains aligned with the principal axes of the flow are not frame-indifferent (orientation rates {eo:.3g}, volume rates {ef:.3g} relative; fabric {fab}, regime {regime})",
                          dict(fab=fab, regime=regime, par=PAR, A=A.tolist(), f=f.tolist(), L=L.tolist(), Q=Q.tolist(), how="an unrelated aggregate of the same size is evaluated first"))
    chk.maximum("principal_frame_orientation_rate_dev", worst_o)
    chk.maximum("principal_frame_volume_rate_dev", worst_f)


def rate_level_ties(chk, core, cases, rng):
    """Grains at an EXACT activity tie (two slip systems equally loaded, in the same or in opposite senses): the exact
    cases TLC flags as ties, under exact (octahedral) and generic frame rotations and under the three lattice two-folds.
    The published rates are continuous across a tie, so the relations hold there as everywhere else."""
    tied = [c for c in cases if any(c["tie"]) and not any(c["dead"]) and not any(c["unresolved"]) and not c.get("limit")]
    octa = np.round(Rotation.create_group("O").as_matrix())
    worst, n_done = 0.0, 0
    for ci, c in enumerate(tied):
        phase, fabric = kernel.FAB[c["fab"]]
        A, L, f = kernel.case_inputs(c, None)
        n = len(f)
        PAR = PARS[ci % len(PARS)]

        def rates(A_, L_):
            return core.derivatives(c["regime"], phase, fabric, n, A_.copy(), f.copy(), (L_ + L_.T) / 2, L_, np.zeros((3, 3)), PAR["p"], PAR["n"], PAR["lam"], PAR["M"], PAR["phi"])

        o1, df1 = rates(A, L)
        s = max(1.0, float(np.abs(o1).max()))
        sf = max(1.0, float(np.abs(df1).max()))
        for qname, Q in (("octahedral", octa[1 + ci % 23]), ("generic", Rotation.random(random_state=int(rng.integers(1 << 30))).as_matrix())):
            o2, df2 = rates(np.einsum("gij,kj->gik", A, Q), Q @ L @ Q.T)
            dev = max(float(np.abs(o2 - np.einsum("gij,kj->gik", o1, Q)).max()) / s, float(np.abs(df2 - df1).max()) / sf)
            worst = max(worst, dev)
            if dev > 1e-9:
                chk.violation(dict(level="rates", clause="frame-rotation", fabric=c["fab"], regime=c["regime"], tie=True),
                              f"rates of a grain at an exact activity tie are not frame-indifferent ({qname} rotation): deviation {dev:.3g}", dict(case=dict(fab=c["fab"], regime=c["regime"], L=c["L"], As=c["As"], f=c["f"]), Q=Q.tolist(), par=PAR))
        for S in pairs.TWOFOLDS:
            o3, df3 = rates(np.einsum("ij,gjk->gik", S, A), L)
            dev = max(float(np.abs(o3 - np.einsum("ij,gjk->gik", S, o1)).max()) / s, float(np.abs(df3 - df1).max()) / sf)
            worst = max(worst, dev)
            if dev > 1e-9:
                chk.violation(dict(level="rates", clause="crystal-two-fold", fabric=c["fab"], regime=c["regime"], tie=True),
                              f"rates of a grain at an exact activity tie are not invariant under a lattice two-fold: deviation {dev:.3g}", dict(case=dict(fab=c["fab"], regime=c["regime"], L=c["L"], As=c["As"], f=c["f"]), S=S.tolist(), par=PAR))
        n_done += 1
        chk.count(("tie", kernel.case_key(c)))
    chk.maximum("rate_level_deviation_at_ties", worst)
    chk.cov["exact_tie_cases_under_frame_and_twofold_relations"] = n_done


def main(tier):
    chk = Check("C04", tier)
    quick = tier != "thorough"
    cases, res = kernel.generate_cases(tier)
    chk.add_tlc("DRexGen", res, "FrameLemma: Covariant under octahedral frame rotations and TwoFold under the three lattice two-folds, coefficient-wise for all slip-rate powers, on every single-grain case")
    scens, sres = pairs.sample_scenarios(tier, "frame")
    chk.add_tlc("PairTrace(sample)", sres, "seeded sample of frame-relation scenario classes")
    if not quick:
        pairs.full_space(chk)
    pd = quiet_pydrex()
    from pydrex import core

    rng = np.random.default_rng(SEED + 44)
    rate_level(chk, core, rng, 180 if quick else 3000)
    rate_level_ties(chk, core, cases, rng)
    # every grain count: exact cyclic aggregates in rotated frames with two-folds on every other round of copies
    from harness.checks.C02 import size_sweep

    size_sweep(chk, cases, 16384 if quick else 32768, PARS, frames=True, clause_prefix="size-sweep-frame")
    events, meta = [], {}
    for si, sc in enumerate(scens):
        o0, f0 = pairs.initial(sc, rng)
        n = sc["n"]
        if sc["q"] == "octahedral":
            Q = np.round(Rotation.create_group("O").as_matrix()[int(rng.integers(24))])
        elif sc["q"] == "rational":
            Q = pairs.RATIONAL_Q[int(rng.integers(len(pairs.RATIONAL_Q)))]
        else:
            Q = Rotation.random(random_state=int(rng.integers(1 << 30))).as_matrix()
        S = pairs.TWOFOLDS[int(rng.integers(3))]
        if sc["s"] == "none":
            mask = np.zeros(n, dtype=bool)
        elif sc["s"] == "all":
            mask = np.ones(n, dtype=bool)
        else:
            mask = rng.random(n) < 0.5
        getL, getx = pairs.flow_pair(sc["flow"])
        getL2, getx2 = pairs.flow_pair(sc["flow"], Q=Q)
        o2 = o0.copy()
        o2[mask] = np.einsum("ij,gjk->gik", S, o2[mask])
        o2 = np.einsum("gij,kj->gik", o2, Q)
        try:
            r1 = pairs.run_member(pd, sc, o0, f0, getL, getx, layout=("C", "view")[si % 2])
            r2 = pairs.run_member(pd, sc, o2, f0, getL2, getx2)
        except Exception as e:  # noqa: BLE001
            chk.violation(dict(level="textures", clause="raised", exc=type(e).__name__, fabric=sc["fab"]), f"paired run raised {e!r}", dict(scen=sc))
            continue
        events.append(dict(id=len(events), ev="Start"))
        for k, ((A1, f1, F1, ds), (A2, f2, F2, _)) in enumerate(zip(r1, r2)):
            exp = A1.copy()
            exp[mask] = np.einsum("ij,gjk->gik", S, exp[mask])
            exp = np.einsum("gij,kj->gik", exp, Q)
            ok = pairs.safe_grains(sc, f1, f2)
            if not ok.all():
                chk.skip("grain-near-sliding-floor")
            dA = float(np.abs(A2 - exp)[ok].max()) if ok.any() else 0.0
            dfv = float(np.abs(f2 - f1)[ok].sum()) if ok.any() else 0.0  # L1 distance of the volume distributions
            dG = float(np.abs(F2 - Q @ F1 @ Q.T).max() / max(1.0, np.abs(F1).max()))
            e = dict(id=len(events), ev="Step", rel="frame-and-symmetry", dstrain_e6=cap(ds * 1e6), dA_e9=cap(dA * 1e9), df_e9=cap(dfv * 1e9), dG_e9=cap(dG * 1e9))
            meta[e["id"]] = dict(scen=sc, step=k)
            events.append(e)
            chk.maximum("integrated_orientation_dev", dA)
            chk.maximum("integrated_volume_L1_dev", dfv)
            chk.maximum("integrated_F_dev", dG)
        chk.count(("pair", json.dumps(sc, sort_keys=True)))
    rejects, jres = pairs.judge(events)
    chk.add_tlc("PairTrace(judge)", jres, f"{len(events)} recorded steps judged against twice the accumulated budget")
    chk.cov["traces_validated_against_impl"] = len(scens)
    for rj in rejects:
        m = meta[rj["id"]]
        for clause in rj["clauses"]:
            sig = dict(level="textures", clause=clause, fabric=m["scen"]["fab"], regime=m["scen"]["regime"], q=m["scen"]["q"], s=m["scen"]["s"])
            chk.violation(sig, f"{clause} beyond twice the accumulated budget at step {m['step']} (N={rj['n']}): {m['scen']}", dict(meta=m, event=events[rj["id"]]))
    chk.sample(dict(kind="scenario", scen=scens[0]))
    chk.sample(dict(kind="event", event=next((e for e in events if e["ev"] == "Step"), dict(note="no step was recorded: every paired run raised"))))
    # negative control: a frame-dependent deviation of 0.1 must be rejected; one inside the budget accepted
    rj, _ = pairs.judge([dict(id=0, ev="Start"), dict(id=1, ev="Step", rel="frame-and-symmetry", dstrain_e6=200000, dA_e9=100000000, df_e9=10, dG_e9=10),
                         dict(id=2, ev="Step", rel="frame-and-symmetry", dstrain_e6=200000, dA_e9=10000000, df_e9=10, dG_e9=10)])
    got = {r["id"]: r["clauses"] for r in rj}
    chk.control("judge-rejects-frame-dependent-deviation", got.get(1) == ["frame-and-symmetry:orientations"] and 2 not in got, str(got))
    return chk.finish(
        rule="exact: every single-grain DRexGen case x frame rotations x two-folds (TLC); floats: seeded rate-level draws cycling fabrics/regimes/flows; integrated: TLC-sampled scenario classes, distinct by class record",
        exhaustive=False,
    )
