"""C09 - grain-boundary sliding: small grains are floored and do not rotate.

Spec:  Gbs (Layer A): ApplyGbs over exact rationals and abstract orientation identifiers;
       TLC proves the consequences (sum 1, ratios, floor, minimum bound, order, chi = 0,
       re-application) on every case of the exhaustive domain and emits every case with its
       exact expected output.
       GbsTrace (Layer C): judges recorded real updates (mask <=> below, orientations exactly,
       floor value, renormalisation, minimum, order, chi = 0); it also enumerates the scenario
       classes of the recorded histories.
Bind:  (spec -> code) every emitted case is replayed into pydrex.utils.apply_gbs: exact
       orientation selection, volumes to REPLAY_TOL relative.  Cases in which a volume hits the
       threshold exactly are replayed only where the spec says the float computation is exact
       (dyadic chi and chi/n); the others stay spec-level and are counted as skipped.
       (code -> spec) pydrex.minerals._utils.apply_gbs is replaced by a recording wrapper
       (restored in a finally block) while real Mineral.update_orientations histories run; per
       update the LAST invocation (the integrated state before flooring), the snapshot at the
       start and the stored snapshot are projected to booleans / ranks / integer deviations and
       judged by TLC.  If the attribute path is gone the lines are logged with hooked = false
       and only the snapshot clauses are judged (stated in the evidence, never a violation).
The harness builds inputs, compares bit patterns and writes integers; the formulas and every
threshold except REPLAY_TOL are in the .tla files.  Python mutants of apply_gbs and corrupted
records exist ONLY as negative controls of the machinery.
"""
import json
import math
import re

import numpy as np

from harness import layerb
from harness.common import SEED, Check, MachineryError, cap, parse_printed_json, quiet_pydrex, run_tlc, scratch, write_ndjson

PID = "C09"
# relative tolerance of the exact replay: inputs, threshold, an n-term sum (any order), one
# division and the conversion of the expected rational cost at most (n + 5) roundings of
# 1.11e-16, i.e. 1.2e-15 for n = 6; formula mutations move results by > 1e-3.
REPLAY_TOL = 2e-15
TRACE_DEFECT = "trace-"


# ----------------------------------------------------------------------------- spec -> code
def _tagged(n):
    """n distinguishable 3x3 arrays (not rotations: apply_gbs must not care)."""
    return (np.arange(1, n + 1, dtype=float)[:, None, None] * 4.0 + np.arange(9, dtype=float).reshape(3, 3) / 16.0) / 64.0


def case_inputs(case):
    n = case["n"]
    f = np.array([k / case["D"] for k in case["num"]], dtype=float)
    chi = case["chi"][0] / case["chi"][1]
    cur = _tagged(n)
    prev = -_tagged(n)
    return cur, f, chi, prev, n


def case_signature(case, clause):
    return dict(level="replay", clause=clause, chi="zero" if case["chi"][0] == 0 else "positive", tie=bool(case["tie"]),
                floored="none" if not any(case["mask"]) else "some")


def replay_case(fn, case, chk, record=True):
    """One emitted case into apply_gbs; returns (failing clause or None, worst relative deviation)."""
    cur, f, chi, prev, n = case_inputs(case)
    clause, what, worst = None, "", 0.0
    try:
        out = fn(cur.copy(), f.copy(), chi, prev.copy(), n)
        o2, f2 = np.asarray(out[0]), np.asarray(out[1])
    except Exception as ex:  # noqa: BLE001
        clause, what = "raised", f"{type(ex).__name__}: {ex}"[:200]
        o2 = f2 = None
    if clause is None and (o2.shape != (n, 3, 3) or f2.shape != (n,)):
        clause, what = "output-shape", f"{o2.shape} {f2.shape}"
    if clause is None:
        for g in range(n):
            want = prev[g] if case["mask"][g] else cur[g]
            if not np.array_equal(o2[g], want):
                clause = "orientation-selection"
                what = f"grain {g + 1}: volume {case['num'][g]}/{case['D']} vs threshold {case['thr'][0]}/{case['thr'][1]}: expected the " + (
                    "previous" if case["mask"][g] else "integrated") + " orientation of the same grain"
                break
    if clause is None:
        for g in range(n):
            p, q = case["out"][g]
            e = p / q
            d = abs(float(f2[g]) - e)
            rel = d / e if e > 0 else (0.0 if d == 0 else float("inf"))
            if not np.isfinite(f2[g]):
                rel = float("inf")
            worst = max(worst, rel)
            if not (d <= REPLAY_TOL * e):
                clause = "volume"
                what = f"grain {g + 1}: got {float(f2[g])!r}, exact {p}/{q} = {e!r}"
                break
    if clause and record:
        chk.violation(case_signature(case, clause),
                      f"apply_gbs(n={n}, f={case['num']}/{case['D']}, chi={case['chi'][0]}/{case['chi'][1]}): {clause}: {what}",
                      dict(kind="case", case=case))
    return clause, worst


def size_sweep(fn, chk, nmax):
    """Every grain count 1..nmax into apply_gbs directly, judged by the pointwise law of Gbs.tla (LSelect: a grain
    below chi / n takes the previous orientation OF THE SAME GRAIN, every other grain keeps the integrated one; LFloor:
    floored grains get chi / n, then one common normalisation).  The volumes cycle through five weight classes, two of
    them far below and three far above the threshold (no ties), so that sliding grains occur at every position of
    the array, the last ones included."""
    w = np.array([0.05, 1.0, 2.0, 0.1, 3.0])
    bad = {}
    worst = 0.0
    for n in range(1, nmax + 1):
        chi = (0.3, 0.5, 0.0)[n % 3]
        f = w[(np.arange(n) + n) % 5]
        f = f / f.sum()
        cur, prev = _tagged(n), -_tagged(n)
        try:
            out = fn(cur.copy(), f.copy(), chi, prev.copy(), n)
            o2, f2 = np.asarray(out[0]), np.asarray(out[1], dtype=float)
        except Exception as ex:  # noqa: BLE001
            bad.setdefault("raised-" + type(ex).__name__, []).append(n)
            continue
        if o2.shape != (n, 3, 3) or f2.shape != (n,) or not np.all(np.isfinite(f2)):
            bad.setdefault("output-shape-or-non-finite", []).append(n)
            continue
        mask = f < chi / n
        if np.abs(f - chi / n).min() < 1e-3 / n and chi > 0:
            chk.skip("size sweep: a volume within 0.1 % of the threshold")
            continue
        want_o = np.where(mask[:, None, None], prev, cur)
        if not np.array_equal(o2, want_o):
            bad.setdefault("orientation-selection", []).append(n)
        ff = np.where(mask, chi / n, f)
        ff = ff / ff.sum()
        dev = float(np.abs(f2 - ff).max() / ff.max())
        worst = max(worst, dev)
        if not dev <= 1e-10:     # rounding of two different summation orders over up to nmax terms (the compiled
            # normalisation sums sequentially: observed up to 3e-12 at 5e4 - 6e4 grains; a wrong floor is off by > 1e-6)
            bad.setdefault("volume", []).append(n)
        chk.count(("sweep", n))
    chk.maximum("size_sweep_volume_rel_dev", worst)
    chk.cov["size_sweep"] = dict(sizes=f"every grain count 1..{nmax}", chi="0.3 / 0.5 / 0 cycling", volume_classes=5)
    for clause, sizes in sorted(bad.items()):
        chk.violation(dict(level="size-sweep", clause=clause), f"apply_gbs: {clause} wrong at {len(sizes)} grain count(s), first {sizes[:8]}",
                      dict(kind="size-sweep", sizes=sizes[:200], how="volumes w[(i + n) % 5] / sum with w = (0.05, 1, 2, 0.1, 3); chi = (0.3, 0.5, 0)[n % 3]; orientations _tagged(n), previous = -_tagged(n)"))


def replayable(case):
    return (not case["tie"]) or case["exact"]


# ----------------------------------------------------------------------------- recording wrapper
ARGS = ("orientations", "fractions", "gbs_threshold", "orientations_prev", "n_grains")


class Hook:
    """Attribute replacement of the apply_gbs that minerals.py calls; plain Python wrapper around
    `impl` (default: the original, a numba dispatcher).  Keeps the last invocation per update."""

    def __init__(self, impl=None):
        import importlib

        self.target = None
        self.slot = dict(last=None, calls=0)
        try:
            mod = importlib.import_module("pydrex.minerals")
        except Exception:  # noqa: BLE001
            mod = None
        for holder in (getattr(mod, "_utils", None), mod):
            if holder is not None and callable(getattr(holder, "apply_gbs", None)):
                self.target = holder
                break
        self.orig = getattr(self.target, "apply_gbs", None) if self.target is not None else None
        self.impl = impl or self.orig

    def _wrap(self, *a, **kw):
        pre = None
        try:
            b = dict(zip(ARGS, a))
            b.update({k: v for k, v in kw.items() if k in ARGS})
            pre = dict(o_in=np.array(b["orientations"], dtype=float, copy=True), f_in=np.array(b["fractions"], dtype=float, copy=True),
                       ref=np.array(b["orientations_prev"], dtype=float, copy=True), chi=float(b["gbs_threshold"]), n=int(b["n_grains"]))
        except Exception:  # noqa: BLE001 - an unreadable call is "not hooked", never a verdict
            pre = None
        out = self.impl(*a, **kw)
        self.slot["calls"] += 1
        if pre is not None:
            try:
                pre["o_out"] = np.array(out[0], dtype=float, copy=True)
                pre["f_out"] = np.array(out[1], dtype=float, copy=True)
            except Exception:  # noqa: BLE001
                pre = None
        self.slot["last"] = pre
        return out

    def __enter__(self):
        if self.target is not None:
            setattr(self.target, "apply_gbs", self._wrap)
        return self

    def __exit__(self, *exc):
        if self.target is not None:
            setattr(self.target, "apply_gbs", self.orig)
        return False

    def reset(self):
        self.slot["last"], self.slot["calls"] = None, 0


# ----------------------------------------------------------------------------- projection
def _dense_ranks(v):
    u, inv = np.unique(v, return_inverse=True)
    return u, [int(x) + 1 for x in np.ravel(inv)]


def project(rec, tid, k):
    """Concrete record of one update -> the integer / boolean line GbsTrace judges."""
    n, chi = rec["n"], rec["chi"]
    o_st, f_st = np.asarray(rec["o_st"], dtype=float), np.asarray(rec["f_st"], dtype=float)
    bound = chi / (n * (1 + chi))
    fmin = float(np.min(f_st)) if f_st.size and np.all(np.isfinite(f_st)) else float("nan")
    line = dict(tid=tid, ev="upd", k=k, n=n, chin=rec["chin"], chid=rec["chid"], hooked=False,
                sumdev=cap(abs(math.fsum(f_st) - 1.0) * 1e15) if np.all(np.isfinite(f_st)) else cap(float("inf")),
                minshort=cap(max(0.0, 1.0 - fmin / bound) * 1e15) if bound > 0 else cap(max(0.0, -fmin) * 1e15))
    last = rec.get("last")
    if last is None or last["n"] != n or last["o_in"].shape != (n, 3, 3) or last["f_in"].shape != (n,) or o_st.shape != (n, 3, 3) or f_st.shape != (n,):
        return line
    o_in, f_in, o_start = last["o_in"], last["f_in"], np.asarray(rec["o_start"], dtype=float)
    thr = chi / n
    below = f_in < thr
    S = math.fsum(thr if b else float(x) for b, x in zip(below, f_in))
    uin, rin = _dense_ranks(f_in)
    _, rst = _dense_ranks(f_st)
    fdev, rdev = [], []
    for g in range(n):
        scaled = float(f_st[g]) * S
        fdev.append(cap(abs(scaled / thr - 1.0) * 1e15) if thr > 0 else 0)
        rdev.append(cap(abs(scaled / float(f_in[g]) - 1.0) * 1e15) if f_in[g] > 0 else cap(abs(scaled) * 1e15))
    line.update(hooked=True,
                below=[bool(b) for b in below], rin=rin, rst=rst, rthr=int(np.searchsorted(uin, thr, side="left")),
                masked=[bool(np.array_equal(o_st[g], o_start[g])) for g in range(n)],
                # storing clips entries to [-1, 1] (C01's validity): an integrated orientation kept up to that clip is kept
                kept=[bool(np.array_equal(o_st[g], o_in[g]) or np.array_equal(o_st[g], np.clip(o_in[g], -1.0, 1.0))) for g in range(n)],
                fdev=fdev, rdev=rdev)
    return line


def zero_rate_fields(rec, f_start):
    """Snapshot-only facts of an update in a regime whose volume rates are zero (GbsTrace.ZeroRateVerdicts)."""
    n, chi = rec["n"], rec["chi"]
    thr = chi / n
    o_st, f_st, o_start = np.asarray(rec["o_st"], dtype=float), np.asarray(rec["f_st"], dtype=float), np.asarray(rec["o_start"], dtype=float)
    zbelow = [bool(x < thr) for x in f_start]
    above = [h for h in range(n) if not zbelow[h]]
    zlift = []
    for g in range(n):
        worst = 0.0
        if zbelow[g] and thr > 0 and f_st.shape == (n,) and np.all(np.isfinite(f_st)):
            for h in above:
                if f_st[h] > 0:
                    worst = max(worst, 1.0 - (float(f_st[g]) * float(f_start[h])) / (thr * float(f_st[h])))
        zlift.append(cap(worst * 1e15))
    zfrozen = [bool(o_st.shape == o_start.shape and np.array_equal(o_st[g], o_start[g])) for g in range(n)]
    return dict(zbelow=zbelow, zfrozen=zfrozen, zlift=zlift)


# ----------------------------------------------------------------------------- real histories
def scenario_seed(sc, salt=0):
    return int((abs(SEED) * 1000003 + sum(x * 31**i for i, x in enumerate(sc["id"])) * 7919 + salt) % (2**31 - 1))


def run_history(pd, hook, sc, tid, chk, facts, lines, meta, nupd=None, salt=0):
    """Run one scenario class on a real Mineral; append one projected line per update."""
    n, chi10 = sc["n"], sc["chi"]
    par = dict(M=sc["M"], chi=chi10, asm=[sc["phase"]], phiOl=10, x=[5, 0])
    params = layerb.make_params(par)
    chi = float(params["gbs_threshold"])
    seed = scenario_seed(sc, salt)
    o0, f0 = layerb.initial_texture(sc["tex"], n, seed)
    kw = {} if o0 is None else dict(orientations_init=o0, fractions_init=f0)
    m = pd.Mineral(phase=sc["phase"], fabric=sc["fabric"], regime=int(pd.DeformationRegime.matrix_dislocation), n_grains=n, seed=seed, **kw)
    getL, getx = layerb.flow_callables(sc["fl"])
    nested = None
    if tid % 4 == 2:
        # nested client: at its first evaluation in every update (before the library starts its solver) the velocity-
        # gradient callable advances ANOTHER mineral of the same grain count by an update of its own - "the orientation
        # it had at the start of that update" is the outer mineral's, whatever else the client does with the library
        from harness import chatter

        inner = chatter.nested_mineral_update(n, k=tid)

        def paused_inner():
            keep = hook.slot
            hook.slot = dict(last=None, calls=0)      # the nested update's sliding calls are not the judged mineral's
            try:
                inner()
            finally:
                hook.slot = keep

        nested = chatter.NestedClient(getL, paused_inner)
        getL = nested
    F, t = np.eye(3), 0.0
    prev_below = None
    crossed = False
    total = nupd or sc["nupd"]
    rp = sc.get("rp") or [4, 4]
    # interval programme: most histories advance by the default strain increment (0.2) per update; every fifth one
    # makes LONG calls (strain 1.3 in ONE update: many solver steps, grains shrink through the threshold well inside
    # the call - whatever the call does internally, "the orientation it had at the start of that update" is the
    # snapshot stored before the call), every fifth one very short calls
    dt = (layerb.DT, layerb.DT, 1.3, layerb.DT, 0.05)[tid % 5]
    if dt > 1.0:
        total = min(total, 4)
    for k in range(1, total + 1):
        if tid % 3 == 1:
            # threshold programme: the client edits the threshold IN PLACE in the one parameter dictionary it hands to
            # every update of this history (chi, 0, chi + 0.1, chi, ...): each update is judged with the threshold in
            # force when it was called
            chi10 = (sc["chi"], 0, min(sc["chi"] + 1, 9), sc["chi"])[k % 4]
            params["gbs_threshold"] = chi10 / 10.0
            chi = float(params["gbs_threshold"])
        regime = rp[0] if 5 * k <= 3 * total else rp[1]
        zero_mobility = regime == 40          # programme code: matrix_dislocation with M* = 0
        if zero_mobility:
            regime = 4
        step_params = dict(params, gbm_mobility=0) if zero_mobility else params
        m.regime = pd.DeformationRegime(regime)
        f_start = np.array(m.fractions[-1], dtype=float, copy=True)
        o_start = np.array(m.orientations[-1], dtype=float, copy=True)
        if np.abs(o_start).max() > 1.0 or not np.all(np.isfinite(o_start)):
            chk.skip("start-orientation-not-in-[-1,1]")  # outside the quantifier (not a rotation matrix)
            break
        nsnap = len(m.orientations)
        hook.reset()
        if nested is not None:
            nested.arm()
        try:
            Fn = m.update_orientations(step_params, F, getL, (t, t + dt, getx))
        except Exception as ex:  # noqa: BLE001 - rejected / failed updates belong to C07 / C01
            chk.skip("update-raised:" + type(ex).__name__)
            facts["updates_raised"] = facts.get("updates_raised", 0) + 1
            facts["first_exception"] = facts.get("first_exception") or f"{type(ex).__name__}: {ex}"[:200]
            break
        try:
            Fn = np.asarray(Fn, dtype=float)
            usable = Fn.shape == (3, 3) and bool(np.all(np.isfinite(Fn))) and float(np.abs(Fn).max()) < 1e6
        except Exception:  # noqa: BLE001
            usable = False
        if usable:
            F = Fn
        else:
            chk.skip("returned-deformation-gradient-unusable (C06's clause): the history goes on from the gradient handed in")
        t += dt
        if nested is not None:
            facts["nested_client_calls_run"] = facts.get("nested_client_calls_run", 0) + (1 if nested.count >= 1 and nested.ran else 0)
            facts["nested_client_calls_raised"] = nested.raised
        if len(m.orientations) != nsnap + 1 or len(m.fractions) != nsnap + 1:
            chk.skip("update-did-not-append-one-snapshot")  # C01's clause
            break
        rec = dict(n=n, chi=chi, chin=chi10, chid=10, o_start=o_start, o_st=m.orientations[-1], f_st=m.fractions[-1], last=hook.slot["last"])
        line = project(rec, tid, k)
        if regime in (0, 1, 7) or zero_mobility:
            line.update(zero_rate_fields(rec, f_start))
            facts["zero_rate_updates"] = facts.get("zero_rate_updates", 0) + 1
            facts["zero_rate_grains_below_at_start"] = facts.get("zero_rate_grains_below_at_start", 0) + int(sum(line["zbelow"]))
        lines.append(line)
        meta[len(lines)] = dict(sc=sc, seed=seed, k=k, salt=salt)
        chk.count(("upd", tuple(sc["id"]), k))
        facts["updates"] += 1
        if not line["hooked"]:
            facts["updates_not_hooked"] += 1
            continue
        last = hook.slot["last"]
        facts["apply_gbs_calls"] += hook.slot["calls"]
        facts["reference_argument_is_start_snapshot"] += bool(np.array_equal(last["ref"], o_start))
        facts["stored_orientations_equal_last_output"] += bool(np.array_equal(last["o_out"], m.orientations[-1]))
        b = np.array(line["below"])
        facts["grains_below"] += int(b.sum())
        facts["grains_not_below"] += int((~b).sum())
        facts["updates_with_floored_grains"] += bool(b.any())
        facts["grains_frozen_with_distinct_integrated_orientation"] += int(sum(mk and not kp for mk, kp in zip(line["masked"], line["kept"])))
        if prev_below is not None:
            down = int((~prev_below & b).sum())
            facts["grains_shrinking_through_threshold"] += down
            facts["grains_growing_back_over_threshold"] += int((prev_below & ~b).sum())
            crossed = crossed or down > 0
        prev_below = b
        for name in ("fdev", "rdev"):
            sel = [line[name][g] for g in range(n) if (line["below"][g] if name == "fdev" else not line["below"][g])]
            if sel:
                chk.maximum(f"trace_{name}_rel", max(sel) * 1e-15)
        chk.maximum("trace_sumdev", line["sumdev"] * 1e-15)
        chk.maximum("trace_minshort_rel", line["minshort"] * 1e-15)
    facts["histories_with_a_threshold_crossing_after_the_first_update"] += bool(crossed)
    return m


def validate(lines, d, name, timeout=900):
    path = d / f"{name}.ndjson"
    write_ndjson(path, lines)
    res = run_tlc("GbsTrace", "GbsTrace", workers=1, env={"TRACE_FILE": str(path)}, timeout=timeout)
    rejects = set()
    for ln in res.output.splitlines():
        m = re.match(r'<<"REJECT", (-?\d+), (\d+), "([^"]*)", (\d+), (\d+)>>', ln)
        if m:
            rejects.add((int(m.group(1)), int(m.group(2)), m.group(3), int(m.group(4)), int(m.group(5))))
    done = re.search(r'<<"DONE", (\d+), (\d+), (\d+)>>', res.output)
    if not done or int(done.group(1)) != len(lines):
        raise MachineryError("GbsTrace did not consume the whole trace:\n" + res.output[-3000:])
    if int(done.group(2)) != len(rejects):
        raise MachineryError(f"GbsTrace verdict count mismatch: DONE says {done.group(2)}, parsed {len(rejects)}")
    res["hooked_lines"] = int(done.group(3))
    return sorted(rejects), res


# ----------------------------------------------------------------------------- controls
def record_from_case(case):
    """A concrete update record built from a TLC-emitted case (the spec's own exact output):
    independent of the implementation, so a broken apply_gbs cannot disable the controls."""
    cur, f, chi, prev, n = case_inputs(case)
    o_st = np.array([prev[g] if case["mask"][g] else cur[g] for g in range(n)])
    f_st = np.array([p / q for p, q in case["out"]], dtype=float)
    return dict(n=n, chi=chi, chin=case["chi"][0], chid=case["chi"][1], o_start=prev.copy(), o_st=o_st, f_st=f_st,
                last=dict(n=n, o_in=cur.copy(), f_in=f.copy(), ref=prev.copy(), chi=chi))


def mutant(kind):
    """Python variants of apply_gbs used ONLY as negative controls of the trace machinery."""

    def fn(orientations, fractions, gbs_threshold, orientations_prev, n_grains):
        thr = gbs_threshold / n_grains
        mask = fractions < thr
        ref = orientations_prev
        if kind == "inverted-mask":
            mask = ~mask
        if kind == "reference-rolled-by-one-grain":
            ref = np.roll(orientations_prev, 1, axis=0)
        if kind != "no-freezing":
            orientations[mask] = ref[mask]
        fractions[mask] = thr * (0.5 if kind == "floor-half" else 1.0)
        if kind != "no-renormalisation":
            fractions /= fractions.sum()
        return orientations, fractions

    return fn


MUTANTS = {
    "inverted-mask": ("floored-grain-rotated", "unfloored-grain-not-integrated"),
    "reference-rolled-by-one-grain": ("floored-grain-rotated",),
    "no-freezing": ("floored-grain-rotated",),
    "floor-half": ("floor-volume",),
    # equivalent at the level of the statement: extract_vars renormalises the stored state anyway
    "no-renormalisation": (),
    "correct-python-variant": (),
}


def run_controls(chk, d, pd, cases, hooked_available):
    lines, expect = [], {}
    tid = 0

    def add(name, clauses, rec, k=1, edit=None):
        nonlocal tid
        line = project(rec, tid, k)
        if edit:
            edit(line)
        lines.append(line)
        expect[tid] = (name, clauses)
        tid += 1

    def pick(pred):
        c = next((c for c in cases if pred(c)), None)
        if c is None:
            raise MachineryError("no emitted case suitable for a negative control")
        return c

    base = pick(lambda c: c["fam"] == "dyadic" and c["n"] == 4 and c["chi"] == [1, 2] and sum(c["mask"]) == 2 and len(set(c["num"])) == 4 and not c["tie"])
    zero = pick(lambda c: c["fam"] == "dyadic" and c["n"] == 4 and c["chi"] == [0, 1] and min(c["num"]) > 0 and len(set(c["num"])) == 4)
    gm = [g for g in range(4) if base["mask"][g]]
    gu = [g for g in range(4) if not base["mask"][g]]

    def variant(case, f):
        r = record_from_case(case)
        f(r)
        return r

    add("untouched-record-from-spec-output", (), record_from_case(base))
    add("untouched-chi0-record-from-spec-output", (), record_from_case(zero))
    add("floored-grain-got-integrated-orientation", ("floored-grain-rotated",), variant(base, lambda r: r["o_st"].__setitem__(gm[0], r["last"]["o_in"][gm[0]])))
    add("floored-grain-got-another-grains-reference", ("floored-grain-rotated",), variant(base, lambda r: r["o_st"].__setitem__(gm[0], r["o_start"][gm[1]])))
    add("floored-grain-orientation-one-ulp-off", ("floored-grain-rotated",), variant(base, lambda r: r["o_st"][gm[1]].__setitem__((1, 1), np.nextafter(r["o_st"][gm[1]][1, 1], 9.0))))
    add("unfloored-grain-frozen", ("unfloored-grain-not-integrated",), variant(base, lambda r: r["o_st"].__setitem__(gu[0], r["o_start"][gu[0]])))
    add("floor-value-off-by-1e-9", ("floor-volume",), variant(base, lambda r: r["f_st"].__setitem__(gm[0], r["f_st"][gm[0]] * (1 + 1e-9))))
    add("unfloored-volume-off-by-1e-9", ("unfloored-volume",), variant(base, lambda r: r["f_st"].__setitem__(gu[1], r["f_st"][gu[1]] * (1 - 1e-9))))

    def swap(r):
        r["f_st"][gu[0]], r["f_st"][gu[1]] = r["f_st"][gu[1]], r["f_st"][gu[0]]

    add("order-inversion-of-two-unfloored-grains", ("order-inverted",), variant(base, swap))
    add("not-renormalised", ("sum-not-1",), variant(base, lambda r: r.__setitem__("f_st", r["f_st"] * (base["S"][0] / base["S"][1]))))

    def under(r):
        chi = r["chi"]
        r["f_st"][gm[0]] = chi / (r["n"] * (1 + chi)) * (1 - 1e-6)

    add("stored-volume-under-the-minimum", ("minimum-below-bound",), variant(base, under))
    add("chi0-grain-frozen", ("chi0-frozen-or-floored",), variant(zero, lambda r: r["o_st"].__setitem__(2, r["o_start"][2])))

    def chi0_floor(r):
        r["f_st"][int(np.argmin(r["f_st"]))] *= 1.5
        r["f_st"] /= r["f_st"].sum()

    add("chi0-grain-floored", ("chi0-frozen-or-floored",), variant(zero, chi0_floor))
    add("recorder:update-index-out-of-sequence", ("trace-update-index",), record_from_case(base), k=3)
    add("recorder:below-flag-contradicts-ranks", ("trace-below-inconsistent-with-ranks",), record_from_case(base), edit=lambda ln: ln["below"].__setitem__(gu[0], True))

    def unhook(ln):
        ln["hooked"] = False
        ln["masked"] = [False] * ln["n"]

    add("snapshot-only-line-ignores-hook-fields", (), record_from_case(base), edit=unhook)

    # Variants of apply_gbs run through REAL updates via the same attribute replacement.  These
    # controls presuppose a correct update path around apply_gbs, so they are implementation-
    # dependent: the same scenario is first run with the ORIGINAL function (a real history whose
    # verdicts are genuine violations), and the variant controls are enforced only when that
    # baseline and the main run are clean.  On a tree that already violates the property they are
    # recorded as "not enforced" - a broken implementation must give exit 1, not exit 2.
    impl_dependent, broken = set(), {}
    base_tid, base_lines, base_sc = None, [], None
    n_mut = 0
    if hooked_available:
        sc = dict(phase=0, fabric=0, chi=3, M=125, n=8, tex="random", fl="ss_xz", nupd=3, id=[0, 0, 0, 0, 0, 0])
        base_sc = sc
        for kind, clauses in [("original", ())] + list(MUTANTS.items()):
            ls, mt = [], {}
            dry = Check(PID, chk.tier, dry=True)
            facts = _facts()
            try:
                with Hook(impl=None if kind == "original" else mutant(kind)) as hk:
                    run_history(pd, hk, sc, tid, dry, facts, ls, mt, salt=5)
            except Exception as ex:  # noqa: BLE001
                ls = []
                broken[kind] = f"{type(ex).__name__}: {ex}"[:200]
            if len(ls) != 3 or not all(x["hooked"] for x in ls):
                broken.setdefault(kind, f"recorded {len(ls)} update(s) instead of three hooked ones (skips: {dry.cov['skipped']})")
                continue
            lines.extend(ls)
            if kind == "original":
                base_tid, base_lines = tid, ls
            else:
                expect[tid] = (f"mutant-apply_gbs:{kind}", clauses)
                impl_dependent.add(tid)
                n_mut += 1
            tid += 1
    rejects, res = validate(lines, d, "controls")
    chk.add_tlc("GbsTrace(controls)", res, f"{len(expect)} planted histories ({len(lines)} lines): records built from the spec's own exact output and corrupted copies, "
                f"{n_mut} Python variants of apply_gbs (and the original) run through real updates")
    by = {}
    for t, _, clause, _, _ in rejects:
        by.setdefault(t, set()).add(clause)
    # the baseline is a real execution of the real code: its verdicts are violations, not control results
    first_line = {}
    for t, ln, clause, g, cnt in rejects:
        if t == base_tid:
            if clause.startswith(TRACE_DEFECT):
                raise MachineryError(f"recorder defect reported by the trace spec in the control baseline: {clause}")
            k = lines[ln - 1]["k"]
            chk.violation(dict(level="trace", clause=clause, chi="positive", n=base_sc["n"]),
                          f"update {k} of control-baseline scenario {base_sc}: {clause} at grain {g} ({cnt} grain(s))",
                          dict(kind="scenario", scenario=base_sc, seed=scenario_seed(base_sc, 5), salt=5, update=k, verif_seed=SEED, line=lines[ln - 1]))
    tree_clean = not chk.violations and not chk.known_hits and "original" not in broken
    for t, (name, clauses) in expect.items():
        got = by.get(t, set())
        ok = (set(clauses) <= got) if clauses else (not got)
        label = (f"trace-spec-rejects:{name}" if clauses else f"trace-spec-accepts:{name}")
        detail = f"expected {list(clauses) if clauses else 'no verdict'}, got {sorted(got)}"
        if t in impl_dependent and not tree_clean:
            chk.cov["negative_controls"].append(dict(control=label, fired=bool(ok), enforced=False,
                                                     detail=detail + " [implementation-dependent control; not enforced because this run found violations of the property]"))
        else:
            chk.control(label, ok, detail)
    for kind, why in broken.items():
        label = "mutant-control-history:" + kind
        if tree_clean or (kind != "original" and "original" not in broken and not chk.violations and not chk.known_hits):
            raise MachineryError(f"control history '{kind}' could not be recorded: {why}")
        chk.cov["negative_controls"].append(dict(control=label, fired=False, enforced=False, detail=why + " [not enforced: the run found violations / the baseline history failed too]"))
        if kind == "original":
            chk.skip("control-baseline-history-not-recorded")


def _facts():
    keys = ("updates", "updates_not_hooked", "apply_gbs_calls", "reference_argument_is_start_snapshot", "stored_orientations_equal_last_output",
            "grains_below", "grains_not_below", "updates_with_floored_grains", "grains_frozen_with_distinct_integrated_orientation",
            "grains_shrinking_through_threshold", "grains_growing_back_over_threshold", "histories_with_a_threshold_crossing_after_the_first_update")
    return {k: 0 for k in keys}


# ----------------------------------------------------------------------------- main
def main(tier):
    chk = Check(PID, tier)
    quick = tier != "thorough"
    # ---- 1. Layer A: lemmas on the exhaustive domain, cases with exact expected output
    cases = []
    for cfg, note, least in (
        ("Gbs" if quick else "Gbs_thorough", "n in 2..%d, volume grid k/12 (zeros, ties, threshold hits), chi in {0,1/4,1/3,1/2,9/10}: 10 lemmas + emission" % (5 if quick else 6), 11895 if quick else 42835),
        ("Gbs_dyadic", "n in {2,4}, volume grid k/16, chi in {0,1/8,1/4,1/2,3/4}: all rationals dyadic, exact threshold hits replayable", 4930),
    ):
        res = run_tlc("Gbs", cfg, workers=8, timeout=900)
        got = parse_printed_json(res.output, "CASE")
        chk.add_tlc(f"Gbs({cfg})", res, note)
        if len(got) != least or res.distinct != 2 * least:
            raise MachineryError(f"Gbs/{cfg}: {len(got)} cases emitted, {res.distinct} states; expected {least} cases")
        cases += got
    neg = run_tlc("Gbs", "Gbs_nonstrict", workers=4, timeout=300, expect_violation=True)
    chk.control("lemma-set-rejects-nonstrict-mask", neg.violated == "LSelect", f"planted '<=' mask: TLC reports {neg.violated}")
    chk.cov["spec_facts"] = dict(
        cases=len(cases), with_floored_grains=sum(any(c["mask"]) for c in cases), threshold_hits=sum(c["tie"] for c in cases),
        threshold_hits_float_exact=sum(c["tie"] and c["exact"] for c in cases),
        reapplication_reproduces_output=sum(c["reid"] for c in cases),
        reapplication_differs=sum(not c["reid"] for c in cases),
        note="full idempotence does not hold (LReapply states what does); the statement's claim is the minimum bound LMinBound")

    pd = quiet_pydrex()
    from pydrex import utils as putils

    # ---- 2. spec -> code: replay every case into the real apply_gbs
    fn = putils.apply_gbs
    outcomes = {}
    for c in cases:
        if not replayable(c):
            chk.skip("threshold-hit-with-non-dyadic-threshold (float comparison not exact; spec-level only)")
            continue
        clause, worst = replay_case(fn, c, chk)
        chk.count(("case", c["fam"], c["n"], tuple(c["num"]), tuple(c["chi"])))
        chk.maximum("replay_volume_rel_dev", worst if clause != "volume" else 0.0)
        k = ("tie:" if c["tie"] else "") + ("floored" if any(c["mask"]) else "nothing-floored") + ("" if clause is None else ":" + clause)
        outcomes[k] = outcomes.get(k, 0) + 1
    chk.cov["replay_outcomes"] = outcomes
    size_sweep(fn, chk, 20000 if quick else 60000)
    chk.sample(dict(kind="case", case=next(c for c in cases if c["fam"] == "dyadic" and c["tie"] and any(c["mask"]) and c["n"] == 4)))
    chk.sample(dict(kind="case", case=next(c for c in cases if c["fam"] == "grid" and c["n"] == 5 and sum(c["mask"]) == 3)))
    # replayer controls: perturbed expected values / flipped selection / a mutant must be flagged
    probe = Check(PID, tier, dry=True)
    good = next(c for c in cases if c["fam"] == "dyadic" and c["n"] == 4 and sum(c["mask"]) == 2 and not c["tie"])
    tiec = next(c for c in cases if c["fam"] == "dyadic" and c["n"] == 4 and c["tie"] and c["chi"][0] > 0 and any(c["mask"]))
    bump = json.loads(json.dumps(good))
    bump["out"][0] = [bump["out"][0][0] * 1000000 + 1, bump["out"][0][1] * 1000000]  # expected volume * (1 + ~1e-7 .. 1e-6)
    tiny = json.loads(json.dumps(good))
    p, q = tiny["out"][1]
    tiny_rel = 1.0 / (p * 10**13)
    tiny["out"][1] = [p * 10**13 + 1, q * 10**13]  # Python integers: exact; p/q is correctly rounded
    flip = json.loads(json.dumps(good))
    flip["mask"][flip["mask"].index(True)] = False
    # the comparison logic is what is under test here: the cases are run through a Python variant
    # (control only), not through the implementation, so a broken apply_gbs cannot disable them
    ref = mutant("correct-python-variant")
    if replay_case(ref, good, probe)[0] is not None or probe.violations:
        raise MachineryError("the control-only Python variant of apply_gbs disagrees with the specification's expected output")
    got = [replay_case(ref, x, probe)[0] for x in (bump, tiny, flip)]
    chk.control("replayer-flags-perturbed-expected-volume", got[0] == "volume" and got[1] == "volume", f"relative perturbations ~1e-7 and {tiny_rel:.1e}: {got[:2]}")
    chk.control("replayer-flags-flipped-expected-selection", got[2] == "orientation-selection", str(got[2]))
    strict = replay_case(lambda o, f, chi, prev, n: _nonstrict(o, f, chi, prev, n), tiec, probe)[0]
    chk.control("replayer-flags-nonstrict-mask-on-exact-threshold-hit", strict == "orientation-selection", f"'<=' variant on {tiec['num']}/16, chi={tiec['chi']}: {strict}")

    # ---- 3. code -> spec: real histories, recorded through the wrapper
    scen_res = run_tlc("GbsTrace", "GbsScen" if quick else "GbsScen_thorough", workers=4, timeout=300)
    scen = sorted(parse_printed_json(scen_res.output, "SCEN"), key=lambda s: s["id"])
    chk.add_tlc("GbsTrace(scenario classes)", scen_res, "(phase,fabric) x chi x M* x n_grains x flow x texture classes, history length 10/15/20")
    if len(scen) != (108 if quick else 1296):
        raise MachineryError(f"scenario generator produced {len(scen)} classes")
    lines, meta, facts = [], {}, _facts()
    with Hook() as hook:
        hooked_available = hook.target is not None
        for tid, sc in enumerate(scen):
            run_history(pd, hook, sc, tid, chk, facts, lines, meta)
    if putils.apply_gbs is not fn:
        raise MachineryError("apply_gbs attribute was not restored")
    chk.cov["trace_facts"] = facts
    chk.cov["hook"] = ("pydrex.minerals._utils.apply_gbs replaced by a recording wrapper" if hooked_available
                       else "DEGRADED: attribute path pydrex.minerals._utils.apply_gbs not found; only snapshot clauses (sum, minimum) were judged")
    if facts["updates_not_hooked"]:
        chk.cov["hook"] += f"; {facts['updates_not_hooked']} update(s) without a recorded call were judged on snapshot clauses only"
    if not lines:
        if facts.get("updates_raised"):
            # every update of every in-domain history (supported regime, valid fabric, finite flow) raised: nothing
            # could be floored or frozen because nothing was stored at all
            chk.violation(dict(level="trace", clause="every-update-raised"), f"no update of {len(scen)} in-domain histories completed ({facts['updates_raised']} raised; first: {facts.get('first_exception')})", dict(kind="all-updates-raised"))
            chk.sample(dict(kind="scenario", scenario=scen[0]))
            return chk.finish(rule="histories recorded until the first raising update", exhaustive=False)
        raise MachineryError("no update was recorded")
    with scratch() as d:
        rejects, res = validate(lines, d, "main", timeout=900 if quick else 1800)
        chk.add_tlc("GbsTrace", res, f"{len(lines)} recorded updates of {len(scen)} histories ({res['hooked_lines']} with the integrated state captured)")
        chk.cov["traces_validated_against_impl"] += len(scen)
        for t, ln, clause, g, cnt in rejects:
            mt = meta.get(ln)
            if clause.startswith(TRACE_DEFECT) or mt is None:
                raise MachineryError(f"recorder defect reported by the trace spec: history {t} line {ln}: {clause}")
            sc = mt["sc"]
            chk.violation(dict(level="trace", clause=clause, chi="zero" if sc["chi"] == 0 else "positive", n=sc["n"]),
                          f"update {mt['k']} of scenario {sc} (seed {mt['seed']}): {clause} at grain {g} ({cnt} grain(s))",
                          dict(kind="scenario", scenario=sc, seed=mt["seed"], salt=mt["salt"], update=mt["k"], verif_seed=SEED, line=lines[ln - 1]))
        if (not chk.violations and not chk.known_hits and hooked_available and facts["updates_not_hooked"] == 0
                and (facts["grains_shrinking_through_threshold"] == 0 or facts["grains_below"] == 0 or facts["grains_not_below"] == 0)):
            chk.machinery_doubt(f"recorded histories are trivial: {facts}")
        pick = next((i for i, x in enumerate(lines) if x["hooked"] and x["n"] == 8 and any(x["below"]) and not all(x["below"])), 0)
        chk.sample(dict(kind="update-line", scenario=meta[pick + 1]["sc"], line=lines[pick]))
        # ---- 4. negative / positive controls of the trace specification
        run_controls(chk, d, pd, cases, hooked_available)
    if putils.apply_gbs is not fn:
        raise MachineryError("apply_gbs attribute was not restored after the controls")
    return chk.finish(
        rule="cases: every (n, volume vector on the simplex grid, chi) of the TLC-enumerated domains (grid k/12 and dyadic k/16), distinct by that tuple, replayed into "
        "pydrex.utils.apply_gbs unless a volume hits a non-dyadic threshold exactly; histories: scenario classes (phase,fabric) x chi x M* x n_grains x flow x texture "
        "enumerated by TLC (quick: index sum divisible by 6, all pairs and all chi x M* x n triples present), 10-20 updates of strain 0.2 each (every fifth history: up to 4 long updates of strain 1.3 each, every fifth: short ones of 0.05), one judged line per update, "
        "distinct by (class, update index); non-trivial = grains on both sides of the threshold and grains shrinking through it (counted in trace_facts)",
        exhaustive=False,
        trusted=["numpy array_equal decides 'exactly the orientation' (value equality of all 9 entries)",
                 "the integrated state is what the code passes to its last apply_gbs call of the update (recorded by attribute replacement)",
                 "float evaluation of chi/n and of the pre-renormalisation sum S in the projection (math.fsum)"],
    )


def _nonstrict(o, f, chi, prev, n):
    mask = f <= chi / n
    o[mask] = prev[mask]
    f[mask] = chi / n
    f /= f.sum()
    return o, f


def replay(obj):
    """./check C09 --replay <file>: re-run the recorded case / scenario against the current tree."""
    pd = quiet_pydrex()
    from pydrex import utils as putils

    r = obj.get("replay") or {}
    if r.get("kind") == "case":
        probe = Check(PID, "quick", dry=True)
        clause, worst = replay_case(putils.apply_gbs, r["case"], probe)
        cur, f, chi, prev, n = case_inputs(r["case"])
        out = putils.apply_gbs(cur.copy(), f.copy(), chi, prev.copy(), n)
        print("fractions in :", f.tolist(), "chi =", chi, "n =", n)
        print("fractions out:", np.asarray(out[1]).tolist())
        print("expected     :", [p / q for p, q in r["case"]["out"]], "mask", r["case"]["mask"])
        print("previous orientation taken:", [bool(np.array_equal(out[0][g], prev[g])) for g in range(n)])
        print("verdict:", clause or "ok", "worst relative deviation", worst)
        return 1 if clause else 0
    if r.get("kind") == "scenario":
        if r.get("verif_seed", SEED) != SEED:
            print(f"note: recorded with VERIF_SEED={r['verif_seed']}, running with {SEED}")
        probe = Check(PID, "quick", dry=True)
        lines, meta = [], {}
        with Hook() as hook:
            run_history(pd, hook, r["scenario"], 0, probe, _facts(), lines, meta, salt=r.get("salt", 0))
        with scratch() as d:
            rejects, _ = validate(lines, d, "replay")
        for t, ln, clause, g, cnt in rejects:
            print(f"update {ln}: {clause} at grain {g} ({cnt} grain(s))")
        print("verdicts:", len(rejects))
        return 1 if rejects else 0
    return 0
