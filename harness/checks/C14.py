"""C14 - the M-index is a frame-independent texture-strength scalar in [0, 1].

Spec:  spec/PoolImap.tla (Layer B): tasks, workers, Dispatch / Complete(i) / Deliver(i) with the
       contract of Pool.imap and, as a named alternative environment, of imap_unordered; the client
       stores the k-th delivered value at out[k].  TLC proves out = [i |-> f(i)] at quiescence and
       termination for every schedule (n <= 4, w <= 3) under imap, refutes it under imap_unordered,
       and emits every schedule.
       spec/MIndexTrace.tla (Layer C): scenario table (lattice system x texture class x size x
       transformation) and the law on integer measures: relations (permutation, frame rotation,
       two-fold relabelling) within 1e-6 + Flips/P, range, 6-sigma sampling bound for uniform
       textures, single-orientation >= 0.99, theoretical density integrates to 1 within 1e-3;
       edge textures with pairs exactly at theta_max (closed end of the range): closed form of M
       for mutually half-turned triclinic grains, relations without flip allowance.
Bind:  (spec -> code) a pool object whose completion and delivery order replay the TLC schedules
       is passed as pool= to the real misorientation_indices; the result must equal
       [misorientation_index(s) for s in stack] bit for bit, in snapshot order; real process pools
       with ncpus in 1..16 and externally created pools on stacks whose snapshots differ ~50x in
       size; the imap_unordered schedules through the same pool object are the negative control.
       (code -> spec) for every scenario class the harness draws a float texture, runs the real
       misorientation_index on it and on its transformed copies, integrates the real
       misorientations_random over [0, theta_max] (theta_max from the spec's table), logs integer
       measures and lets TLC judge them.
The harness contains no formula of the M-index, of the misorientation angle or of the theoretical
density: it compares the implementation with itself under transformations; every threshold and
the sampling bound live in MIndexTrace.tla.
Violations are collected exhaustively, one signature {"system", "clause"} per failing pair.
"""
import json
import multiprocessing as mp
import multiprocessing.pool as mpp
import os
import re
import time

import numpy as np

from harness.common import SEED, Check, MachineryError, cap, parse_printed_json, quiet_pydrex, run_tlc, scratch, write_ndjson

PID = "C14"
TLC_WORKERS = int(os.environ.get("VERIF_TLC_WORKERS", "8") or 8)  # other checks share the machine
EVAL_WORKERS = int(os.environ.get("VERIF_EVAL_WORKERS", "8") or 8)
TEXTURES = ("uniform", "single", "clustered", "girdle", "halfturn", "twinned", "halves")
AXIS_ROW = {"a": 0, "b": 1, "c": 2}
TRACE_DEFECT = "trace-"
CLAUSES = ("raises", "finite", "range", "permutation", "frame-rotation", "twofold-relabelling",
           "uniform-near-0", "single-near-1", "halfturn-closed-form", "theory-raises", "theory-integral")


# ----------------------------------------------------------------------------- concretisation
def _rng(sc, salt=0, stream=0):
    return np.random.default_rng([abs(SEED), 14, sc["sysno"], TEXTURES.index(sc["texture"]), sc["n"], sc["rep"], salt, stream] + [int(x) for x in sc.get("mult", ())])


def _random_rotations(k, rng):
    from scipy.spatial.transform import Rotation

    q = rng.normal(size=(k, 4))
    q /= np.linalg.norm(q, axis=1, keepdims=True)
    return Rotation.from_quat(q)


def texture(cls, n, rng, mult=()):
    """n passive orientation matrices (n, 3, 3) of the texture class."""
    from scipy.spatial.transform import Rotation

    if cls == "uniform":
        return _random_rotations(n, rng).as_matrix()
    if cls == "halfturn":  # multiset over {identity, two-folds about x, y, z}: two grains are equal or an exact half-turn apart
        which = np.repeat(rng.permutation(4), [int(x) for x in mult])
        if len(which) != n:
            raise MachineryError(f"halfturn multiplicities {mult} do not add up to n={n}")
        return Rotation.from_quat(np.eye(4)[[3, 0, 1, 2]][rng.permutation(which)]).as_matrix()
    if cls == "twinned":  # n/2 random grains and their exact half-turn partners q -> q * (half-turn about z)
        q = _random_rotations(n // 2, rng).as_quat().astype(np.float32).astype(np.float64)  # float32-exact components,
        twin = np.column_stack([q[:, 1], -q[:, 0], q[:, 3], -q[:, 2]])  # so <q, twin> = 0 in the float32 arithmetic of the histogram
        return Rotation.from_quat(np.vstack([q, twin])).as_matrix()
    base = _random_rotations(1, rng)
    if cls == "halves":  # not exchangeable: a clustered population followed by a uniformly random one
        h = n // 2
        return np.concatenate([(Rotation.from_rotvec(rng.normal(scale=np.deg2rad(8.0), size=(h, 3))) * base).as_matrix(), _random_rotations(n - h, rng).as_matrix()])
    if cls == "single":
        return np.repeat(base.as_matrix(), n, axis=0)
    if cls == "clustered":  # ~8 degree scatter about one orientation
        return (Rotation.from_rotvec(rng.normal(scale=np.deg2rad(8.0), size=(n, 3))) * base).as_matrix()
    if cls == "girdle":  # crystal a axis fixed in the sample, free rotation about it
        spin = Rotation.from_rotvec(np.outer(rng.uniform(0.0, 2 * np.pi, n), [1.0, 0.0, 0.0]))
        return (spin * base).as_matrix()
    raise MachineryError(f"unknown texture class {cls}")


def transformed(o, relation, axis, rng):
    """The transformed copy of texture o (passive matrices: rows = crystal axes in the sample frame)."""
    n = len(o)
    if relation == "permutation":
        p = rng.permutation(n)
        if n > 1 and np.array_equal(p, np.arange(n)):
            p = np.roll(p, 1)
        return o[p]
    if relation == "frame-generic":  # new sample frame x' = Q x  =>  a' = a Q^T
        return o @ _random_rotations(1, rng).as_matrix()[0].T
    if relation == "frame-quarter":
        q = np.array([[0.0, -1.0, 0.0], [1.0, 0.0, 0.0], [0.0, 0.0, 1.0]])
        return o @ q.T
    if relation in ("twofold-one", "twofold-half"):  # a_g' = S a_g, S = two-fold about crystal axis
        s = -np.ones(3)
        s[AXIS_ROW[axis]] = 1.0
        k = 1 if relation == "twofold-one" else max(1, n // 2)
        idx = rng.choice(n, size=k, replace=False)
        o2 = o.copy()
        o2[idx] = s[None, :, None] * o2[idx]
        return o2
    raise MachineryError(f"unknown relation {relation}")


# ----------------------------------------------------------------------------- calling / projecting
_IMPL = {}


def impl():
    if not _IMPL:
        quiet_pydrex()
        from pydrex import diagnostics, geometry, stats

        _IMPL.update(diagnostics=diagnostics, geometry=geometry, stats=stats)
    return _IMPL


def lattice(name):
    return getattr(impl()["geometry"].LatticeSystem, name)


_NIDX = [0]


def call_index(o, system):
    try:
        if isinstance(o, np.ndarray) and o.dtype.kind == "f" and o.ndim == 3:
            from harness.common import represent

            _NIDX[0] += 1
            o = represent(o, ("c", "fortran", "strided", "readonly", "buffer", "buffer", "buffer")[_NIDX[0] % 7])   # same orientation set, other memory representation
        return "None", float(impl()["diagnostics"].misorientation_index(o, lattice(system)))
    except Exception as ex:  # noqa: BLE001 - the exception class is the observation
        return type(ex).__name__, float("nan")


def theory_leaves(sc):
    """Leaves of the closed form the spec states for the halfturn class: sum of the theoretical bin masses and
    the masses of the first and last bin, evaluated with the real misorientations_random on the 1-degree bins."""
    fn, tmax = impl()["stats"].misorientations_random, int(sc["theta_max"])
    try:
        system = lattice(sc["system"])
        masses = [float(fn(float(k), float(k + 1), system)) for k in range(tmax)]
        leaves = dict(tsum_e6=float(np.sum(masses)), tfirst_e6=masses[0], tlast_e6=masses[-1])
        if not all(np.isfinite(v) and 0.0 <= v <= 2.0 for v in leaves.values()):
            return dict(texc="not-finite", tsum_e6=0, tfirst_e6=0, tlast_e6=0)
        return dict(texc="None", **{k: int(round(v * 1e6)) for k, v in leaves.items()})
    except Exception as ex:  # noqa: BLE001
        return dict(texc=type(ex).__name__, tsum_e6=0, tfirst_e6=0, tlast_e6=0)


def base_line(sc, exc, m):
    fin = bool(exc == "None" and np.isfinite(m))
    line = dict(ev="base", system=sc["system"], texture=sc["texture"], n=sc["n"], exc=exc, finite=fin,
                m_e6=(int(round(min(max(m, 0.0), 2.0) * 1e6)) if sc["texture"] == "halfturn" else cap(min(max(m, 0.0), 2.0) * 1e6)) if fin else 0,
                below0_e6=cap(max(0.0, -m) * 1e6) if fin else 0,
                above1_e6=cap(max(0.0, m - 1.0) * 1e6) if fin else 0)
    if sc["texture"] == "halfturn":
        line.update(mult=[int(x) for x in sc["mult"]], **theory_leaves(sc))
    return line


def index_units(sc, salt, only_base):
    """The single-evaluation jobs of one scenario class: (scenario, salt, key), key = "base" | (r_i, relation, axis)."""
    units = [(sc, salt, "base")]
    for r_i, rel in enumerate([] if only_base else sc["relations"]):
        for axis in (sc["axes"] if rel.startswith("twofold") else ["-"]):
            units.append((sc, salt, (r_i, rel, axis)))
    return units


def eval_unit(job):
    """One evaluation of the real function (worker process).  Returns (sid, salt, key, exc, value, seconds)."""
    sc, salt, key = job
    t0 = time.time()
    if sc["kind"] == "theory":
        line, out = eval_theory_scenario(sc)
        return sc["sid"], salt, key, line, out, time.time() - t0
    o = texture(sc["texture"], sc["n"], _rng(sc, salt, 0), sc.get("mult", ()))
    if key != "base":
        r_i, rel, axis = key
        o = transformed(o, rel, axis, _rng(sc, salt, 1 + 10 * r_i))  # same subset of grains for every axis
    exc, m = call_index(o, sc["system"])
    return sc["sid"], salt, key, exc, m, time.time() - t0


def assemble(sc, got, only_base=False):
    """Trace lines and raw values of one scenario from its unit results got[key] = (exc, value)."""
    exc, m = got["base"]
    lines, values = [base_line(sc, exc, m)], {"base": m}
    for r_i, rel in enumerate([] if only_base else sc["relations"]):
        axes = sc["axes"] if rel.startswith("twofold") else ["-"]
        diffs, excs, fin = [], [], True
        for axis in axes:
            e2, m2 = got[(r_i, rel, axis)]
            excs.append(e2)
            ok = e2 == "None" and np.isfinite(m2)
            fin = fin and ok
            diffs.append(cap(abs(m2 - m) * 1e9) if ok and np.isfinite(m) else 2_000_000_000)
            values[f"{rel}:{axis}"] = m2
        lines.append(dict(ev="pair", transform=rel, axes=list(axes), exc=next((e for e in excs if e != "None"), "None"),
                          finite=bool(fin), diffs_e9=diffs))
    return lines, values


def eval_theory_scenario(sc):
    fn = impl()["stats"].misorientations_random
    tmax = int(sc["theta_max"])
    out = {}
    exc = "None"
    try:
        system = lattice(sc["system"])
        for name, per_degree in (("coarse", 1), ("fine", 100)):
            edges = np.linspace(0.0, float(tmax), tmax * per_degree + 1)
            # misorientations_random(lo, hi) is the mean density (per degree) the index uses for the bin (lo, hi)
            out[name] = float(sum(fn(edges[k], edges[k + 1], system) * (edges[k + 1] - edges[k]) for k in range(len(edges) - 1)))
    except Exception as ex:  # noqa: BLE001
        exc = type(ex).__name__
    fin = bool(exc == "None" and np.isfinite(out.get("fine", np.nan)) and np.isfinite(out.get("coarse", np.nan)))
    line = dict(ev="theory", system=sc["system"], exc=exc, finite=fin,
                int_fine_e6=cap(abs(out["fine"] - 1.0) * 1e6) if fin else 0,
                int_coarse_e6=cap(abs(out["coarse"] - 1.0) * 1e6) if fin else 0)
    return line, out


def run_scenarios(scens, workers, salts=(0,), only_base=False):
    """Evaluate scenario classes, one real-function call per job, in forked worker processes (the numba code
    is compiled before forking).  Returns {(sid, salt): (lines, values, seconds)}."""
    jobs = []
    for sc in scens:
        for salt in salts:
            jobs += [(sc, salt, "theory")] if sc["kind"] == "theory" else index_units(sc, salt, only_base)
    jobs.sort(key=lambda j: -(j[0].get("n", 1) ** 2) * j[0].get("group_order", 1) ** 2)  # expensive first
    if workers <= 1 or len(jobs) < 4:
        done = [eval_unit(j) for j in jobs]
    else:
        with mp.get_context("fork").Pool(min(workers, len(jobs))) as p:
            done = list(p.imap_unordered(eval_unit, jobs, chunksize=1))
    got, secs = {}, {}
    for sid, salt, key, a, b, t in done:
        got.setdefault((sid, salt), {})[key] = (a, b)
        secs[(sid, salt)] = max(secs.get((sid, salt), 0.0), t)
    out = {}
    for sc in scens:
        for salt in salts:
            k = (sc["sid"], salt)
            if sc["kind"] == "theory":
                line, values = got[k]["theory"]
                out[k] = ([line], values, secs[k])
            else:
                lines, values = assemble(sc, got[k], only_base)
                out[k] = (lines, values, secs[k])
    return out


# ----------------------------------------------------------------------------- trace validation
def judge(traces, d, name, timeout=600):
    """traces: list of lists of lines (one list per tid).  Returns (rejects, skips, TlcResult) with
    rejects/skips = sorted lists of (tid, line, clause)."""
    lines = []
    for tid, ls in enumerate(traces):
        lines += [dict(x, tid=tid) for x in ls]
    path = d / f"{name}.ndjson"
    write_ndjson(path, lines)
    res = run_tlc("MIndexTrace", "MIndexTrace", workers=1, env={"TRACE_FILE": str(path)}, timeout=timeout)
    got = {"REJECT": set(), "SKIP": set()}
    for ln in res.output.splitlines():
        m = re.match(r'<<"(REJECT|SKIP)", (-?\d+), (\d+), "([^"]*)">>', ln)
        if m:
            got[m.group(1)].add((int(m.group(2)), int(m.group(3)), m.group(4)))
    done = re.search(r'<<"DONE", (\d+), (\d+)>>', res.output)
    if not done or int(done.group(1)) != len(lines):
        raise MachineryError("MIndexTrace did not consume the whole trace:\n" + res.output[-3000:])
    if int(done.group(2)) != len(got["REJECT"]):
        raise MachineryError(f"MIndexTrace verdict count mismatch: DONE says {done.group(2)}, parsed {len(got['REJECT'])}")
    return sorted(got["REJECT"]), sorted(got["SKIP"]), res


# ----------------------------------------------------------------------------- schedule-driven pool
class UnsupportedPoolSurface(MachineryError):
    """The code under test used a part of the Pool API the harness pool does not model."""


class SchedulePool:
    """multiprocessing.Pool look-alike whose completion and delivery order replay a PoolImap schedule.

    events: codes i (Dispatch task i), 10+i (Complete(i): the result is computed NOW),
    20+i (Deliver(i): the result iterator yields task i's value NOW).  The object is deliberately
    dumb: imap() delivers what the schedule says, so schedules generated under Env = "imap_unordered"
    make it deliver out of order; imap_unordered() keeps the schedule's timing but delivers in
    completion order; map() returns the list in task order.
    """

    # worker count, as multiprocessing.Pool exposes it (private there too, but read by chunk-size heuristics)
    _processes = 2

    def __init__(self, n, events):
        self.n, self.events = n, list(events)
        self.completion_order, self.delivery_order, self.used, self.shutdown_calls = [], [], [], []

    def _run(self, func, iterable, unordered=False):
        tasks = list(iterable)
        if len(tasks) != self.n:
            raise MachineryError(f"schedule is for {self.n} tasks, the client submitted {len(tasks)}")
        dispatched, results = set(), {}
        for code in self.events:
            kind, i = divmod(code, 10)
            if kind == 0:
                dispatched.add(i)
            elif kind == 1:
                if i not in dispatched:
                    raise MachineryError("schedule completes a task that was not dispatched")
                results[i] = func(tasks[i - 1])
                self.completion_order.append(i)
            elif kind == 2:
                if unordered:  # imap_unordered called by the client: first completed, first delivered
                    i = next(j for j in self.completion_order if j not in self.delivery_order)
                self.delivery_order.append(i)
                yield results[i]
            else:
                raise MachineryError(f"unknown schedule event {code}")

    def imap(self, func, iterable, chunksize=1):
        self.used.append("imap")
        return self._run(func, iterable)

    def imap_unordered(self, func, iterable, chunksize=1):
        self.used.append("imap_unordered")
        return self._run(func, iterable, unordered=True)

    def map(self, func, iterable, chunksize=None):  # Pool.map: a list in task order, whatever the completion order
        self.used.append("map")
        n_before = len(self.delivery_order)
        vals = list(self._run(func, iterable))
        order = self.delivery_order[n_before:]
        return [v for _, v in sorted(zip(order, vals))]

    # a supplied pool is borrowed: the callee has no business shutting it down (PoolLife.tla).  The calls
    # are recorded, not refused, so that the values are still compared.
    def close(self):
        self.shutdown_calls.append("close")

    def join(self):
        pass

    def terminate(self):
        self.shutdown_calls.append("terminate")

    def __enter__(self):
        return self

    def __exit__(self, *a):
        self.shutdown_calls.append("__exit__")
        return False

    def __getattr__(self, name):
        raise UnsupportedPoolSurface(f"misorientation_indices used Pool.{name}, which the schedule-driven pool does not model")


def same_bits(got, expected):
    got, expected = np.asarray(got, dtype=np.float64), np.asarray(expected, dtype=np.float64)
    if got.shape != expected.shape:
        return False
    both_nan = np.isnan(got) & np.isnan(expected)
    return bool(np.all(both_nan | (got.view(np.int64) == expected.view(np.int64))))


def make_stack(sizes, rng, ragged=True):
    """Snapshots with pairwise different content; ragged: a list of (m_i, 3, 3) arrays."""
    snaps = [_random_rotations(m, rng).as_matrix() for m in sizes]
    return snaps if ragged else np.stack(snaps)


def call_indices(stack, system, **kw):
    try:
        return "None", np.asarray(impl()["diagnostics"].misorientation_indices(stack, lattice(system), **kw), dtype=np.float64)
    except MachineryError:
        raise
    except Exception as ex:  # noqa: BLE001
        return f"{type(ex).__name__}: {ex}"[:200], None


def expected_indices(stack, system):
    fn = impl()["diagnostics"].misorientation_index
    return np.array([fn(s, lattice(system)) for s in stack], dtype=np.float64)


def pool_schedule_binding(chk, scheds, unordered, tier):
    """spec -> code: every emitted imap schedule through the real misorientation_indices."""
    if impl()["diagnostics"].HAS_RAY:
        chk.skip("ray installed: misorientation_indices bypasses a supplied pool, schedule binding not applicable")
        return
    quick = tier != "thorough"
    rng = np.random.default_rng([abs(SEED), 14, 777])
    if quick:  # all schedules up to 3 tasks, a seeded sample of the 4-task ones
        small = [s for s in scheds if s["n"] <= 3]
        big = [s for s in scheds if s["n"] > 3]
        pick = rng.choice(len(big), size=min(260, len(big)), replace=False) if big else []
        scheds = small + [big[k] for k in sorted(pick)]
    stacks = {}
    for n in sorted({s["n"] for s in scheds} | {s["n"] for s in unordered}):
        for form in ("list", "ndarray"):
            for system in ("triclinic", "orthorhombic"):
                for _ in range(20):
                    st = make_stack([2 + (k % 4) for k in range(n)] if form == "list" else [3] * n, rng, ragged=form == "list")
                    exp = expected_indices(st, system)
                    if np.all(np.isfinite(exp)) and len(set(exp.tolist())) == n:
                        break
                else:
                    if not np.all(np.isfinite(exp)):
                        # twenty random stacks, not one with finite indices: the single-snapshot function is broken
                        # (clause finite); the batched binding has nothing to compare with and is skipped
                        chk.violation(dict(clause="finite", system=system, texture="random-small"),
                                      f"misorientation_index({system}) returned non-finite values {exp.tolist()} for 20 random stacks of {n} small snapshots", dict(kind="pool-binding-precondition"))
                        chk.skip("pool schedule binding skipped: misorientation_index is not finite on small random snapshots")
                        return
                    if np.any(exp < -1e-3) or np.any(exp > 1.0 + 1e-3):
                        chk.violation(dict(clause="range", system=system, texture="random-small"),
                                      f"misorientation_index({system}) returned values outside [0, 1]: {exp.tolist()}", dict(kind="pool-binding-precondition"))
                        chk.skip("pool schedule binding skipped: misorientation_index is outside [0, 1] on small random snapshots")
                        return
                    raise MachineryError("could not draw a stack with pairwise distinct finite M-indices")
                stacks[(n, form, system)] = (st, exp)
    variants = [("list", "triclinic"), ("ndarray", "orthorhombic"), ("list", "orthorhombic"), ("ndarray", "triclinic")]
    n_ooo = 0
    for k, s in enumerate(scheds):
        form, system = variants[k % len(variants)]
        st, exp = stacks[(s["n"], form, system)]
        pool = SchedulePool(s["n"], s["ev"])
        exc, got = call_indices(st, system, pool=pool)
        chk.count(("sched", s["n"], s["w"], tuple(s["ev"])))
        ooo = pool.completion_order != sorted(pool.completion_order)
        n_ooo += ooo
        if not pool.used and exc == "None":
            raise MachineryError("misorientation_indices did not use the supplied pool")
        if exc != "None" or not same_bits(got, exp):
            chk.violation(dict(clause="pool-order", pool="schedule-driven-imap"),
                          f"misorientation_indices(pool=<imap schedule {s['ev']}>) returned {None if got is None else got.tolist()} ({exc}); per-snapshot values {exp.tolist()}",
                          dict(kind="schedule", schedule=s, form=form, system=system))
        if k == 0 or (ooo and len(chk.cov["samples"]) < 2):
            chk.sample(dict(kind="schedule", n=s["n"], w=s["w"], events=s["ev"], completion_order=pool.completion_order,
                            delivery_order=pool.delivery_order, pool_methods=sorted(set(pool.used)), result_bitwise_equal=bool(exc == "None" and same_bits(got, exp))))
    chk.cov["pool_schedules"] = dict(replayed=len(scheds), with_out_of_order_completion=int(n_ooo))
    if n_ooo == 0:
        chk.machinery_doubt("no replayed schedule completed tasks out of order")
    # negative control: the imap_unordered environment through the same pool object
    probe = Check(PID, tier, dry=True)
    bad_seen = bad_flagged = good_seen = good_flagged = 0
    for k, s in enumerate(unordered):
        form, system = variants[k % len(variants)]
        st, exp = stacks[(s["n"], form, system)]
        pool = SchedulePool(s["n"], s["ev"])
        exc, got = call_indices(st, system, pool=pool)
        mismatch = exc != "None" or not same_bits(got, exp)
        if pool.delivery_order != sorted(pool.delivery_order):
            bad_seen += 1
            bad_flagged += mismatch
        else:
            good_seen += 1
            good_flagged += mismatch
    if bad_flagged:
        probe.violation(dict(clause="pool-order", pool="schedule-driven-unordered"), "unordered delivery detected")
    chk.control("imap_unordered-schedules-produce-detectable-mismatch", bad_seen > 0 and bad_flagged == bad_seen and good_flagged == 0 and len(probe.violations) == 1,
                f"{bad_flagged}/{bad_seen} out-of-order-delivery schedules flagged, {good_flagged}/{good_seen} in-order ones flagged")


# ----------------------------------------------------------------------------- pool ownership over several calls
def fifo_schedule(n):
    """A complete imap schedule for n tasks with one worker: dispatch, complete, deliver in order."""
    ev = []
    for i in range(1, n + 1):
        ev += [i, 10 + i, 20 + i]
    return ev


class ReusableSchedulePool(SchedulePool):
    """SchedulePool that serves any number of imap calls (a fresh FIFO schedule per call) and, like a real
    pool, refuses work after it was shut down."""

    def __init__(self):
        super().__init__(0, [])
        self.closed = False

    def _run(self, func, iterable, unordered=False):
        if self.closed:
            raise ValueError("Pool not running")
        tasks = list(iterable)
        self.n, self.events = len(tasks), fifo_schedule(len(tasks))
        self.completion_order, self.delivery_order = [], []
        return super()._run(func, tasks, unordered)

    def close(self):
        super().close()
        self.closed = True

    def terminate(self):
        super().terminate()
        self.closed = True

    def __exit__(self, *a):
        super().__exit__(*a)
        self.closed = True
        return False


def pool_running(kind, pool):
    """Functional probe: does the pool still accept work?"""
    if kind == "sched":
        return not pool.closed
    try:
        return pool.map(abs, [-1]) == [1]
    except ValueError:
        return False


def _default_call_child(conn, avail, st, system):
    """Runs in a forked child restricted to `avail` CPUs: the default-sized batched call."""
    try:
        cpus = sorted(os.sched_getaffinity(0))[:avail]
        os.sched_setaffinity(0, cpus)
        try:  # the documented helper behind the default; if a refactor removes it only the call itself is judged
            from pydrex import utils as _u

            w = int(_u.default_ncpus())
        except Exception:  # noqa: BLE001
            w = None
        exc, got = call_indices(st, system)
        conn.send((len(os.sched_getaffinity(0)), w, exc, None if got is None else got.tolist()))
    except BaseException as ex:  # noqa: BLE001
        conn.send((None, None, f"harness:{type(ex).__name__}: {ex}", None))
    finally:
        conn.close()


def default_call(avail, st, system):
    ctx = mp.get_context("fork")
    a, b = ctx.Pipe(duplex=False)
    p = ctx.Process(target=_default_call_child, args=(b, avail, st, system))
    p.start()
    b.close()
    try:
        if not a.poll(300):
            raise MachineryError("default-sized batched call did not finish within 300 s")
        out = a.recv()
    finally:
        p.join(10)
        if p.is_alive():
            p.kill()
    if out[2] and str(out[2]).startswith("harness:"):
        raise MachineryError(out[2])
    return out


def pool_lifecycle_binding(chk, behs, tier):
    """PoolLife.tla behaviours on a real process pool, a real thread pool and the harness pool."""
    if impl()["diagnostics"].HAS_RAY:
        chk.skip("ray installed: misorientation_indices bypasses a supplied pool, pool ownership binding not applicable")
        return
    rng = np.random.default_rng([abs(SEED), 14, 991])
    stacks = {n: make_stack([5 + (3 * k + n) % 4 for k in range(n)], rng) for n in (1, 2, 3, 4)}
    system = "triclinic"
    exp = {n: expected_indices(st, system) for n, st in stacks.items()}
    n_calls = 0
    for bi, beh in enumerate(behs):
        pools = {"proc": mp.get_context("fork").Pool(2), "thread": mpp.ThreadPool(2), "sched": ReusableSchedulePool()}
        try:
            for step, a in enumerate(beh):
                if a["a"] == "ClientClose":
                    if a["p"] == "sched":
                        pools["sched"].closed = True
                    else:
                        pools[a["p"]].terminate()
                        pools[a["p"]].join()
                    continue
                st = stacks[a["n"]]
                if a["a"] == "CallDefault":
                    have = len(os.sched_getaffinity(0))
                    if a["avail"] > have:
                        chk.skip(f"CallDefault with {a['avail']} CPUs: only {have} available to the check")
                        continue
                    got_avail, w, exc, got = default_call(a["avail"], st, system)
                    got = None if got is None else np.asarray(got, dtype=np.float64)
                    if got_avail != a["avail"]:
                        raise MachineryError(f"could not restrict the child to {a['avail']} CPUs (got {got_avail})")
                    if w is not None and w != a["w"]:
                        chk.violation(dict(clause="default-worker-count", avail=a["avail"]),
                                      f"with {a['avail']} CPU(s) available default_ncpus() returns {w}; the documented safe default is {a['w']} (one less than available, fallback 1)",
                                      dict(kind="pool-life", behaviour=beh, step=step))
                elif a["a"] == "CallOwn":
                    exc, got = call_indices(st, system, ncpus=2)
                else:
                    exc, got = call_indices(st, system, pool=pools[a["p"]])
                n_calls += 1
                chk.count(("pool-life", bi, step))
                if a["a"] == "CallOnClosed":
                    continue   # named deviation, promised by no property
                if exc != "None" or not same_bits(got, exp[a["n"]]):
                    chk.violation(dict(clause="pool-reuse", pool=a.get("p", "own"), action=a["a"], avail=a.get("avail", 0)),
                                  f"call {step + 1} of {[(x['a'], x.get('p')) for x in beh]}: misorientation_indices returned {None if got is None else got.tolist()} ({exc}); per-snapshot values {exp[a['n']].tolist()}",
                                  dict(kind="pool-life", behaviour=beh, step=step))
                    break
                # PoolLife.OnlyClientCloses: every pool the client has not closed is still running
                closed_by_client = {x["p"] for x in beh[: step + 1] if x["a"] == "ClientClose"}
                dead = [k for k in pools if k not in closed_by_client and not pool_running(k, pools[k])]
                if dead or (pools["sched"].shutdown_calls and "sched" not in closed_by_client):
                    chk.violation(dict(clause="supplied-pool-shut-down", pool=(dead or ["sched"])[0]),
                                  f"after call {step + 1} ({a}) the client's pool(s) {dead or ['sched']} no longer accept work although only the client may close them (shutdown calls seen by the harness pool: {pools['sched'].shutdown_calls})",
                                  dict(kind="pool-life", behaviour=beh, step=step))
                    break
        finally:
            for k in ("proc", "thread"):
                pools[k].terminate()
                pools[k].join()
    chk.cov["pool_lifecycle"] = dict(behaviours=len(behs), calls=n_calls)
    # control: a callee that shuts the borrowed pool down is flagged by the probe
    p = mpp.ThreadPool(1)
    with p:
        pass
    chk.control("probe-detects-a-pool-shut-down-by-the-callee", not pool_running("thread", p))
    p.join()


# completion-order observation for real pools (evidence only, never a verdict) -------------------
_OBS_FILE = None
_OBS_ORIG = None


def _observed_index(orientations, system, bins=None):
    v = _OBS_ORIG(orientations, system, bins)
    try:
        with open(_OBS_FILE, "a") as f:
            f.write(f"{len(orientations)} {time.monotonic_ns()}\n")
    except OSError:
        pass
    return v


def observe_completion_order(stack, system, ncpus, d):
    """Run once more with misorientation_index wrapped (attribute replacement) to see the order in
    which snapshots finish.  Returns True/False, or None when the observation is not possible."""
    global _OBS_FILE, _OBS_ORIG
    diag = impl()["diagnostics"]
    sizes = [len(s) for s in stack]
    if len(set(sizes)) != len(sizes):
        return None
    _OBS_FILE, _OBS_ORIG = str(d / f"finish-{ncpus}.txt"), diag.misorientation_index
    diag.misorientation_index = _observed_index
    try:
        exc, _ = call_indices(stack, system, ncpus=ncpus)
    finally:
        diag.misorientation_index = _OBS_ORIG
    if exc != "None" or not os.path.exists(_OBS_FILE):
        return None
    rows = [ln.split() for ln in open(_OBS_FILE).read().splitlines()]
    if len(rows) != len(stack):
        return None
    finish = [sizes.index(int(r[0])) for r in sorted(rows, key=lambda r: int(r[1]))]
    return finish != sorted(finish)


def real_pool_binding(chk, tier, d):
    quick = tier != "thorough"
    rng = np.random.default_rng([abs(SEED), 14, 778])
    counts = (1, 2, 3, 16) if quick else tuple(range(1, 17))
    # snapshot sizes differ ~50x (cost ~2500x): a slow snapshot first, so later ones finish earlier
    sizes = [200, 4, 5, 6, 150, 7, 8, 9, 3, 120, 10, 11]
    cases = [("triclinic", make_stack(sizes, rng), "ragged-list"),
             ("orthorhombic", make_stack([90, 4, 5, 60, 6, 7, 3, 8], rng), "ragged-list"),
             ("triclinic", make_stack([12] * 9, rng, ragged=False), "ndarray"),
             ("hexagonal", make_stack([25], rng, ragged=False), "ndarray")]
    ooo_seen = ooo_tried = 0
    for system, st, form in cases:
        exp = expected_indices(st, system)
        for ncpus in counts:
            exc, got = call_indices(st, system, ncpus=ncpus)
            if exc != "None" and form == "ragged-list" and got is None and exc.startswith(("ValueError", "TypeError")) and "inhomogeneous" in exc:
                chk.skip("ragged snapshot lists rejected by the implementation (documented input is an NxMx3x3 array)")
                break
            chk.count(("real-pool", system, form, ncpus))
            if exc != "None" or not same_bits(got, exp):
                chk.violation(dict(clause="pool-order", pool="real-ncpus"),
                              f"misorientation_indices(ncpus={ncpus}) on a {form} stack of {len(st)} snapshots returned {None if got is None else got.tolist()} ({exc}); per-snapshot values {exp.tolist()}",
                              dict(kind="real-pool", system=system, form=form, ncpus=ncpus, sizes=[len(s) for s in st]))
        if form == "ragged-list" and system == "triclinic":
            for ncpus in [c for c in counts if c > 1][:3]:
                r = observe_completion_order(st, system, ncpus, d)
                if r is not None:
                    ooo_tried += 1
                    ooo_seen += bool(r)
    # a series in which ONE snapshot is not a set of orientations (zero-filled): the call may refuse the series, but a
    # value it does return for a VALID snapshot is that snapshot's own value ("exactly the per-snapshot values, in
    # snapshot order") - a worker that fails must not cost its neighbours their results
    st = make_stack([12] * 14, rng, ragged=False)
    bad_at = 4
    exp = expected_indices(st, "triclinic")
    st = np.array(st, dtype=float)
    st[bad_at] = 0.0
    for ncpus in (1, 2):
        exc, got = call_indices(st, "triclinic", ncpus=ncpus)
        chk.count(("series-with-a-failing-snapshot", ncpus))
        if exc == "None":
            ok = got is not None and got.shape == exp.shape and all(same_bits(got[i:i + 1], exp[i:i + 1]) for i in range(len(exp)) if i != bad_at)
            if not ok:
                chk.violation(dict(clause="valid-snapshot-value-lost-beside-a-failing-one", pool="real-ncpus"),
                              f"misorientation_indices(ncpus={ncpus}) on a series whose snapshot {bad_at} is zero-filled returned {None if got is None else got.tolist()}; the valid snapshots have {exp.tolist()}",
                              dict(kind="failing-snapshot", ncpus=ncpus, bad_at=bad_at))
        else:
            chk.cov.setdefault("failing_snapshot_series", {})[f"ncpus={ncpus}"] = exc[:80]
    chk.cov["real_pool_completion_order"] = dict(observed_runs=ooo_tried, runs_with_out_of_order_completion=ooo_seen,
                                                 note="observation by wrapping diagnostics.misorientation_index; evidence only")
    # externally supplied real pools (skipped by the implementation when Ray is present)
    # (a thread pool runs its tasks in ONE address space: the equal-sized snapshots of the ndarray stacks are the case
    #  in which two tasks of the same shape are in flight at the same time)
    ext = [("process", 3, 0), ("thread", 4, 0), ("thread", 4, 2), ("thread", 3, 1)] if quick else [("process", 2, 0), ("process", 5, 0), ("process", 16, 2), ("thread", 1, 0), ("thread", 4, 0), ("thread", 4, 2), ("thread", 8, 2), ("thread", 3, 1)]
    big = ("triclinic", make_stack([60] * 12, rng, ragged=False), "ndarray")
    for kind, k, ci in ext:
        system, st, form = big if (kind == "thread" and ci == 2) else cases[ci]
        exp = expected_indices(st, system)
        pool = mp.get_context("fork").Pool(k) if kind == "process" else mpp.ThreadPool(k)
        try:
            exc, got = call_indices(st, system, pool=pool)
        finally:
            pool.terminate()
            pool.join()
        chk.count(("external-pool", kind, k))
        if exc != "None" or not same_bits(got, exp):
            chk.violation(dict(clause="pool-order", pool=f"external-{kind}"),
                          f"misorientation_indices(pool=<{kind} pool of {k}>) returned {None if got is None else got.tolist()} ({exc}); per-snapshot values {exp.tolist()}",
                          dict(kind="external-pool", pool=kind, workers=k, sizes=[len(s) for s in st]))
    chk.sample(dict(kind="real-pool", system=cases[0][0], snapshot_sizes=sizes, ncpus=list(counts), per_snapshot_values=exp.tolist()))
    # comparator control: a result with two snapshots exchanged must be flagged
    swapped = exp.copy()
    swapped[[0, 1]] = swapped[[1, 0]]
    chk.control("bitwise-comparator-flags-exchanged-snapshots", not same_bits(swapped, exp) and same_bits(exp.copy(), exp), "two entries exchanged")


# ----------------------------------------------------------------------------- trace-spec controls
def run_trace_controls(chk, d):
    """Hand-written traces (independent of the implementation): every clause of the law must fire on
    a planted defect and stay silent on the clean trace."""
    def base(system="orthorhombic", tex="clustered", n=200, m=300000, **kw):
        return dict(dict(ev="base", system=system, texture=tex, n=n, exc="None", finite=True, m_e6=m, below0_e6=0, above1_e6=0), **kw)

    def pair(tr, diffs, axes=("-",), **kw):
        return dict(dict(ev="pair", transform=tr, axes=list(axes), exc="None", finite=True, diffs_e9=list(diffs)), **kw)

    def theory(system="hexagonal", fine=12, **kw):
        return dict(dict(ev="theory", system=system, exc="None", finite=True, int_fine_e6=fine, int_coarse_e6=fine), **kw)

    def ht(mult, m, **kw):
        return base(system="triclinic", tex="halfturn", n=sum(mult), m=m, mult=list(mult), texc="None", tsum_e6=1000000, tfirst_e6=25, tlast_e6=11110, **kw)

    abc = ("a", "b", "c")
    # n = 200: P = 19900, Flips = 5, RelTol = 1e-6 + 5/19900 = 252.3e-6; orthorhombic uniform bound = 0.05265
    planted = [
        ("clean-relations", [base(), pair("permutation", [0]), pair("frame-generic", [252000]), pair("frame-quarter", [40]), pair("twofold-half", [0, 120, 252000], abc)], ()),
        ("clean-uniform-at-bound", [base(tex="uniform", m=52600)], ()),
        ("clean-single", [base(tex="single", m=990000)], ()),
        ("clean-range-edges", [base(m=0, below0_e6=1000), base(m=1000000, above1_e6=1000)], ()),
        ("clean-theory", [theory(fine=1000)], ()),
        ("clean-monoclinic-one-axis-invariant", [base(system="monoclinic"), pair("twofold-one", [90000000, 3, 70000000], abc)], ()),
        ("skip-two-grains", [base(n=2), pair("frame-generic", [900000000])], ()),
        ("raised", [base(exc="AssertionError", finite=False)], ("raises",)),
        ("nan", [base(finite=False)], ("finite",)),
        ("below-zero", [base(m=0, below0_e6=1001)], ("range",)),
        ("above-one", [base(m=1001001, above1_e6=1001)], ("range",)),
        ("uniform-excess", [base(tex="uniform", m=52800)], ("uniform-near-0",)),
        ("single-weak", [base(tex="single", m=989999)], ("single-near-1",)),
        ("permutation-moves", [base(), pair("permutation", [254000])], ("permutation",)),
        ("frame-moves", [base(), pair("frame-quarter", [100000000])], ("frame-rotation",)),
        ("twofold-moves-one-axis", [base(), pair("twofold-one", [0, 0, 254000], abc)], ("twofold-relabelling",)),
        ("monoclinic-no-axis-invariant", [base(system="monoclinic"), pair("twofold-half", [254000, 300000, 9000000], abc)], ("twofold-relabelling",)),
        ("transformed-run-raised", [base(), pair("frame-generic", [2000000000], exc="ValueError", finite=False)], ("raises",)),
        ("transformed-run-nan", [base(), pair("frame-generic", [2000000000], finite=False)], ("finite",)),
        ("theory-off", [theory(fine=1001)], ("theory-integral",)),
        ("theory-nan", [theory(finite=False, fine=0)], ("theory-integral",)),
        ("theory-raised", [theory(exc="AssertionError", finite=False)], ("theory-raises",)),
        # halfturn class (triclinic), leaves T = 1.000000, t_1 = 0.000025, t_L = 0.011110:
        #   <<1,1,1,0>>: Z/P = 0, H/P = 1        -> M = (T - t_1 - t_L + t_1 + (1 - t_L))/2       = 0.988890
        #   <<30,30,0,0>>: Z = 870, H = 900, P = 1770, Z/P = 0.491525, H/P = 0.508475
        #                                        -> M = (1 - .000025 - .01111 + .4915 + .497365)/2 = 0.988865
        ("clean-halfturn", [ht([1, 1, 1, 0], 988890), pair("frame-generic", [1000]), pair("permutation", [0])], ()),
        ("clean-halfturn-edge-of-tolerance", [ht([1, 1, 1, 1], 988900)], ()),
        ("clean-halfturn-twins", [ht([30, 30, 0, 0], 988865)], ()),
        ("halfturn-just-off", [ht([1, 1, 0, 0], 988901)], ("halfturn-closed-form",)),
        ("halfturn-twins-edge-pairs-lost", [ht([30, 30, 0, 0], 999975)], ("halfturn-closed-form",)),  # all mass on the first bin
        ("halfturn-nan", [ht([1, 1, 1, 0], 0, finite=False)], ("finite",)),
        ("halfturn-frame-moves-no-flip-allowance", [ht([1, 1, 1, 0], 988890), pair("frame-generic", [1001])], ("frame-rotation",)),
        ("halfturn-transformed-nan", [ht([1, 1, 0, 0], 988890), pair("frame-quarter", [2000000000], finite=False)], ("finite",)),
        ("twinned-frame-moves", [base(system="triclinic", tex="twinned", n=80, m=90000), pair("frame-generic", [6000000])], ("frame-rotation",)),
        ("clean-twinned", [base(system="triclinic", tex="twinned", n=80, m=90000), pair("frame-generic", [600000])], ()),
        ("halfturn-without-leaves", [base(system="triclinic", tex="halfturn", n=3, m=988890)], ("trace-halfturn-without-leaves",)),
        ("halfturn-multiplicities-do-not-match-n", [dict(ht([2, 1, 0, 0], 600000), n=4)], ("trace-halfturn-bad-multiplicities",)),
        ("edge-texture-on-symmetric-system", [base(system="orthorhombic", tex="twinned", n=80)], ("trace-unknown-scenario-class",)),
        ("pair-without-base", [pair("permutation", [0])], ("trace-pair-without-base",)),
        ("wrong-axes", [base(system="rhombohedral"), pair("twofold-one", [0, 0, 0], abc)], ("trace-wrong-twofold-axes",)),
    ]
    rejects, skips, res = judge([ls for _, ls, _ in planted], d, "controls")
    chk.add_tlc("MIndexTrace(controls)", res, f"{len(planted)} hand-written traces: clean ones at the edge of every threshold, one planted defect per clause")
    by_tid = {}
    for t, _, clause in rejects:
        by_tid.setdefault(t, set()).add(clause)
    for t, (name, _, clauses) in enumerate(planted):
        got = by_tid.get(t, set())
        if clauses:
            chk.control(f"trace-spec-rejects:{name}", got == set(clauses), f"expected {clauses}, got {sorted(got)}")
        else:
            chk.control(f"trace-spec-accepts:{name}", not got, f"expected no verdict, got {sorted(got)}")
    chk.control("trace-spec-skips-undecidable-relation", any(c == "relation-tolerance-vacuous" for _, _, c in skips), str(skips)[:200])


# ----------------------------------------------------------------------------- main
def describe(sc, line, values):
    if line["ev"] == "theory":
        return f"misorientations_random over [0, {sc['theta_max']}] for {sc['system']}: exc={line['exc']} integral(fine)={values.get('fine')} integral(1-degree bins)={values.get('coarse')}"
    head = f"{sc['system']} / {sc['texture']}{' mult=' + str(list(sc['mult'])) if sc.get('mult') else ''} / n={sc['n']} (rep {sc['rep']}): M={values.get('base')}"
    if line["ev"] == "base":
        return head + f" exc={line['exc']}"
    vals = {k.split(":", 1)[1]: v for k, v in values.items() if k.startswith(line["transform"] + ":")}
    return head + f"; after {line['transform']} {vals} (exc={line['exc']})"


def main(tier):
    chk = Check(PID, tier)
    quick = tier != "thorough"
    t_start = time.time()
    # ---- 1. Layer B: the pool contract, exhaustively; 2. scenario table  (independent models, run side by side)
    from concurrent.futures import ThreadPoolExecutor

    w = max(2, TLC_WORKERS // 2)
    models = dict(
        ord=lambda: run_tlc("PoolImap", "PoolImap", workers=w, timeout=300),
        un=lambda: run_tlc("PoolImap", "PoolImap_unordered", workers=1, timeout=300, expect_violation=True),
        sched=lambda: run_tlc("PoolImap", "PoolImap_sched", workers=w, timeout=300),
        unsched=lambda: run_tlc("PoolImap", "PoolImap_unordered_sched", workers=w, timeout=300),
        scen=lambda: run_tlc("MIndexTrace", "MIndexScen" if quick else "MIndexScen_thorough", workers=w, timeout=300),
        life=lambda: run_tlc("PoolLife", "PoolLife", workers=2, timeout=300),
        lifesim=lambda: run_tlc("PoolLife", "PoolLifeSim", workers=1, timeout=300, simulate=f"num={12 if quick else 150}", depth=9, seed=SEED + 14),
    )
    with ThreadPoolExecutor(len(models)) as ex:
        futs = {k: ex.submit(f) for k, f in models.items()}
        tlc = {k: f.result() for k, f in futs.items()}  # re-raises MachineryError
    r_ord, r_un, r_s, r_us, r_sc = (tlc[k] for k in ("ord", "un", "sched", "unsched", "scen"))
    chk.add_tlc("PoolImap(imap)", r_ord, "n<=4 tasks x w<=3 workers, every schedule under the Pool.imap contract: TypeOK, WorkerBound, PrefixInOrder, ResultInOrder, Terminates (WF)")
    if r_ord.distinct < 200:
        raise MachineryError(f"PoolImap explored only {r_ord.distinct} states")
    chk.add_tlc("PoolImap(imap_unordered)", r_un, "non-vacuity witness: ResultInOrder must be refuted under the imap_unordered contract")
    chk.control("tlc-refutes-ResultInOrder-under-imap_unordered", r_un.violated == "ResultInOrder", f"violated={r_un.violated}")
    scheds = parse_printed_json(r_s.output, "SCHED")
    chk.add_tlc("PoolImap(schedules)", r_s, f"history variable: every complete imap schedule emitted ({len(scheds)})")
    unordered = parse_printed_json(r_us.output, "SCHED")
    chk.add_tlc("PoolImap(unordered schedules)", r_us, f"every complete imap_unordered schedule, n<=3 ({len(unordered)}), for the negative control")
    if len(scheds) < 2000 or len({(s["n"], s["w"], tuple(s["ev"])) for s in scheds}) != len(scheds) or len(unordered) < 500:
        raise MachineryError(f"schedule emission incomplete: {len(scheds)} ordered, {len(unordered)} unordered")
    chk.add_tlc("PoolLife", tlc["life"], "3 client pools, 6 calls: OnlyClientCloses, SuppliedCallsSucceed over all reachable states")
    life_behs = parse_printed_json(tlc["lifesim"].output, "BEH")
    if len(life_behs) < 10:
        raise MachineryError(f"PoolLife emitted only {len(life_behs)} behaviours")
    scen = parse_printed_json(r_sc.output, "SCEN")
    chk.add_tlc("MIndexTrace(scenario table)", r_sc, "lattice system x texture class x size x repetition with the relations to apply; theory scenarios; ASSUMEs on the thresholds")
    scen.sort(key=lambda s: (s["kind"], s["sysno"], s.get("texture", ""), s.get("n", 0), s.get("rep", 0)))
    for k, s in enumerate(scen):
        s["sid"] = k
    systems = sorted({s["system"] for s in scen}, key=lambda x: next(s["sysno"] for s in scen if s["system"] == x))
    if len(systems) != 6 or sum(s["kind"] == "theory" for s in scen) != 6 or len(scen) < 60:
        raise MachineryError(f"scenario table incomplete: {len(scen)} scenarios, systems {systems}")

    im = impl()
    enum_names = [m.name for m in im["geometry"].LatticeSystem]
    chk.cov["lattice_systems"] = dict(spec=systems, implementation=enum_names)
    for name in enum_names:
        if name not in systems:
            chk.skip(f"enum member {name} has no row in the specification's table")
    # compile the jitted kernels before any fork
    call_index(texture("uniform", 3, np.random.default_rng(0)), "orthorhombic")

    with scratch() as d:
        # ---- 3. pool binding (spec -> code)
        pool_schedule_binding(chk, scheds, unordered, tier)
        real_pool_binding(chk, tier, d)
        pool_lifecycle_binding(chk, life_behs, tier)
        t_pool = time.time()
        # ---- 4. scenarios (code -> spec)
        results = {sid: v for (sid, _), v in run_scenarios(scen, EVAL_WORKERS).items()}
        traces = [results[s["sid"]][0] for s in scen]
        for s in scen:
            lines, values, _ = results[s["sid"]]
            for ln in lines:
                if ln["ev"] == "pair":
                    for ax in ln["axes"]:
                        chk.count((s["system"], s["texture"], s["n"], s["rep"], ln["transform"], ax, tuple(s.get("mult", ()))))
                else:
                    chk.count((s["system"], s.get("texture", "theory"), s.get("n", 0), s.get("rep", 0), ln["ev"], tuple(s.get("mult", ()))))
        rejects, skips, res = judge(traces, d, "main", timeout=900)
        chk.add_tlc("MIndexTrace(judge)", res, f"{len(traces)} recorded traces, {sum(len(t) for t in traces)} lines")
        chk.cov["traces_validated_against_impl"] += len(traces)
        for _, _, why in skips:
            chk.skip(why)
        for s in scen:
            if s["kind"] == "index" and s["mode"] == "none":
                chk.skip("two-fold relabelling: the triclinic lattice has no non-trivial symmetry")

        # ---- 5. verdicts
        matrix = {sy: {} for sy in systems}  # system -> clause -> [failed, judged]

        def judged(sy, clause, failed):
            c = matrix[sy].setdefault(clause, [0, 0])
            c[0] += bool(failed)
            c[1] += 1

        cands = {}  # (system, clause) -> (severity, what, replay): the worst example is the one reported

        def candidate(sy, clause, sev, what, rep):
            if (sy, clause) not in cands or sev > cands[(sy, clause)][0]:
                cands[(sy, clause)] = (sev, what, rep)

        def severity(clause, ln, sc):
            if ln["ev"] == "pair":
                return min(ln["diffs_e9"]) if clause == "twofold-relabelling" and sc["mode"] == "any" else max(ln["diffs_e9"])
            if clause == "range":
                return max(ln["below0_e6"], ln["above1_e6"])
            if clause == "single-near-1":
                return 1_000_000 - ln["m_e6"]
            return 0

        rej_by_line = {}
        for t, line_no, clause in rejects:
            if clause.startswith(TRACE_DEFECT):
                raise MachineryError(f"recorder defect reported by the trace spec: tid {t} line {line_no}: {clause}")
            rej_by_line.setdefault(t, []).append((line_no, clause))
        line0 = np.cumsum([0] + [len(t) for t in traces])  # global (1-based) line number of a trace's first line = line0[tid] + 1
        skip_lines = {(t, ln) for t, ln, _ in skips}
        uniform_excursions = []
        for tid, s in enumerate(scen):
            lines, values, _ = results[s["sid"]]
            got = {}
            for line_no, clause in rej_by_line.get(tid, []):
                got.setdefault(line_no - line0[tid] - 1, set()).add(clause)
            base_ok = lines[0].get("exc") == "None" and lines[0].get("finite")
            for k, ln in enumerate(lines):
                cl = got.get(k, set())
                sy = s["system"]
                if ln["ev"] == "theory":
                    judged(sy, "theory-raises", "theory-raises" in cl)
                    if ln["exc"] == "None":
                        judged(sy, "theory-integral", "theory-integral" in cl)
                        chk.maximum(f"theory_integral_minus_1_e6[{sy}]", ln["int_fine_e6"] if ln["finite"] else float("inf"))
                        chk.maximum(f"theory_1deg_bin_sum_minus_1_e6[{sy}]", ln["int_coarse_e6"] if ln["finite"] else float("inf"))
                elif ln["ev"] == "base":
                    judged(sy, "raises", "raises" in cl)
                    if ln["exc"] == "None":
                        judged(sy, "finite", "finite" in cl)
                    if base_ok:
                        judged(sy, "range", "range" in cl)
                        chk.maximum(f"M_outside_unit_interval_e6[{sy}]", max(ln["below0_e6"], ln["above1_e6"]))
                        if s["texture"] == "uniform" and (tid, line0[tid] + 1 + k) not in skip_lines:
                            chk.maximum(f"M_uniform[{sy}][n={s['n']}]", ln["m_e6"] / 1e6)
                        if s["texture"] == "halfturn" and ln.get("texc") == "None":
                            judged(sy, "halfturn-closed-form", "halfturn-closed-form" in cl)
                        if s["texture"] == "single":
                            judged(sy, "single-near-1", "single-near-1" in cl)
                            chk.maximum(f"one_minus_M_single_e6[{sy}]", 1_000_000 - ln["m_e6"])
                else:
                    if not base_ok:
                        continue
                    clause = {"permutation": "permutation", "frame-generic": "frame-rotation", "frame-quarter": "frame-rotation"}.get(ln["transform"], "twofold-relabelling")
                    if ln["exc"] != "None" or not ln["finite"]:
                        judged(sy, "raises" if ln["exc"] != "None" else "finite", True)
                    elif (tid, line0[tid] + 1 + k) not in skip_lines:
                        judged(sy, clause, clause in cl)
                        worst = min(ln["diffs_e9"]) if (s["mode"] == "any" and clause == "twofold-relabelling") else max(ln["diffs_e9"])
                        chk.maximum(f"dM_e9[{clause}][{sy}]", worst)
                for clause in sorted(cl):
                    if clause == "uniform-near-0":
                        uniform_excursions.append((tid, s, ln))
                        continue
                    candidate(sy, clause, severity(clause, ln, s), f"{clause}: {describe(s, ln, values)}",
                              dict(kind=s["kind"], scenario=s, salt=0, clause=clause, line=ln, values=values))
        # a sampling-bound excursion is reported only when two fresh seeds of the same class show it too.
        # Per system the largest affordable excursion (level full / reduced) is re-run first; only if that one is
        # not confirmed (marginal at that size) the minimal-level one (n = 2000) is re-run.
        if uniform_excursions:
            by_system = {}
            for tid, s, ln in uniform_excursions:
                by_system.setdefault(s["system"], []).append((tid, s, ln))
            rounds = [{}, {}]
            for sy, exs in by_system.items():
                cheap = [e for e in exs if e[1]["level"] != "minimal"]
                dear = [e for e in exs if e[1]["level"] == "minimal"]
                pick = lambda es: max(es, key=lambda e: (e[1]["n"], -e[1]["rep"]))  # noqa: E731
                if cheap:
                    rounds[0][sy] = pick(cheap)
                if dear:
                    rounds[1 if cheap else 0][sy] = pick(dear)
            reported, n_rerun = set(), 0
            for rnd, chosen in enumerate(rounds):
                chosen = {sy: e for sy, e in chosen.items() if sy not in reported}
                if not chosen:
                    continue
                conf_traces, conf_meta = [], []
                fresh = run_scenarios([s for _, s, _ in chosen.values()], EVAL_WORKERS, salts=(1, 2), only_base=True)
                for _, s, _ in chosen.values():
                    for salt in (1, 2):
                        lines, values, _ = fresh[(s["sid"], salt)]
                        conf_traces.append(lines)
                        conf_meta.append((s["sid"], salt, values["base"]))
                n_rerun += len(chosen)
                crej, _, cres = judge(conf_traces, d, f"confirm{rnd}", timeout=900)
                chk.add_tlc(f"MIndexTrace(confirmation {rnd + 1})", cres, f"{len(conf_traces)} fresh-seed re-runs of {len(chosen)} uniform scenarios above the sampling bound")
                confirmed = {}
                for t, _, clause in crej:
                    if clause.startswith(TRACE_DEFECT):
                        raise MachineryError(f"recorder defect in confirmation run: {clause}")
                    if clause == "uniform-near-0":
                        confirmed.setdefault(conf_meta[t][0], set()).add(conf_meta[t][1])
                for sy, (tid, s, ln) in chosen.items():
                    lines, values, _ = results[s["sid"]]
                    again = {salt: v for sid, salt, v in conf_meta if sid == s["sid"]}
                    if len(confirmed.get(s["sid"], ())) == 2:
                        reported.add(sy)
                        judged(sy, "uniform-near-0", True)
                        candidate(sy, "uniform-near-0", ln["m_e6"],
                                  f"uniform-near-0: {describe(s, ln, values)}; fresh seeds give {again} - all above the 6-sigma sampling bound for n={s['n']}",
                                  dict(kind="index", scenario=s, salt=0, clause="uniform-near-0", line=ln, values=values, fresh_seeds=again))
                    else:
                        chk.skip("uniform-bound-excursion-not-confirmed-on-fresh-seeds")
            chk.cov["uniform_bound_excursions"] = dict(total=len(uniform_excursions), re_run_on_fresh_seeds=n_rerun, systems_reported=sorted(reported))
        for key in sorted(cands):  # the worst example of every (system, clause)
            _, what, rep = cands[key]
            chk.violation(dict(system=key[0], clause=key[1]), what, rep)
        exc_sids = {s["sid"] for _, s, _ in uniform_excursions}
        for tid, s in enumerate(scen):
            if s["kind"] == "index" and s["texture"] == "uniform" and s["sid"] not in exc_sids:
                ln = results[s["sid"]][0][0]
                if ln["exc"] == "None" and ln["finite"] and (tid, line0[tid] + 1) not in skip_lines:
                    judged(s["system"], "uniform-near-0", False)

        # ---- 6. controls of the trace specification
        run_trace_controls(chk, d)

    # ---- 7. summary
    table = {sy: {c: ("FAIL" if v[0] else "pass") + f" ({v[0]}/{v[1]})" for c, v in sorted(m.items())} for sy, m in matrix.items()}
    chk.cov["clause_matrix"] = table
    print("clause matrix (failed/judged):")
    for sy in systems:
        print(f"  {sy:13s} " + "  ".join(f"{c}={table[sy][c]}" for c in CLAUSES if c in table[sy]))
    first = next(s for s in scen if s["kind"] == "index" and s["system"] == "triclinic" and s["texture"] == "clustered" and s["n"] >= 20)
    chk.sample(dict(kind="index-trace", scenario={k: first[k] for k in ("system", "texture", "n", "rep", "relations")}, lines=results[first["sid"]][0][:3], values=results[first["sid"]][1]))
    ht = next(s for s in scen if s["kind"] == "index" and s["texture"] == "halfturn" and s["n"] == 60)
    chk.sample(dict(kind="index-trace", scenario={k: ht[k] for k in ("system", "texture", "n", "rep", "relations")}, lines=results[ht["sid"]][0][:2], values=results[ht["sid"]][1]))
    th = next(s for s in scen if s["kind"] == "theory" and s["system"] == "triclinic")
    chk.sample(dict(kind="theory-trace", scenario=th["system"], lines=results[th["sid"]][0], values=results[th["sid"]][1]))
    chk.cov["timing_s"] = dict(tlc_and_pool=round(t_pool - t_start, 1), scenarios=round(time.time() - t_pool, 1),
                               slowest_scenario=round(max(v[2] for v in results.values()), 1))
    return chk.finish(
        rule="pool: every TLC-emitted imap schedule (n<=4, w<=3; quick: all with n<=3 + a seeded sample of n=4) replayed through the real misorientation_indices, "
        "distinct by event sequence; real pools by (system, stack form, ncpus); "
        "index: lattice system x texture class (uniform, single, clustered, girdle; for the triclinic system also halfturn = 2..4 mutually "
        "half-turned orientations with multiplicities (closed form of M) and twinned = random grains with exact half-turn partners, i.e. pairs exactly at theta_max) x size x seeded repetition x relation "
        "(permutation, generic / quarter-turn frame rotation, two-fold relabelling of one grain / half the grains about each candidate axis), distinct by that tuple; "
        "theory: one quadrature per lattice system",
        exhaustive=False,
        trusted=["scipy.spatial.transform.Rotation for drawing orientation matrices and the transformed copies",
                 "6-sigma term of the uniform sampling bound uses the multinomial approximation (measured, see MIndexTrace.tla); excursions are confirmed on two fresh seeds",
                 "bin-edge flip allowance Flips(P) = 2 + P div 5000 (MIndexTrace.tla)"],
    )


def replay(obj):
    """./check C14 --replay <file>: re-run the recorded case against the current tree."""
    r = obj.get("replay") or {}
    impl()
    if r.get("kind") in ("index", "theory"):
        sc = r["scenario"]
        sc = dict(sc, sid=0)
        lines, values, _ = run_scenarios([sc], 1, salts=(r.get("salt", 0),))[(0, r.get("salt", 0))]
        with scratch() as d:
            rejects, skips, _ = judge([lines], d, "replay")
        print(json.dumps(dict(lines=lines, values=values), default=str)[:3000])
        print("verdicts:", rejects, "skips:", skips)
        return 1 if rejects else 0
    if r.get("kind") == "schedule":
        s = r["schedule"]
        st = make_stack([2 + (k % 4) for k in range(s["n"])], np.random.default_rng(0), ragged=r.get("form") == "list")
        exp = expected_indices(st, r["system"])
        exc, got = call_indices(st, r["system"], pool=SchedulePool(s["n"], s["ev"]))
        print("expected", exp.tolist(), "got", None if got is None else got.tolist(), exc)
        return 0 if exc == "None" and same_bits(got, exp) else 1
    return 0
