"""C02 - solver rates equal the published D-Rex equations for every fabric and input.

Spec:  DRexKernel.tla / DRexRates.tla: the grain kernel in exact rationals with the slip-rate
       powers symbolic (Poly2), emitted per case as a term program; DRexGen.tla enumerates
       fabrics x velocity gradients x regimes x orientations (axis-aligned + generic rational
       rotations) + multi-grain aggregates, and checks the kernel lemmas on every case.
Bind:  every emitted case is evaluated by the generic term evaluator at a parameter grid and
       compared with pydrex.core.derivatives (a) JIT-compiled and (b) interpreted
       (NUMBA_DISABLE_JIT=1, subprocess); (a) and (b) are also compared with each other.
"""
import numpy as np

from harness import kernel
from harness.common import SEED, Check, MachineryError, quiet_pydrex, scratch


def compare(chk, case, par, got, mode, collect=None):
    exp_o, exp_f, kappa = kernel.expected(case, par)
    if kappa > 1e6:
        chk.skip("ill-conditioned-least-squares-denominator")
        return True
    o, f = got
    do = float(np.abs(np.asarray(o) - exp_o).max())
    df = float(np.abs(np.asarray(f) - exp_f).max())
    tag = "_limit_over_delta" if case.get("limit") else ""
    sc = par.get("delta", 1.0) if case.get("limit") else 1.0
    chk.maximum(f"orientation_rate_dev_{mode}{tag}", do / max(1.0, np.abs(exp_o).max()) / kappa / sc)
    chk.maximum(f"volume_rate_dev_{mode}{tag}", df / max(1.0, np.abs(exp_f).max()) / kappa / sc)
    ok = True
    delta = par.get("delta") if case.get("limit") else None
    if not (do <= kernel.tol(exp_o, kappa, delta)):
        ok = False
        chk.violation(dict(clause="orientation-rate", fabric=case["fab"], regime=case["regime"], mode=mode, grains=min(len(case["f"]), 2), near_degenerate=bool(case.get("limit"))),
                      f"orientation rates differ from the published kernel by {do:.3g} (fabric {case['fab']}, regime {case['regime']}, {mode}, params {par})",
                      dict(case=case, par=par, mode=mode))
    if not (df <= kernel.tol(exp_f, kappa, delta)):
        ok = False
        chk.violation(dict(clause="volume-rate", fabric=case["fab"], regime=case["regime"], mode=mode, grains=min(len(case["f"]), 2), near_degenerate=bool(case.get("limit"))),
                      f"volume-fraction rates differ from the published law by {df:.3g} (fabric {case['fab']}, regime {case['regime']}, {mode}, params {par})",
                      dict(case=case, par=par, mode=mode))
    return ok


def size_sweep(chk, cases, nmax, grid, frames=False, clause_prefix="size-sweep"):
    """Every grain count 1..nmax, both dislocation regimes, the fabric and the parameter point cycling with the count:
    the rates of the cyclic aggregate of an exact multi-grain case against the spec's per-grain terms composed by the
    lumping lemma (harness/sizesweep.py)."""
    from harness import sizesweep

    recs, table = sizesweep.run(cases, nmax, grid[:3], frames=frames)
    bad = {}
    for r in recs:
        chk.count(("sweep", frames, r["n"], r["regime"]))
        if "bad" in r:
            bad.setdefault((r["bad"], r["regime"]), []).append(r)
            continue
        to, tf = sizesweep.tolerances(r)
        chk.maximum("size_sweep_orientation_rate_dev" + ("_frames" if frames else ""), r["do"] / r["so"] / r["kappa"])
        chk.maximum("size_sweep_volume_rate_dev" + ("_frames" if frames else ""), r["dfd"] / r["sf"] / r["kappa"])
        if not r["do"] <= to:
            bad.setdefault(("orientation-rate", r["regime"]), []).append(r)
        if not r["dfd"] <= tf:
            bad.setdefault(("volume-rate", r["regime"]), []).append(r)
    chk.cov["size_sweep" + ("_frames" if frames else "")] = dict(sizes=f"every grain count 1..{nmax}", regimes=[4, 6], calls=len(recs), base_cases=len(table))
    for (clause, regime), rs in sorted(bad.items()):
        rs.sort(key=lambda r: r["n"])
        sizes = [r["n"] for r in rs]
        chk.violation(dict(clause=f"{clause_prefix}-{clause}", regime=regime),
                      f"derivatives on the cyclic aggregate of an exact case: {clause} wrong at {len(sizes)} grain count(s), first {sizes[:8]} (regime {regime}, fabric {rs[0]['fab']})",
                      dict(sizes=sizes[:200], first=rs[0], base=table[(rs[0]["fab"], regime)]["case"], frames=frames,
                           how="harness.sizesweep.aggregate(base, n): grain i is a copy of case grain i mod k, volumes W[g] / copies"))
    return recs


def main(tier):
    chk = Check("C02", tier)
    quick = tier != "thorough"
    cases, res = kernel.generate_cases(tier)
    chk.add_tlc("DRexGen", res, "exact symbolic kernel on fabrics x 16 velocity gradients x 2 regimes x orientations (+ aggregates); kernel, frame and two-fold lemmas as invariants")
    quiet_pydrex()
    from pydrex import core

    grid = kernel.PARAM_GRID_QUICK if quick else kernel.PARAM_GRID_THOROUGH
    usable = [c for c in cases if not kernel.flagged(c)]
    for c in cases:
        if kernel.flagged(c):
            chk.skip("tie-or-unresolved (outside C02's quantifier; covered by C03)")
    seen = set()
    for c in usable:
        seen.add((c["fab"], c["regime"], tuple(c["roles"][0])))
    chk.cov["fabric_regime_role_classes"] = len(seen)
    if len({(f, r) for f, r, _ in seen}) < 12:
        raise MachineryError("not every fabric x regime is present among the usable cases")
    rng = np.random.default_rng(SEED)
    nojit_pairs = []
    jit_results = {}
    held = []      # results a caller keeps while making further calls: they must stay what they were
    for ci, c in enumerate(usable):
        pars = grid if not quick else [grid[0], grid[1 + (ci % (len(grid) - 1))]]
        if c.get("limit"):
            # nearly degenerate grain: two perturbation sizes, the smaller one puts the slip activity at ~1e-7
            pars = [dict(p, delta=d) for p in pars[:2] for d in kernel.DELTAS]
        for pi, par in enumerate(pars):
            try:
                got = kernel.call_impl(core, c, par)
            except kernel.InputModified as e:
                chk.violation(dict(clause="modified-its-arguments", argument=str(e)), f"derivatives changed the caller's {e} array in place (the same aggregate state evaluated again gives other rates)", dict(case=c, par=par))
                continue
            except Exception as e:  # noqa: BLE001
                chk.violation(dict(clause="raised", fabric=c["fab"], regime=c["regime"], exc=type(e).__name__), f"derivatives raised {e!r} on a resolvable case", dict(case=c, par=par))
                continue
            chk.count((kernel.case_key(c), tuple(sorted(par.items()))))
            if (ci + pi) % 5 == 0:
                held.append((c, par, got, (np.array(got[0], dtype=float, copy=True), np.array(got[1], dtype=float, copy=True))))
            compare(chk, c, par, got, "jit")
            if pi == 0 and ci % 3 == 0 and not c.get("limit"):
                A0 = kernel.case_inputs(c, None)[0]
                if np.array_equal(A0, np.round(A0)):
                    # axis-aligned grains written with integer literals: the same values, integer-typed
                    try:
                        compare(chk, c, par, kernel.call_impl(core, c, par, int_typed=True), "jit-int-typed-orientations")
                        chk.count((kernel.case_key(c), "int-typed"))
                    except Exception as e:  # noqa: BLE001
                        chk.violation(dict(clause="raised", fabric=c["fab"], regime=c["regime"], exc=type(e).__name__, mode="int-typed"), f"derivatives raised {e!r} on integer-typed axis-aligned orientations", dict(case=c, par=par))
            if pi == 0 and (not quick or ci % 4 == 0):
                nojit_pairs.append((c, par))
                jit_results[len(nojit_pairs) - 1] = got
    chk.sample(dict(kind="case", fabric=usable[5]["fab"], regime=usable[5]["regime"], L=usable[5]["L"], A=usable[5]["As"], volumes=usable[5]["f"], roles=usable[5]["roles"], program_head=usable[5]["defs"][0][:3]))
    # interpreted path
    with scratch() as d:
        outs = kernel.run_nojit(nojit_pairs, str(d))
    for i, ((c, par), out) in enumerate(zip(nojit_pairs, outs)):
        if not out["ok"]:
            chk.violation(dict(clause="raised", fabric=c["fab"], regime=c["regime"], exc=out["exc"], mode="interpreted"), f"interpreted derivatives raised {out['exc']}", dict(case=c, par=par))
            continue
        got = (np.array(out["o"]), np.array(out["f"]))
        chk.count((kernel.case_key(c), "interpreted"))
        compare(chk, c, par, got, "interpreted")
        jo, jf = jit_results[i]
        dev = max(float(np.abs(got[0] - jo).max()), float(np.abs(got[1] - jf).max()))
        chk.maximum("jit_vs_interpreted_dev", dev)
        if dev > 1e-9 * max(1.0, float(np.abs(jo).max()), float(np.abs(jf).max())):
            chk.violation(dict(clause="jit-vs-interpreted", fabric=c["fab"], regime=c["regime"]), f"compiled and interpreted solvers differ by {dev:.3g}", dict(case=c, par=par))
    chk.cov["interpreted_cases"] = len(nojit_pairs)
    stale = [(c, par) for c, par, got, cp in held if not (np.array_equal(np.asarray(got[0], dtype=float), cp[0]) and np.array_equal(np.asarray(got[1], dtype=float), cp[1]))]
    chk.cov["results_held_across_later_calls"] = len(held)
    if stale:
        chk.violation(dict(clause="result-changed-by-a-later-call"), f"{len(stale)} of {len(held)} rate arrays returned by derivatives changed while later calls were made (the result aliases state the solver re-uses)",
                      dict(case=stale[0][0], par=stale[0][1]))
    size_sweep(chk, cases, 16384 if quick else 32768, grid)
    # negative control: a perturbed expectation (role swap in the program) must be flagged
    probe = Check("C02", tier, dry=True)
    c = dict(usable[7])
    try:
        bad = np.array(kernel.call_impl(core, c, grid[0])[0]) * 1.001 + 1e-6
        compare(probe, c, grid[0], (bad, kernel.call_impl(core, c, grid[0])[1]), "jit")
        chk.control("perturbed-rate-detected", len(probe.violations) >= 1, impl_dependent=True)
    except Exception as e:  # noqa: BLE001 - the control needs a working call; what stopped it has been reported above
        chk.cov["negative_controls"].append(dict(control="perturbed-rate-detected", fired=False, detail=f"not run: {type(e).__name__}"))
    return chk.finish(
        rule="cases enumerated by TLC (DRexGen); distinct by (fabric, regime, velocity gradient, orientations, volumes) x parameter point; ties / unresolved grains are skipped and counted",
        exhaustive=False,
    )
