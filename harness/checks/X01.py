"""X01 (extension, not one of the listed properties) - PyDRex's logging contexts follow spec/Logging.tla.

Spec:  Logging.tla - handlers attached / console level / stack of open contexts / what every sink
       received; EnterFile, EnterLevel, Emit, ExitNormal and the named deviation ExitRaise (the context
       managers have no try/finally: a context left by an exception performs no clean-up).
       BalancedRestores, InOrder, AttachedAccounted model-checked over all reachable states.
Bind:  TLC-simulated behaviours are replayed with io.StringIO sinks on the real pydrex logger and the
       real context managers (pydrex.io.logfile_enable, pydrex.io.log_cli_level); after every action the
       attached handlers, their levels, the console level and the messages received by every sink are
       compared with the specification's state.
"""
import contextlib
import io
import json
import logging

from harness import layerb
from harness.common import SEED, Check, MachineryError, quiet_pydrex, run_tlc


class Boom(Exception):
    pass


def replay(beh, pd, chk, tid):
    log = logging.getLogger("pydrex")
    console = pd.logger.CONSOLE_LOGGER
    base_handlers = list(log.handlers)
    console_stream = io.StringIO()
    old_stream = console.setStream(console_stream)
    console.setLevel(logging.INFO)
    sinks = {}
    stack = []  # (ExitStack, kind, sink)
    try:
        for step, st in enumerate(beh[1:], start=1):
            a = st["act"]
            if a["a"] == "EnterFile":
                sinks.setdefault(a["sink"], io.StringIO())     # one stream per sink for the whole behaviour
                cm = pd.io.logfile_enable(sinks[a["sink"]], level=a["level"])
                cm.__enter__()
                stack.append(cm)
            elif a["a"] == "EnterLevel":
                cm = pd.io.log_cli_level(a["level"])
                cm.__enter__()
                stack.append(cm)
            elif a["a"] == "ExitNormal":
                stack.pop().__exit__(None, None, None)
            elif a["a"] == "ExitRaise":
                cm = stack.pop()
                with contextlib.suppress(Boom):
                    e = Boom("left by exception")
                    if not cm.__exit__(Boom, e, None):
                        raise e
            elif a["a"] == "Emit":
                log.log(a["level"], "msg-%d", a["id"])
            # projection
            attached = {}
            for h in log.handlers:
                if h in base_handlers:
                    continue
                for name, s in sinks.items():
                    if getattr(h, "stream", None) is s:
                        attached[name] = h.level
            got = {k: [int(x.split("msg-")[1]) for x in v.getvalue().splitlines() if "msg-" in x] for k, v in sinks.items()}
            got["console"] = [int(x.split("msg-")[1].split()[0].rstrip("\x1b[m")) for x in console_stream.getvalue().splitlines() if "msg-" in x]
            exp_att = {k: v for k, v in st["attached"].items() if v != 0}
            exp_got = {k: v for k, v in st["got"].items()}
            bad = None
            if attached != exp_att:
                bad = ("attached-handlers", exp_att, attached)
            elif console.level != st["console"]:
                bad = ("console-level", st["console"], console.level)
            else:
                for k, v in exp_got.items():
                    if list(v) != got.get(k, []):
                        bad = ("messages-received:" + k, list(v), got.get(k, []))
                        break
            chk.count((tid, step))
            if bad:
                chk.violation(dict(clause=bad[0].split(":")[0], action=a["a"]), f"logging state differs from Logging.tla after {a}: expected {bad[1]}, got {bad[2]}", dict(behaviour=[s["act"] for s in beh[1:]], step=step))
                return
    finally:
        for h in list(log.handlers):
            if h not in base_handlers:
                log.removeHandler(h)
        console.setStream(old_stream)
        console.setLevel(logging.CRITICAL)


def main(tier):
    chk = Check("X01", tier)
    quick = tier != "thorough"
    mc = run_tlc("Logging", "Logging", workers=8, timeout=900)
    chk.add_tlc("Logging", mc, "2 sinks, 3 levels, depth 3, 7 operations: BalancedRestores, InOrder, AttachedAccounted")
    behs, sim = layerb.generate_behaviours("Logging", "LoggingSim", 150 if quick else 3000, 14, SEED + 77)
    chk.add_tlc("Logging(simulate)", sim, "random behaviours with 3 sinks, 5 levels, depth 4, 12 operations")
    pd = quiet_pydrex()
    for tid, b in enumerate(behs):
        replay(b, pd, chk, tid)
    chk.cov["traces_validated_against_impl"] = len(behs)
    kinds = {}
    for b in behs:
        for s in b[1:]:
            kinds[s["act"]["a"]] = kinds.get(s["act"]["a"], 0) + 1
    chk.cov["actions_replayed"] = kinds
    if any(kinds.get(k, 0) == 0 for k in ("EnterFile", "EnterLevel", "ExitNormal", "ExitRaise", "Emit")):
        raise MachineryError(f"an action was never exercised: {kinds}")
    # non-vacuity: the named deviation is really exercised - some replayed state has no open context but
    # still an attached handler (and the implementation agreed with it, otherwise a violation was reported)
    leak = sum(1 for b in behs for s in b[1:] if s["depth"] == 0 and any(v != 0 for v in s["attached"].values()))
    chk.control("leaked-handler-states-exercised", leak > 0, f"{leak} states")
    probe = Check("X01", tier, dry=True)
    b = json.loads(json.dumps(next(b for b in behs if any(s["act"]["a"] == "Emit" for s in b[1:]))))
    i = next(k for k, s in enumerate(b) if k > 0 and s["act"]["a"] == "Emit")
    b[i]["console"] = 35          # a wrong expected console level must be flagged
    replay(b, pd, probe, -1)
    chk.control("perturbed-expected-state-detected", len(probe.violations) == 1)
    chk.sample(dict(kind="behaviour", calls=[s["act"] for s in behs[0][1:]]))
    return chk.finish(rule="behaviours of Logging.tla drawn by tlc -simulate; every action's post-state compared", exhaustive=False)
