"""C20 - coordinate conversions and pole-figure primitives are geometrically correct.

Spec:  Geometry.tla
         Geometry.cfg / Geometry_thorough.cfg : TLC proves the exact lemmas (sign tables, squared and
           rational round trip, pole algebra, Lambert identities, lifting inverse, scenario model) on
           its domain and emits every case (exact expected values as terms for harness/evalterm.py,
           scenario classes for float concretisation, density scenarios);
         GeometryJudge.cfg : TLC reads the integer measures recorded from pydrex (ndjson) and
           evaluates the law of each record's kind -> one VERDICT (failing clauses) per record.
Bind:  spec -> code replay of every case into pydrex.geometry / pydrex.stats; the harness only
       evaluates terms, draws floats inside a class, computes deviation measures (units of 1e-18,
       capped) and discrete codes (octant of the azimuth, side of the colatitude).  Thresholds and
       tables live in Geometry.tla.
"""
import json
import math
import zlib

import numpy as np

from harness import evalterm
from harness.common import SEED, Check, MachineryError, cap, parse_printed_json, quiet_pydrex, run_tlc, scratch, write_ndjson

UNIT = 1e18  # measures are integers in units of 1e-18 (capped at 2e9, i.e. 2e-9)
TOL = 1e-12  # only used by the projection to decide "on a quarter turn" for the discrete codes
HALF_PI = math.pi / 2
TWO_PI = 2 * math.pi


# ------------------------------------------------------------------ projection helpers
def mu(x):
    """Non-negative deviation -> integer measure (NaN/inf -> cap)."""
    try:
        x = float(x)
    except (TypeError, ValueError):
        return cap(float("nan"))
    return cap(abs(x) * UNIT)


def ev(t):
    return evalterm.ev(t, {})


def rng_for(*key):
    return np.random.default_rng([SEED & 0x7FFFFFFF, zlib.crc32(json.dumps(key, sort_keys=True).encode())])


def angdist(a, b):
    d = (a - b) % TWO_PI
    return min(d, TWO_PI - d)


def az_code(phi):
    """Octant code of an azimuth modulo 2 pi: even = on k*pi/2 (within 1e-12), odd = open quadrant; 9 = not finite."""
    if not math.isfinite(phi):
        return 9
    p = phi % TWO_PI
    for k in range(5):
        if abs(p - k * HALF_PI) <= TOL:
            return (2 * k) % 8
    return 2 * int(p // HALF_PI) + 1


def colat_code(th):
    """0: theta = 0, 1: (0, pi/2), 2: = pi/2, 3: (pi/2, pi), 4: = pi; 9 = outside [0, pi] or not finite."""
    if not math.isfinite(th):
        return 9
    for k, c in ((0.0, 0), (HALF_PI, 2), (math.pi, 4)):
        if abs(th - k) <= TOL:
            return c
    if 0 < th < HALF_PI:
        return 1
    if HALF_PI < th < math.pi:
        return 3
    return 9


def agree(codes):
    s = set(codes)
    return s.pop() if len(s) == 1 else 99


def maxdev(a, b):
    """max |a_i - b_i|, NaN as soon as one entry is not finite."""
    d = [abs(float(p) - float(q)) for p, q in zip(a, b)]
    return max(d) if all(math.isfinite(x) for x in d) else float("nan")


def scalar(a):
    return float(np.asarray(a, dtype=float).ravel()[0])


# ------------------------------------------------------------------ replayers (case -> record for the judge)
def sph_measures(geo, v, expected=None, perturb=None):
    """expected = (r, phi, theta) from the spec's terms; perturb = name of the expectation that is replaced
    by 'observed + 1e-6' (negative control of the comparison, independent of what pydrex returns)."""
    x, y, z = (float(c) for c in v)
    with np.errstate(all="ignore"):
        r, ph, th = (scalar(a) for a in geo.to_spherical(x, y, z))
        back = [scalar(a) for a in geo.to_cartesian(ph, th, r)]
    r_e, ph_e, th_e = expected if expected is not None else (None, None, None)
    if perturb == "r":
        r_e = r + 1e-6
    elif perturb == "phi":
        ph_e = ph + 1e-6
    elif perturb == "theta":
        th_e = th + 1e-6
    scale = max(abs(x), abs(y), abs(z))
    m = dict(
        nf_r=int(not math.isfinite(r)),
        nf_az=int(not math.isfinite(ph)),
        nf_th=int(not math.isfinite(th)),
        azc=az_code(ph),
        thc=colat_code(th),
        rt=mu(maxdev(back, (x, y, z)) / scale),
    )
    if r_e is not None:
        m["dr"] = mu((r - r_e) / max(1.0, r_e))
        m["daz"] = mu(angdist(ph, ph_e)) if math.isfinite(ph) else cap(float("nan"))
        m["dth"] = mu(th - th_e)
        with np.errstate(all="ignore"):
            fwd = [scalar(a) for a in geo.to_cartesian(ph_e, th_e, r_e)]
        m["cart"] = mu(maxdev(fwd, (x, y, z)) / scale)
    return m, dict(v=[x, y, z], got=[r, ph, th], expected=[r_e, ph_e, th_e])


def replay_sph(geo, c, perturb=None):
    m, info = sph_measures(geo, c["v"], (ev(c["rT"]), ev(c["phiT"]), ev(c["thetaT"])), perturb)
    return dict(kind="sph", pat=c["pat"], m=m), info


def replay_sphf(geo, c, draws):
    """Random points of one direction class: |component| = 10^scale10 * 10^U(-1,1) with the class's signs."""
    rng = rng_for("sphf", c["pat"], c["scale10"])
    worst, agg, azs, ths = None, dict(nf_r=0, nf_az=0, nf_th=0, rt=0), [], []
    for _ in range(draws):
        v = [s * 10.0 ** c["scale10"] * 10.0 ** rng.uniform(-1, 1) for s in c["pat"]]
        m, info = sph_measures(geo, v)
        for k in ("nf_r", "nf_az", "nf_th"):
            agg[k] = max(agg[k], m[k])
        if worst is None or m["rt"] > agg["rt"]:
            worst = info
        agg["rt"] = max(agg["rt"], m["rt"])
        azs.append(m["azc"])
        ths.append(m["thc"])
    agg["azc"] = agree(azs)
    agg["thc"] = agree(ths)
    return dict(kind="sphf", pat=c["pat"], m=agg), worst


def rat_matrix(A):
    return np.array([[e[0] / e[1] for e in row] for row in A], dtype=float)


POLE_REPR = ("c", "readonly", "strided", "fortran")


def replay_pole_group(geo, group, perturb=False):
    """All exact rotations of one (hkl, axes) group in one call (an orientation set) and one by one.  The set is
    handed over in one of several in-memory representations of the same values (common.represent), and the
    caller's array is compared with a pristine copy afterwards."""
    from harness.common import represent

    hkl, axes = group[0]["hkl"], group[0]["axes"]
    mats = np.array([rat_matrix(c["A"]) for c in group])
    call_axes = axes
    kind = POLE_REPR[zlib.crc32(json.dumps([list(hkl), axes]).encode()) % len(POLE_REPR)]
    arg = represent(mats, kind)
    raised = 0
    with np.errstate(all="ignore"):
        try:
            if list(hkl) == [1, 0, 0] and axes == "xz":
                # the documented defaults, left out of the call (second argument positional every other time)
                xs, ys, zs = (np.asarray(a, dtype=float) for a in (geo.poles(arg) if len(group) % 2 else geo.poles(arg, "xz")))
            else:
                xs, ys, zs = (np.asarray(a, dtype=float) for a in geo.poles(arg, ref_axes=call_axes, hkl=list(hkl)))
        except Exception:  # noqa: BLE001 - an in-domain set must not make poles() raise, whatever its representation
            raised = 1
            xs = ys = zs = np.full(len(group), np.nan)
    argmod = int(not np.array_equal(np.asarray(arg, dtype=float), mats))   # exact: any changed bit counts
    out = []
    for i, c in enumerate(group):
        exp = [ev(t) for t in c["exp"]]
        with np.errstate(all="ignore"):
            try:
                # other argument forms of the same call: the direction as a tuple / an integer array / a float array,
                # the axes string in upper case, positional arguments
                form = (i + len(hkl) + sum(abs(int(h)) for h in hkl)) % 4
                hk = (tuple(hkl), np.array(hkl, dtype=np.int64), np.array(hkl, dtype=float), list(hkl))[form]
                if form == 1:
                    one = [scalar(a) for a in geo.poles(mats[i : i + 1].copy(), call_axes.upper(), hk)]
                else:
                    one = [scalar(a) for a in geo.poles(mats[i : i + 1].copy(), ref_axes=call_axes, hkl=hk)]
            except Exception:  # noqa: BLE001
                raised = 1
                one = [float("nan")] * 3
        got = [float(xs[i]), float(ys[i]), float(zs[i])]
        if perturb:
            exp[1] = got[1] + 1e-6
        nonfinite = sum(not math.isfinite(g) for g in got + one)
        dev = max(max(abs(g - e), abs(o - e)) for g, o, e in zip(got, one, exp)) if not nonfinite else float("nan")
        unit = abs(math.sqrt(sum(g * g for g in got)) - 1) if not nonfinite else float("nan")
        out.append((dict(kind="pole", axes=axes, m=dict(nonfinite=nonfinite, dev=mu(dev), unit=mu(unit), raised=raised, argmod=argmod)),
                    dict(A=c["A"], hkl=hkl, axes=call_axes, got=got, expected=exp, representation=kind)))
    return out


def replay_polef(geo, c, n):
    """Random orientation set: the returned components, un-permuted and seen from the crystal, are hkl/|hkl|."""
    from scipy.spatial.transform import Rotation

    seed = int(rng_for("polef", c["hkl"], c["axes"]).integers(0, 2**31 - 1))
    mats = Rotation.random(n, random_state=seed).as_matrix()
    hkl = np.array(c["hkl"], dtype=float)
    with np.errstate(all="ignore"):
        comps = np.column_stack(geo.poles(mats.copy(), ref_axes=c["axes"], hkl=list(c["hkl"])))
    nonfinite = int((~np.isfinite(comps)).sum())
    ext = np.empty_like(comps)
    for k, idx in enumerate(c["perm"]):  # returned component k is external component perm[k]
        ext[:, idx - 1] = comps[:, k]
    norm = ev(["sqrt", ["q", [c["n2"], 1]]])
    back = np.abs(np.einsum("nij,nj->ni", mats, ext) * norm - hkl).max() / norm if not nonfinite else float("nan")
    unit = np.abs(np.linalg.norm(comps, axis=1) - 1).max() if not nonfinite else float("nan")
    return dict(kind="polef", axes=c["axes"], m=dict(nonfinite=nonfinite, back=mu(back), unit=mu(unit))), dict(hkl=c["hkl"], axes=c["axes"], n=n, rotation_seed=seed)


def lam_measures(X, Y, x, y, z, one_minus_abs_z):
    nonfinite = int(not (math.isfinite(X) and math.isfinite(Y)))
    rr = X * X + Y * Y
    return dict(
        nonfinite=nonfinite,
        r2=mu(rr - one_minus_abs_z),
        cross=mu(X * y - Y * x),
        side=int(X * x >= 0 and Y * y >= 0),
        outside=mu(max(0.0, rr - 1.0)),
        centre=mu(max(abs(X), abs(Y))),
    )


def replay_lam(geo, cases, perturb_first=False):
    xs = np.array([c["u"][0][0] / c["u"][0][1] for c in cases])
    ys = np.array([c["u"][1][0] / c["u"][1][1] for c in cases])
    zs = np.array([c["u"][2][0] / c["u"][2][1] for c in cases])
    with np.errstate(all="ignore"):
        Xv, Yv = geo.lambert_equal_area(xs, ys, zs)
    out = []
    for i, c in enumerate(cases):
        with np.errstate(all="ignore"):
            X1, Y1 = (scalar(a) for a in geo.lambert_equal_area(xs[i], ys[i], zs[i]))
        Xe, Ye = ev(c["XT"]), ev(c["YT"])
        if perturb_first and i == 0:
            Xe = float(Xv[i]) + 1e-6
        m = lam_measures(float(Xv[i]), float(Yv[i]), xs[i], ys[i], zs[i], c["oneMinusAbsZ"][0] / c["oneMinusAbsZ"][1])
        m["nonfinite"] += int(not (math.isfinite(X1) and math.isfinite(Y1)))
        m["dev"] = mu(max(abs(float(Xv[i]) - Xe), abs(float(Yv[i]) - Ye), abs(X1 - Xe), abs(Y1 - Ye)))
        out.append((dict(kind="lam", pole=c["pole"], m=m), dict(u=c["u"], got=[float(Xv[i]), float(Yv[i])], single=[X1, Y1], expected=[Xe, Ye])))
    return out


def replay_lamf(geo, c, draws):
    near = int(c.get("near", 0))
    rng = rng_for("lamf", list(c["pat"]) + [near])
    v = np.array([[s * 10.0 ** rng.uniform(-1, 1) for s in c["pat"]] for _ in range(draws)])
    if near:  # close to the pole of the pattern's hemisphere: offsets of magnitude 10^-near
        v[:, :2] *= 10.0 ** (-near)
        v[:, 2] = np.sign(v[:, 2])
    v /= np.linalg.norm(v, axis=1)[:, None]
    with np.errstate(all="ignore"):
        X, Y = geo.lambert_equal_area(v[:, 0], v[:, 1], v[:, 2])
    agg = None
    for i in range(draws):
        m = lam_measures(float(X[i]), float(Y[i]), v[i, 0], v[i, 1], v[i, 2], 1.0 - abs(v[i, 2]))
        if agg is None:
            agg = m
        else:
            agg = {k: (min(agg[k], m[k]) if k == "side" else max(agg[k], m[k])) for k in m}
    return dict(kind="lamf", pole=c["pole"], m=agg), dict(pat=c["pat"], first=v[0].tolist())


def replay_lift(geo, c, perturb=False):
    x, y, z = ev(c["xT"]), ev(c["yT"]), ev(c["zT"])
    Xe, Ye = c["X"][0] / c["X"][1], c["Y"][0] / c["Y"][1]
    with np.errstate(all="ignore"):
        X, Y = (scalar(a) for a in geo.lambert_equal_area(x, y, z))
    if perturb:
        Xe = X + 1e-6
    nonfinite = int(not (math.isfinite(X) and math.isfinite(Y)))
    m = dict(nonfinite=nonfinite, inv=mu(max(abs(X - Xe), abs(Y - Ye))), outside=mu(max(0.0, X * X + Y * Y - 1.0)))
    return dict(kind="lift", pole=(c["R2"][0] == 0), m=m), dict(lifted=[x, y, z], got=[X, Y], expected=[Xe, Ye])


# ------------------------------------------------------------------ density scenarios
def unit_rows(a):
    return a / np.linalg.norm(a, axis=1)[:, None]


def density_data(c):
    """Concrete unit vectors of the scenario's data class (seeded by the scenario, not by the kernel)."""
    n, cls = c["n"], c["data"]
    rng = rng_for("dens", cls, n, c["gridsteps"])
    if cls == "uniform":
        return unit_rows(rng.normal(size=(n, 3)))
    if cls == "cluster":
        return unit_rows(unit_rows(rng.normal(size=(1, 3))) + 0.15 * rng.normal(size=(n, 3)))
    if cls == "girdle":
        pole = unit_rows(rng.normal(size=(1, 3)))[0]
        a = rng.normal(size=(n, 3))
        a -= np.outer(a @ pole, pole)
        return unit_rows(unit_rows(a) + 0.05 * rng.normal(size=(n, 3)))
    if cls == "axes":
        six = np.array([[1, 0, 0], [0, 1, 0], [0, 0, 1], [-1, 0, 0], [0, -1, 0], [0, 0, -1]], dtype=float)
        return six[np.arange(n) % 6]
    if cls == "antipodal":
        half = unit_rows(rng.normal(size=((n + 1) // 2, 3)))
        return np.vstack([half, -half])[:n] if n > 1 else half
    if cls == "repeated":
        return np.repeat(unit_rows(rng.normal(size=(1, 3))), n, axis=0)
    if cls == "equator":
        ang = rng.uniform(0.0, 2.0 * np.pi, n)
        return np.column_stack([np.cos(ang), np.sin(ang), np.zeros(n)])
    raise MachineryError(f"unknown data class {cls}")


def _density(stats, d, c, axial=None):
    with np.errstate(all="ignore"):
        return stats.point_density(
            d[:, 0], d[:, 1], d[:, 2], gridsteps=c["gridsteps"], weights=c["weight"][0] / c["weight"][1], kernel=c["kernel"], axial=c["axial"] if axial is None else axial
        )


def rel_dev(a, b):
    return float(np.abs(a - b).max() / max(1.0, np.abs(a).max()))


def replay_dens(c, data=None, perm=None, signs=None):
    """Measures of one scenario: base run, a run on permuted data and (axial) a run with random signs.
    data / perm / signs are only given when a stored reproducer is re-run."""
    import warnings

    warnings.filterwarnings("ignore")
    from pydrex import stats

    d = density_data(c) if data is None else np.array(data, dtype=float)
    rng = rng_for("dens-relations", c["data"], c["n"], c["gridsteps"], c["kernel"], c["axial"], c["weight"])
    X, Y, T = _density(stats, d, c)
    nonfinite = int((~np.isfinite(T)).sum() + (~np.isfinite(X)).sum() + (~np.isfinite(Y)).sum())
    m = dict(nonfinite=nonfinite, neg=0, outside=0, minpos=0, meandev=0, meandef=0, order=0, sign=0)
    info = dict(scenario=c, data=d.tolist(), all_nan=bool(np.isnan(T).all()))
    if nonfinite:
        return dict(kind="dens", axial=c["axial"], m=m), info
    mean = float(T.mean())
    perm = rng.permutation(len(d)) if perm is None else np.array(perm, dtype=int)
    if len(d) > 1 and np.array_equal(perm, np.arange(len(d))):
        perm = np.roll(perm, 1)
    Tp = _density(stats, d[perm], c)[2]
    m.update(
        neg=int((T < 0).sum()),
        outside=mu(max(0.0, float((X * X + Y * Y).max()) - 1.0)),
        minpos=int(float(T.min()) > 0),
        meandev=mu(mean - 1.0),
        meandef=mu(max(0.0, 1.0 - mean)),
        order=mu(rel_dev(T, Tp)) if np.isfinite(Tp).all() else cap(float("nan")),
    )
    # a non-negative estimate with grid mean 1 cannot exceed the number of grid points: larger values mean that
    # estimates of both signs cancelled in the normalising mean (discrete fact, used in the signature only)
    info.update(perm=perm.tolist(), mean=mean, min=float(T.min()), max=float(T.max()), amplified=bool(T.max() > T.size * (1 + 1e-9)))
    if c["axial"]:
        if signs is None:
            signs = rng.choice([-1.0, 1.0], size=len(d))
            signs[int(rng.integers(len(d)))] = -1.0
        signs = np.array(signs, dtype=float)
        Ts = _density(stats, d * signs[:, None] + 0.0, c)[2]      # "+ 0.0": a flipped zero component is written +0.0, not -0.0
        m["sign"] = mu(rel_dev(T, Ts)) if np.isfinite(Ts).all() else cap(float("nan"))
        info["signs"] = signs.tolist()
    return dict(kind="dens", axial=c["axial"], m=m), info


def _dens_worker(c):
    rec, info = replay_dens(c)
    if rec["m"]["nonfinite"] == 0 and max(rec["m"]["order"], rec["m"]["sign"], rec["m"]["meandev"] * rec["m"]["minpos"]) <= 10**6:
        info.pop("data", None)  # keep reproducers only where they may be needed
    return rec, info


def density_measure_controls():
    """The relational measure must see a 1e-6 difference in one grid value (independent of pydrex)."""
    a = np.linspace(0.5, 2.0, 121).reshape(11, 11)
    b = a.copy()
    b[3, 4] += 1e-6
    good = dict(nonfinite=0, neg=0, outside=0, minpos=1, meandev=0, meandef=0, order=0, sign=0)
    return [
        ("order-measure-sees-1e-6", dict(kind="dens", axial=True, m=dict(good, order=mu(rel_dev(a, b)))), "order"),
        ("sign-measure-sees-1e-6", dict(kind="dens", axial=True, m=dict(good, sign=mu(rel_dev(a, b)))), "sign"),
        ("mean-measure-sees-1e-6", dict(kind="dens", axial=True, m=dict(good, meandev=mu(float((a / a.mean()).mean() + 1e-6) - 1.0))), "mean"),
    ]


# ------------------------------------------------------------------ judge
def judge(records, timeout):
    with scratch() as d:
        path = d / "measures.ndjson"
        write_ndjson(path, records)
        res = run_tlc("Geometry", "GeometryJudge", workers=1, timeout=timeout, env={"TRACE_FILE": str(path)})
    verdicts = {v["l"]: v["bad"] for v in parse_printed_json(res.output, "VERDICT")}
    if sorted(verdicts) != list(range(1, len(records) + 1)):
        raise MachineryError(f"judge returned {len(verdicts)} verdicts for {len(records)} records:\n{res.output[-2000:]}")
    return [sorted(verdicts[i + 1]) for i in range(len(records))], res


def signature(kind, clause, bad, rec, case, info):
    head, _, obs = clause.partition(":")
    if kind in ("sph", "sphf"):
        sig = dict(fn="to_spherical", clause=head)
        if head == "to_cartesian":
            sig["fn"] = "to_cartesian"
        elif head == "roundtrip":
            others = sorted({b.partition(":")[0] for b in bad} - {"roundtrip"})
            sig["with"] = "+".join(others) or "none"
        else:
            sig["obs"] = obs
        return sig
    if kind in ("pole", "polef"):
        return dict(fn="poles", clause=obs, axes=rec["axes"])
    if kind in ("lam", "lamf", "lift"):
        return dict(fn="lambert_equal_area", clause=obs, pole=bool(rec["pole"]))
    sig = dict(fn="point_density", clause=head, kernel=case["kernel"], axial=case["axial"], cap=case["cap"])
    if head in ("order", "sign"):
        sig["amplified"] = bool(info.get("amplified"))
    if head == "finite" and case["cap"] in ("pos", "none"):
        # narrow the signature to the scenario's discrete data-count and weight classes
        sig["n"] = case["n"]
        sig["w"] = "%d/%d" % tuple(case["weight"])
    return sig


# ------------------------------------------------------------------ main
def main(tier):
    chk = Check("C20", tier)
    quick = tier != "thorough"
    gen = run_tlc("Geometry", "Geometry" if quick else "Geometry_thorough", workers=8, timeout=300 if quick else 900)
    chk.add_tlc(
        "Geometry" if quick else "Geometry_thorough",
        gen,
        "one state per case; lemmas AzTable, Colat, RoundTripSq, RoundTripTrig, Pole, Lambert, Lift, DensityScenario as invariants",
    )
    cases = parse_printed_json(gen.output, "CASE")
    by = {}
    for c in cases:
        by.setdefault(c["kind"], []).append(c)
    need = dict(sph=120, sphf=78, pole=1000, polef=36, lam=200, lamf=26, lift=200, dens=1000)
    for k, n in need.items():
        if len(by.get(k, [])) < n:
            raise MachineryError(f"generator emitted {len(by.get(k, []))} cases of kind {k}, expected at least {n}")
    if len(cases) != gen.distinct:
        raise MachineryError(f"{len(cases)} emitted cases but {gen.distinct} distinct states")
    if {tuple(c["pat"]) for c in by["sph"]} != {(a, b, c) for a in (-1, 0, 1) for b in (-1, 0, 1) for c in (-1, 0, 1)} - {(0, 0, 0)}:
        raise MachineryError("spherical table does not cover the 26 direction classes")

    quiet_pydrex()
    from pydrex import geometry as geo

    records, meta = [], []  # meta[i] = (case, reproducer info) of record i

    def add(rec, case, info, key):
        records.append(rec)
        meta.append((case, info))
        chk.count(key)

    # ---- 1. spherical coordinates
    for c in by["sph"]:
        rec, info = replay_sph(geo, c)
        add(rec, c, info, ("sph", tuple(c["v"])))
    draws = 20 if quick else 300
    for c in by["sphf"]:
        rec, info = replay_sphf(geo, c, draws)
        add(rec, c, info, ("sphf", tuple(c["pat"]), c["scale10"]))
    chk.sample(dict(kind="spherical-case", case=by["sph"][7]))
    # ---- 2. poles
    groups = {}
    for c in by["pole"]:
        groups.setdefault((tuple(c["hkl"]), c["axes"]), []).append(c)
    for g in groups.values():
        for (rec, info), c in zip(replay_pole_group(geo, g), g):
            add(rec, c, info, ("pole", json.dumps(c["A"]), tuple(c["hkl"]), c["axes"]))
    for c in by["polef"]:
        rec, info = replay_polef(geo, c, 64 if quick else 2000)
        add(rec, c, info, ("polef", tuple(c["hkl"]), c["axes"]))
    chk.sample(dict(kind="pole-case", case=by["pole"][101]))
    # ---- 3. Lambert projection and lifting
    for (rec, info), c in zip(replay_lam(geo, by["lam"]), by["lam"]):
        add(rec, c, info, ("lam", json.dumps(c["u"])))
    for c in by["lamf"]:
        rec, info = replay_lamf(geo, c, 50 if quick else 1000)
        add(rec, c, info, ("lamf", tuple(c["pat"]), c.get("near", 0)))
    for c in by["lift"]:
        rec, info = replay_lift(geo, c)
        add(rec, c, info, ("lift", tuple(c["X"]), tuple(c["Y"]), c["s"]))
    chk.sample(dict(kind="lambert-case", case=by["lam"][5]))
    # ---- 4. density scenarios
    dens = sorted(by["dens"], key=lambda c: (-c["gridsteps"], c["kernel"], c["axial"], c["data"], c["n"], c["weight"]))
    if quick:
        results = [_dens_worker(c) for c in dens]
    else:
        from concurrent.futures import ProcessPoolExecutor

        with ProcessPoolExecutor(max_workers=12) as pool:
            results = list(pool.map(_dens_worker, dens, chunksize=8))
    for c, (rec, info) in zip(dens, results):
        add(rec, c, info, ("dens", c["kernel"], c["axial"], c["gridsteps"], c["data"], c["n"], tuple(c["weight"])))
    chk.sample(dict(kind="density-scenario", case=dens[-1], measures=results[-1][0]["m"]))
    n_real = len(records)

    # ---- negative controls (same pipeline: measures -> judge); none of them is a verdict on pydrex
    controls = []  # (name, record, clause that must be reported) ; clause None = must be accepted
    c0 = next(c for c in by["sph"] if c["v"] == [0, 1, 0])
    for what, clause in (("r", "+radius:value"), ("phi", "+azimuth:value"), ("theta", "+colatitude:value")):
        controls.append((f"perturbed-expected-{what}", replay_sph(geo, c0, perturb=what)[0], clause))
    g0 = groups[((1, 2, 3), "xz")]
    controls.append(("perturbed-expected-pole", replay_pole_group(geo, g0[:6], perturb=True)[3][0], "+pole:value"))
    controls.append(("perturbed-expected-lambert", replay_lam(geo, [c for c in by["lam"] if not c["pole"]][:3], perturb_first=True)[0][0], "+lambert:value"))
    controls.append(("perturbed-expected-lift", replay_lift(geo, next(c for c in by["lift"] if c["R2"][0] != 0), perturb=True)[0], "+lambert:inverse"))
    good_sph = dict(nf_r=0, nf_az=0, nf_th=0, azc=1, thc=1, rt=3, dr=0, daz=1, dth=2, cart=0)
    controls.append(("clean-spherical-record-accepted", dict(kind="sph", pat=[1, 1, 1], m=good_sph), None))
    controls.append(("wrong-octant-rejected", dict(kind="sph", pat=[1, 1, 1], m=dict(good_sph, azc=3)), "azimuth:quadrant"))
    controls.append(("wrong-side-rejected", dict(kind="sphf", pat=[1, 1, -1], m=dict(nf_r=0, nf_az=0, nf_th=0, azc=1, thc=1, rt=0)), "colatitude:side"))
    controls.append(("nan-colatitude-rejected", dict(kind="sph", pat=[0, 0, 1], m=dict(good_sph, nf_th=1, azc=0, thc=9)), "colatitude:nan"))
    controls.append(("roundtrip-over-threshold-rejected", dict(kind="sphf", pat=[1, 1, 1], m=dict(nf_r=0, nf_az=0, nf_th=0, azc=1, thc=1, rt=5 * 10**6)), "roundtrip"))
    controls.append(("pole-not-unit-rejected", dict(kind="polef", axes="xz", m=dict(nonfinite=0, back=0, unit=5 * 10**6)), "pole:unit"))
    controls.append(("pole-wrong-direction-rejected", dict(kind="polef", axes="xz", m=dict(nonfinite=0, back=5 * 10**6, unit=0)), "pole:direction"))
    good_lam = dict(nonfinite=0, r2=0, cross=0, side=1, outside=0, centre=0)
    controls.append(("lambert-radius-rejected", dict(kind="lamf", pole=False, m=dict(good_lam, r2=5 * 10**6, centre=10**9)), "lambert:radius"))
    controls.append(("lambert-azimuth-rejected", dict(kind="lamf", pole=False, m=dict(good_lam, side=0, centre=10**9)), "lambert:azimuth"))
    controls.append(("lambert-centre-rejected", dict(kind="lamf", pole=True, m=dict(good_lam, centre=5 * 10**6)), "lambert:centre"))
    good_dens = dict(nonfinite=0, neg=0, outside=0, minpos=1, meandev=300, meandef=0, order=10, sign=0)
    controls.append(("clean-density-record-accepted", dict(kind="dens", axial=True, m=good_dens), None))
    controls.append(("clipped-density-with-larger-mean-accepted", dict(kind="dens", axial=True, m=dict(good_dens, minpos=0, meandev=10**9)), None))
    for k, v, clause in (("nonfinite", 1, "finite"), ("neg", 1, "nonneg"), ("outside", 5 * 10**6, "disk"), ("meandev", 5 * 10**6, "mean"), ("order", 5 * 10**6, "order"), ("sign", 5 * 10**6, "sign")):
        controls.append((f"density-{clause}-over-threshold-rejected", dict(kind="dens", axial=True, m=dict(good_dens, **{k: v})), clause))
    controls.append(("density-mean-below-1-after-clipping-rejected", dict(kind="dens", axial=True, m=dict(good_dens, minpos=0, meandef=5 * 10**6)), "mean"))
    controls.append(("density-sign-not-demanded-when-directional", dict(kind="dens", axial=False, m=dict(good_dens, sign=5 * 10**6)), None))
    controls += density_measure_controls()
    for _, rec, _ in controls:
        records.append(rec)

    verdicts, jres = judge(records, timeout=300 if quick else 900)
    chk.add_tlc("GeometryJudge", jres, f"{len(records)} measure records judged by the laws of Geometry.tla")
    chk.cov["traces_validated_against_impl"] += n_real
    for (name, _, clause), bad in zip(controls, verdicts[n_real:]):
        if clause is not None and clause.startswith("+"):  # real case replayed against 'observed + 1e-6': the comparison must fail
            fired = clause[1:] in bad or clause[1:].partition(":")[0] + ":nan" in bad
        else:  # synthetic record: exactly this verdict
            fired = bad == ([] if clause is None else [clause])
        chk.control(name, fired, f"judge said {bad}")

    # ---- verdicts on the implementation
    tally = {}
    for i in range(n_real):
        rec, (case, info), bad = records[i], meta[i], verdicts[i]
        for k, v in rec["m"].items():
            if k in ("dr", "daz", "dth", "rt", "cart", "dev", "back", "unit", "r2", "cross", "outside", "inv", "meandev", "order", "sign") and not bad:
                if k == "meandev" and not rec["m"].get("minpos"):
                    continue
                chk.maximum(f"{rec['kind']}.{k} [1e-18]", v)
        for clause in bad:
            sig = signature(rec["kind"], clause, bad, rec, case, info)
            key = json.dumps(sig, sort_keys=True)
            tally[key] = tally.get(key, 0) + 1
            chk.violation(sig, f"{rec['kind']} case fails clause '{clause}' of Geometry.tla: {json.dumps(info, default=str)[:260]}", dict(case=case, measures=rec["m"], observed=info, failing=bad))
    chk.cov["failing_clause_counts"] = tally
    chk.cov["case_counts"] = {k: len(v) for k, v in by.items()}
    return chk.finish(
        rule="cases = states of Geometry.tla (one per integer vector / rotation x hkl x axes string / Pythagorean unit vector / disk point / "
        "density scenario kernel x axial x gridsteps x data class x n x weight); float classes (sphf, polef, lamf) are concretised with "
        "VERIF_SEED; distinct by case tuple; every case is replayed into pydrex and judged by GeometryJudge",
        exhaustive=False,
    )


def replay(obj):
    """./check C20 --replay <file>: re-run the stored reproducer and print what pydrex returns now."""
    quiet_pydrex()
    from pydrex import geometry as geo

    case = obj["replay"]["case"]
    if case["kind"] == "dens":
        ob = obj["replay"]["observed"]
        rec, info = replay_dens(case, ob.get("data"), ob.get("perm"), ob.get("signs"))
        print(json.dumps(dict(measures=rec["m"], all_nan=info.get("all_nan"), mean=info.get("mean"), max=info.get("max")), indent=1))
    elif case["kind"] == "sph":
        rec, info = replay_sph(geo, case)
        print(json.dumps(dict(measures=rec["m"], observed=info), indent=1))
    elif case["kind"] == "sphf":
        v = obj["replay"]["observed"]["v"]
        print(json.dumps(dict(v=v, got=[scalar(a) for a in geo.to_spherical(*v)]), indent=1))
    return 0
