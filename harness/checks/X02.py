"""X02 (extension, not one of the listed properties) - the pathline-driven CPO run follows spec/Driver.tla.

Spec:  Driver.tla - the workflow of the library's examples as a state machine over the public calls it is
       composed of (get_pathline -> update_all per pair of timestamps -> per-snapshot diagnostics -> save /
       reload -> continue along a further pathline), with the named deviations TraceFail (root finder raises,
       known finding F9c) and StepRejected (update_all refused part-way).  SnapshotPerStep, CompleteBeforeUse,
       DiagPerSnapshot, PartialOnFailure, FailedStays model-checked over all reachable states.
       DriverTrace.tla - binds the actions to recorded events and evaluates the numerical laws with the
       machine's own step count and accumulated strain (budgets of C01 / C06, strain bound of C18).
Bind:  spec -> code  behaviours drawn by `tlc -simulate` are executed on the real library (flows of pydrex.velocity,
                     get_pathline, update_all, voigt_averages, misorientation_indices, resample_orientations,
                     Mineral.save / from_file / load); after every call the projected state (stage, k, snapshot
                     counts) is compared with the behaviour's state.
       code -> spec  the calls made are recorded as ndjson and validated by TLC against DriverTrace.tla.
"""
import json
import signal

import numpy as np

from harness import layerb
from harness.common import SEED, Check, MachineryError, cap, quiet_pydrex, run_tlc, scratch, write_ndjson

UNSUPPORTED = 3  # DeformationRegime.sliding_diffusion: documented as not yet supported
# final locations well inside the box for which the stateful terminal event is known to behave (C18 F9c/d
# concern rim locations and a few percent of interior ones; a ValueError is still accepted as TraceFail)
SCEN = [
    dict(fam="ss", axes="XZ", final=[0.3, 0.1, -0.2], box=[[-5, -5, -5], [5, 5, 5]], par=1.0),
    dict(fam="ss", axes="YX", final=[0.0, 0.0, 0.0], box=[[-5, -5, -5], [5, 5, 5]], par=0.5),
    dict(fam="ss", axes="ZY", final=[0.2, -0.4, 0.1], box=[[-9, -9, -9], [9, 9, 9]], par=2.0),
    dict(fam="cell", axes="XZ", final=[0.5, 0.0, -0.75], box=[[-1, -1, -1], [1, 1, 1]], par=1.0),
    dict(fam="cell", axes="XY", final=[0.4, -0.6, 0.0], box=[[-1, -1, -1], [1, 1, 1]], par=1.0),
    dict(fam="corner", axes="XZ", final=[2.0, 0.0, -1.0], box=[[0, -1, -5], [5, 1, 0]], par=1.0),
    dict(fam="corner", axes="XZ", final=[1.5, 0.0, -2.0], box=[[0, -1, -5], [5, 1, 0]], par=2.0),
]


class Timeout(Exception):
    pass


def _alarm(signum, frame):
    raise Timeout()


def build_flow(sc):
    from pydrex import velocity

    if sc["fam"] == "ss":
        return velocity.simple_shear_2d(sc["axes"][0], sc["axes"][1], sc["par"])
    if sc["fam"] == "cell":
        return velocity.cell_2d(sc["axes"][0], sc["axes"][1], sc["par"], 2.0)
    return velocity.corner_2d(sc["axes"][0], sc["axes"][1], sc["par"])


def action_of(prev, st, names):
    """Infer the Driver action that leads from prev to st."""
    a, b = prev["stage"], st["stage"]
    if a == "idle" and b == "traced":
        return dict(a="TraceOk", steps=st["nts"] - 1)
    if a == "idle" and b == "failed":
        return dict(a="TraceFail")
    if a in ("traced", "running") and b in ("running", "integrated"):
        return dict(a="StepOk")
    if a in ("traced", "running") and b == "failed":
        j = 1 + sum(1 for m in names if st["nsnap"][m] == prev["nsnap"][m] + 1)
        return dict(a="StepRejected", j=j)
    if b == "diagnosed":
        return dict(a="Diagnose")
    if b == "saved":
        return dict(a="SaveAll")
    if b == "reloaded":
        return dict(a="Reload")
    if b == "idle":
        return dict(a="Continue")
    raise MachineryError(f"cannot infer the action {a} -> {b}")


class Run:
    """The client of one behaviour: real minerals, the deformation gradient it carries, the current pathline."""

    def __init__(self, pd, tid, d, rng):
        from pydrex import core, minerals

        self.pd, self.tid, self.dir, self.rng = pd, tid, d, rng
        n = int(rng.choice([6, 12]))
        fab = int(rng.integers(0, 5))
        self.names = ["ol", "en"]
        self.m = {
            "ol": minerals.Mineral(phase=0, fabric=fab, regime=core.DeformationRegime.matrix_dislocation, n_grains=n, seed=int(rng.integers(0, 1000))),
            "en": minerals.Mineral(phase=1, fabric=5, regime=core.DeformationRegime(int(rng.choice([4, 6]))), n_grains=n, seed=int(rng.integers(0, 1000))),
        }
        p = pd.DefaultParams().as_dict()
        phi = float(rng.choice([0.7, 0.5, 0.2]))
        order = bool(rng.integers(0, 2))
        p["phase_assemblage"] = (core.MineralPhase.olivine, core.MineralPhase.enstatite) if order else (core.MineralPhase.enstatite, core.MineralPhase.olivine)
        p["phase_fractions"] = (phi, 1 - phi) if order else (1 - phi, phi)
        p["number_of_grains"] = n
        p["gbm_mobility"] = float(rng.choice([0, 10, 125]))
        p["gbs_threshold"] = float(rng.choice([0, 0.3]))
        self.params = p
        self.n = n
        self.F = np.eye(3)
        self.Fexact = np.eye(3)   # closed form while every pathline so far was a simple shear
        self.exact = True
        self.trint = 0.0          # int tr L dt along everything integrated so far
        self.k = 0
        self.stage = "idle"
        self.events = []
        self.run_no = 0

    def ev(self, **kw):
        self.events.append(dict(tid=self.tid, **kw))

    def lens(self):
        return {x: [len(self.m[x].orientations), len(self.m[x].fractions)] for x in self.names}

    def do(self, act):
        from pydrex import diagnostics, minerals, pathlines, stats, utils

        pd = self.pd
        a = act["a"]
        if a in ("TraceOk", "TraceFail"):
            sc = SCEN[int(self.rng.integers(0, len(SCEN)))]
            self.sc = sc
            self.gv, self.gL = build_flow(sc)
            maxs = float(self.rng.choice([0.3, 0.6]))
            steps = act.get("steps", 2)
            signal.signal(signal.SIGALRM, _alarm)
            signal.alarm(120)
            try:
                ts, pos = pathlines.get_pathline(np.array(sc["final"], float), self.gv, self.gL, np.array(sc["box"][0], float), np.array(sc["box"][1], float), maxs, regular_steps=steps)
                exc = "None"
            except Timeout:
                raise MachineryError(f"get_pathline did not return within 120 s for {sc}")
            except ValueError:
                exc = "ValueError"
            finally:
                signal.alarm(0)
            if exc != "None":
                self.ev(ev="Trace", steps=steps, exc=exc, sc=sc["fam"])
                self.stage = "failed"
                return
            self.ts, self.pos = np.asarray(ts, float), pos
            P = np.array([pos(t) for t in np.linspace(ts[0], ts[-1], 33)])
            lo, hi = np.array(sc["box"][0], float), np.array(sc["box"][1], float)
            span = (hi - lo).max()
            self.ev(ev="Trace", steps=steps, exc="None", sc=sc["fam"], nts=len(ts), mono=bool(np.all(np.diff(ts) > 0)),
                    tend0=bool(ts[-1] == 0 and np.abs(pos(ts[-1]) - np.array(sc["final"], float)).max() <= 1e-6 * span),
                    inside=bool(np.all(P >= lo - 1e-3 * span) and np.all(P <= hi + 1e-3 * span)), maxs_e6=cap(maxs * 1e6))
            self.k = 0
            self.stage = "traced"
            self.run_no += 1
            self.exact = self.exact and sc["fam"] == "ss"
        elif a in ("StepOk", "StepRejected"):
            t0, t1 = self.ts[self.k], self.ts[self.k + 1]
            if a == "StepRejected":
                # the j-th mineral handed to update_all is in a regime documented as not yet supported
                self.m[self.names[act["j"] - 1]].regime = pd.DeformationRegime(UNSUPPORTED)
            ds = utils.strain_increment(t1 - t0, self.gL(np.nan, self.pos(t0)))
            try:
                Fn = minerals.update_all([self.m[x] for x in self.names], self.params, self.F, self.gL, (t0, t1, self.pos))
                exc = "None"
            except ValueError:
                exc = "ValueError"
            if exc != "None":
                self.ev(ev="Step", k=self.k + 1, exc=exc, lens=self.lens())
                self.stage = "failed"
                return
            # reference quantities (leaf functions only: quadrature of tr L along the pathline, one matrix exponential)
            xs, ws = np.polynomial.legendre.leggauss(12)
            tq = 0.5 * (t1 - t0) * xs + 0.5 * (t1 + t0)
            self.trint += 0.5 * (t1 - t0) * sum(w * np.trace(self.gL(np.nan, self.pos(t))) for w, t in zip(ws, tq))
            frel = -1
            if self.exact:
                L = self.gL(np.nan, self.pos(t0))
                self.Fexact = (np.eye(3) + L * (t1 - t0)) @ self.Fexact      # L is nilpotent: exp(L dt) = I + L dt exactly
                frel = cap(np.abs(Fn - self.Fexact).max() / max(1.0, np.abs(self.Fexact).max()) * 1e9)
            self.F = Fn
            self.k += 1
            self.ev(ev="Step", k=self.k, exc="None", lens=self.lens(), dstrain_e6=cap(ds * 1e6),
                    detdev_e9=cap(abs(np.linalg.det(Fn) / np.exp(self.trint) - 1.0) * 1e9), frel_e9=frel,
                    v={x: layerb.snapshot_measures(self.m[x].orientations[-1], self.m[x].fractions[-1], self.n) for x in self.names})
            self.stage = "integrated" if self.k == len(self.ts) - 1 else "running"
        elif a == "Diagnose":
            ms = [self.m[x] for x in self.names]
            try:
                v = minerals.voigt_averages(ms, self.params["phase_assemblage"], self.params["phase_fractions"])
                mi = diagnostics.misorientation_indices(np.array(self.m["ol"].orientations), pd.LatticeSystem.orthorhombic, ncpus=1)
                ro, rf = stats.resample_orientations(self.m["en"].orientations, self.m["en"].fractions, seed=self.tid)
                exc = "None"
            except Exception as e:  # noqa: BLE001
                self.ev(ev="Diag", exc="other:" + type(e).__name__)
                self.stage = "failed"
                return
            self.ev(ev="Diag", exc=exc, nv=int(v.shape[0]), nm=int(len(mi)), nr=int(ro.shape[0]),
                    sym=bool(v.shape[1:] == (6, 6) and np.all(np.isfinite(v)) and np.allclose(v, np.transpose(v, (0, 2, 1)), rtol=1e-12, atol=1e-9)),
                    resOK=bool(ro.shape == (rf.shape[0], self.n, 3, 3) and rf.shape[1] == self.n and np.all(np.isfinite(mi))))
            self.stage = "diagnosed"
        elif a == "SaveAll":
            self.file = str(self.dir / f"run{self.tid}_{self.run_no}.npz")
            try:
                for x in self.names:
                    self.m[x].save(self.file, postfix=x)
                exc = "None"
            except Exception as e:  # noqa: BLE001
                exc = "other:" + type(e).__name__
            self.ev(ev="Save", exc=exc)
            self.stage = "saved" if exc == "None" else "failed"
        elif a == "Reload":
            try:
                new = {"ol": minerals.Mineral.from_file(self.file, postfix="ol")}
                en = minerals.Mineral(phase=0, fabric=0, n_grains=3)
                en.load(self.file, postfix="en")
                new["en"] = en
                exc = "None"
            except Exception as e:  # noqa: BLE001
                self.ev(ev="Reload", exc="other:" + type(e).__name__, equal=False)
                self.stage = "failed"
                return

            def same(p, q):
                return (int(p.phase), int(p.fabric), int(p.regime), int(p.n_grains)) == (int(q.phase), int(q.fabric), int(q.regime), int(q.n_grains)) and \
                    len(p.orientations) == len(q.orientations) and len(p.fractions) == len(q.fractions) and \
                    all(np.array_equal(x, y) for x, y in zip(p.orientations, q.orientations)) and all(np.array_equal(x, y) for x, y in zip(p.fractions, q.fractions))

            eq = all(same(self.m[x], new[x]) for x in self.names)
            self.ev(ev="Reload", exc=exc, equal=bool(eq))
            self.m = new          # the run goes on with the reloaded minerals
            self.stage = "reloaded"
        elif a == "Continue":
            self.ev(ev="Continue", exc="None")
            self.stage = "idle"
        else:
            raise MachineryError(f"unknown action {a}")

    def project(self):
        return dict(stage=self.stage, k=self.k if self.stage not in ("idle",) else 0, nsnap={x: len(self.m[x].orientations) for x in self.names})


def replay(beh, pd, chk, tid, d):
    rng = np.random.default_rng([SEED, tid, 202])
    run = Run(pd, tid, d, rng)
    for step, (prev, st) in enumerate(zip(beh, beh[1:]), start=1):
        act = action_of(prev, st, run.names)
        run.do(act)
        chk.count((tid, step))
        got = run.project()
        if run.stage == "failed" and act["a"] == "TraceOk":
            chk.skip("pathline-raised-ValueError (named deviation TraceFail / known finding F9c of C18)")
            break
        exp = dict(stage=st["stage"], k=st["k"] if st["stage"] != "idle" else 0, nsnap=st["nsnap"])
        if got != exp:
            chk.violation(dict(level="replay", clause="driver-state", action=act["a"], stage=exp["stage"], got=got["stage"]),
                          f"after {act} the run is in state {got}, Driver.tla says {exp}", dict(behaviour=beh, step=step, scenario=run.sc if hasattr(run, "sc") else None))
            break
    return run


def validate(events, d, name="driver.ndjson"):
    import re

    path = d / name
    write_ndjson(path, events)
    res = run_tlc("DriverTrace", "DriverTrace", workers=1, env={"TRACE_FILE": str(path)}, timeout=900)
    rejects = []
    for line in res.output.splitlines():
        if line.startswith('<<"REJECT"'):
            for m in re.finditer(r'<<(\d+), (\d+), "([^"]*)">>', line):
                rejects.append((int(m.group(1)), int(m.group(2)), m.group(3)))
    done = re.search(r'<<"DONE", (\d+), (\d+)>>', res.output)
    if not done or int(done.group(1)) != len(events):
        raise MachineryError("DriverTrace did not consume the whole trace:\n" + res.output[-3000:])
    return sorted(set(rejects)), res


def main(tier):
    chk = Check("X02", tier)
    quick = tier != "thorough"
    mc = run_tlc("Driver", "Driver", workers=4, timeout=600, coverage=True)
    chk.add_tlc("Driver", mc, "3 minerals, regular_steps in {1,2,3,5,8}, up to 3 successive pathlines: SnapshotPerStep, CompleteBeforeUse, DiagPerSnapshot, PartialOnFailure, StepsBounded, FailedStays")
    never = [a for a in ("TraceOk", "TraceFail", "StepOk", "StepRejected", "Diagnose", "SaveAll", "Reload", "Continue") if (mc.coverage or {}).get(a, (0, 0))[1] == 0]
    if never:
        raise MachineryError(f"Driver actions never taken: {never}")
    behs, sim = layerb.generate_behaviours("Driver", "DriverSim", 40 if quick else 600, 60, SEED + 5)
    chk.add_tlc("Driver(simulate)", sim, "random runs of 2 minerals, up to 2 pathlines")
    pd = quiet_pydrex()
    events = []
    kinds = {}
    with scratch() as d:
        for tid, b in enumerate(behs):
            run = replay(b, pd, chk, tid, d)
            events += run.events
            for e in run.events:
                kinds[e["ev"] + ":" + e["exc"]] = kinds.get(e["ev"] + ":" + e["exc"], 0) + 1
        rejects, tr = validate(events, d)
        chk.add_tlc("DriverTrace", tr, f"{len(events)} recorded calls of {len(behs)} runs")
        chk.cov["traces_validated_against_impl"] = len(behs)
        for tid, line, clause in rejects:
            e = events[line - 1]
            if clause.startswith("pathline-raised-ValueError"):
                chk.skip("pathline-raised-ValueError (named deviation)")
                continue
            chk.violation(dict(level="trace", clause=clause, ev=e["ev"], fam=next((x.get("sc") for x in reversed(events[:line]) if x["tid"] == tid and x["ev"] == "Trace"), None)),
                          f"DriverTrace rejected call {line} (run {tid}, {e['ev']}): {clause}", dict(event=e))
        chk.cov["events"] = kinds
        need = ("Trace:None", "Step:None", "Step:ValueError", "Diag:None", "Save:None", "Reload:None", "Continue:None")
        if any(kinds.get(k, 0) == 0 for k in need):
            raise MachineryError(f"an event kind was never recorded: {kinds}")
        # negative controls: corrupted copies of the accepted trace must be rejected with the right clause
        good = [e for e in events]

        def corrupt(mut):
            bad = json.loads(json.dumps(good))
            mut(bad)
            rj, _ = validate(bad, d, "neg.ndjson")
            return [c for _, _, c in rj]

        def m_len(b):
            e = next(x for x in b if x["ev"] == "Step" and x["exc"] == "None")
            e["lens"]["en"] = [e["lens"]["en"][0] + 1, e["lens"]["en"][1]]

        def m_det(b):
            e = next(x for x in b if x["ev"] == "Step" and x["exc"] == "None")
            e["detdev_e9"] = 900000000

        def m_diag(b):
            e = next(x for x in b if x["ev"] == "Diag")
            e["nm"] -= 1

        def m_eq(b):
            e = next(x for x in b if x["ev"] == "Reload")
            e["equal"] = False

        def m_drop(b):
            i = next(i for i, x in enumerate(b) if x["ev"] == "Step" and x["exc"] == "None" and b[i + 1]["ev"] == "Diag")
            del b[i]

        if not chk.violations:
            chk.control("trace:snapshot-count", "not-one-snapshot-per-step" in corrupt(m_len))
            chk.control("trace:detF", "detF-differs-from-exp-int-trL" in corrupt(m_det))
            chk.control("trace:diagnostics-length", "diagnostics-not-one-value-per-snapshot" in corrupt(m_diag))
            chk.control("trace:reload", "reloaded-minerals-differ" in corrupt(m_eq))
            chk.control("trace:dropped-step", any(c in ("diagnostics-out-of-order", "step-index") for c in corrupt(m_drop)))
    chk.sample(dict(kind="run", calls=[(e["ev"], e["exc"]) for e in events if e["tid"] == 0]))
    return chk.finish(rule="runs of Driver.tla drawn by tlc -simulate, executed on the real library; every call's post-state compared; recorded calls validated by DriverTrace.tla", exhaustive=False)
