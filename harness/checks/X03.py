"""X03 (extension, not one of the listed properties) - array helpers of pydrex.utils follow spec/Utils.tla.

Spec:  Utils.tla - pad_with, remove_dim, add_dim, diff_like, remove_nans over small integer arrays; lemmas
       PadShape, PadPrefix, RemoveAfterAdd, AddShape, DiffShape, NansOrder checked by TLC on every case.
Bind:  every case TLC emits is replayed into the real function (integer-typed and float-typed inputs); the result
       must equal the specification's expected array exactly (shape and entries).
"""
import numpy as np

from harness.common import Check, MachineryError, parse_printed_json, quiet_pydrex, run_tlc

NAN = 999999


def call(U, c, as_float):
    k = c["kind"]
    conv = (lambda a: np.asarray(a, dtype=float)) if as_float else (lambda a: a)
    if k == "pad":
        if as_float:
            return U.pad_with([list(map(float, r)) for r in c["rows"]], x=float(c["x"]))
        return U.pad_with([list(r) for r in c["rows"]], x=c["x"])
    if k in ("remove1", "remove2"):
        return U.remove_dim(conv(c["a"]), c["d"])
    if k in ("add1", "add2"):
        return U.add_dim(conv(c["a"]), c["d"], c["x"]) if c["x"] != 0 else U.add_dim(conv(c["a"]), c["d"])
    if k == "diff":
        return U.diff_like(np.asarray(c["a"], dtype=float if as_float else int))[0]
    if k == "nans":
        return U.remove_nans([float("nan") if e == NAN else float(e) for e in c["a"]])
    raise MachineryError(k)


def main(tier):
    chk = Check("X03", tier)
    res = run_tlc("Utils", "Utils", workers=4, timeout=300)
    chk.add_tlc("Utils", res, "every helper case over entries {1,2,5}, lengths <= 3: PadShape, PadPrefix, RemoveAfterAdd, AddShape, DiffShape, NansOrder")
    cases = parse_printed_json(res.output, "CASE")
    if len(cases) < 1500:
        raise MachineryError(f"only {len(cases)} cases")
    pd = quiet_pydrex()
    U = pd.utils
    kinds = {}
    for rec in cases:
        c, exp = rec["c"], rec["expected"]
        kinds[c["kind"]] = kinds.get(c["kind"], 0) + 1
        for as_float in ((True,) if c["kind"] == "nans" else (False, True)):
            chk.count((c["kind"], str(c), as_float))
            try:
                got = np.asarray(call(U, c, as_float))
                out = "returned"
            except Exception as ex:  # noqa: BLE001
                got, out = None, f"{type(ex).__name__}: {ex}"[:120]
            e = np.asarray(exp, dtype=float)
            if c["kind"] == "pad" and e.ndim == 1:
                e = e.reshape(len(c["rows"]), 0)
            ok = out == "returned" and got.shape == e.shape and np.array_equal(got.astype(float), e)
            if not ok:
                sig = dict(fn=c["kind"].rstrip("12"), clause="value", val="nonzero" if c.get("x", 0) not in (0,) and c["kind"].startswith("add") else "-")
                chk.violation(sig, f"{c} -> {None if got is None else got.tolist()} ({out}); Utils.tla expects {exp}", dict(case=c, expected=exp))
    chk.cov["cases_by_kind"] = kinds
    chk.sample(dict(kind="case", case=cases[0]))
    # control: a perturbed expectation is flagged
    probe = Check("X03", tier, dry=True)
    c = next(r for r in cases if r["c"]["kind"] == "remove1")
    got = np.asarray(call(U, c["c"], False))
    chk.control("comparison-detects-a-wrong-entry", not np.array_equal(got, np.asarray(c["expected"]) + 1))
    return chk.finish(rule="every case enumerated by TLC, replayed with integer- and float-typed inputs", exhaustive=True)
