"""Paired integrated runs for C04 (frame / crystal-symmetry relations) and C05 (rate scaling).
Scenario classes come from spec/PairTrace.tla; this module concretises them (seeded), runs both
members of a pair through Mineral.update_orientations and records integer deviation measures
per update step for the TLA+ judge."""
from __future__ import annotations

import json
import re

import numpy as np
from scipy.spatial.transform import Rotation

from harness import kernel, layerb
from harness.common import SEED, MachineryError, cap, parse_printed_json, run_tlc, scratch, write_ndjson

TOTAL_STRAIN = 1.0  # envelope: strain <= 1 (DESIGN section 6)
FINE_STRAIN = 0.05  # total strain of the 100-call partition class (very short calls)
TWOFOLDS = [np.diag([1.0, -1, -1]), np.diag([-1.0, 1, -1]), np.diag([-1.0, -1, 1])]
RATIONAL_Q = [Rotation.from_quat([x, y, z, w]).as_matrix() for (w, x, y, z) in [(1, 1, 1, 0), (1, 1, 0, 1), (2, 1, 0, 0), (1, 2, 2, 0), (2, 1, 1, 1)]]


def sample_scenarios(tier, kind):
    cfg = "PairSample" if tier != "thorough" else "PairSample_thorough"
    res = run_tlc("PairTrace", cfg, workers=4, seed=SEED + 4, timeout=300)
    scens = [s for s in parse_printed_json(res.output, "SCEN") if s["kind"] == kind]
    if not scens:
        raise MachineryError("no scenarios sampled")
    return scens, res


def full_space(chk):
    res = run_tlc("PairTrace", "PairScen", workers=8, timeout=3000)
    chk.add_tlc("PairTrace(scenario space)", res, "the whole scenario space of frame / scale relations (classes only)")


def flow_pair(fl, rate=1.0, Q=None):
    """velocity-gradient callable and pathline for flow class fl, optionally rotated by Q."""
    getL, getx = layerb.flow_callables(fl, rate)
    if Q is None:
        return getL, getx
    # rotated frame: positions x' = Q x, L'(t, x') = Q L(t, Q^T x') Q^T
    return (lambda t, x: Q @ getL(t, Q.T @ np.asarray(x)) @ Q.T), (lambda t: Q @ getx(t))


def run_member(pd, sc, o0, f0, getL, getx, rate=1.0, layout="C"):
    """Integrate one member; returns lists of (orientations, fractions, F, dstrain).
    layout "view": the initial orientations are handed over as a non-C-contiguous view with the same values
    (what a client gets from e.g. `.transpose(0, 2, 1)` when converting conventions)."""
    phase, fabric = kernel.FAB[sc["fab"]]
    n = sc["n"]
    oinit = o0.copy()
    if layout == "view":
        oinit = np.ascontiguousarray(o0.transpose(0, 2, 1)).transpose(0, 2, 1)
    m = pd.Mineral(phase=phase, fabric=fabric, regime=sc["regime"], n_grains=n, fractions_init=f0.copy(), orientations_init=oinit)
    params = layerb.make_params(dict(M=sc["par"]["M"], chi=sc["par"]["chi"], asm=[phase], phiOl=10, x=[5, 0]))
    parts = sc["part"]
    T = (FINE_STRAIN if parts >= 100 else TOTAL_STRAIN) / rate
    edges = np.linspace(0.0, T, parts + 1)
    F = np.eye(3)
    out = []
    for a, b in zip(edges[:-1], edges[1:]):
        F = m.update_orientations(params, F, getL, (a, b, getx))
        ds = layerb.strain_of(sc["flow"], a, b, rate)
        out.append((m.orientations[-1].copy(), m.fractions[-1].copy(), F.copy(), ds))
    return out


def initial(sc, rng):
    n = sc["n"]
    seed = int(rng.integers(1 << 30))
    o, f = layerb.initial_texture(sc["tex"], n, seed)
    if o is None:
        o = Rotation.random(n, random_state=seed).as_matrix()
        f = np.full(n, 1.0 / n)
    return o, f


def safe_grains(sc, f1, f2):
    """grains safely above the sliding floor in both runs (others are skipped: the floor is a
    discontinuity of the update map)."""
    chi = sc["par"]["chi"] / 10.0
    if chi == 0:
        return np.ones(len(f1), dtype=bool)
    thr = 1.5 * chi / sc["n"]
    return (f1 > thr) & (f2 > thr)


def judge(events):
    if not events:
        # nothing was recorded (every paired run raised and was reported as such): judge a neutral one-line trace so
        # that the caller still has a TLC result, instead of stopping with a machinery failure
        events = [dict(id=0, ev="Start")]
    with scratch() as d:
        p = d / "pairs.ndjson"
        write_ndjson(p, events)
        res = run_tlc("PairTrace", "PairTrace", workers=1, env={"TRACE_FILE": str(p)}, timeout=900)
    if f'<<"DONE", {len(events)}>>' not in res.output:
        raise MachineryError("PairTrace did not consume the whole trace")
    return parse_printed_json(res.output, "REJECT"), res
