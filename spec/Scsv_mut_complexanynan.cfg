SPECIFICATION Spec
CONSTANTS
  Thorough = FALSE
  Mutation = "complex-any-nan"
INVARIANT RoundTripLemma
INVARIANT MarkerUnambiguous
INVARIANT DomainNecessary
INVARIANT ValidLemma
INVARIANT NaturalLemma
INVARIANT SingleFaultLemma
INVARIANT TerseLemma
CHECK_DEADLOCK FALSE
