SPECIFICATION C17Spec
CONSTANTS
  Minerals = {a, b, c}
  Files = {f1, f2}
  Postfixes <- PfFamily
  Configs <- C17Configs
  Seeds = {1, 2}
  Textures = {"random", "nonuniform", "layout", "layoutc"}
  Flows = {"ss_xz", "gen3d"}
  Pars <- C17Pars
  Callbacks = {}
  FixedSavers = TRUE
  MaxUpd = 3
  MaxOps = 12
INVARIANT EmitAtEnd
CHECK_DEADLOCK FALSE
