SPECIFICATION C17Spec
CONSTANTS
  Minerals = {a, b, c}
  Files = {f1, f2}
  Postfixes = {"p", "q", "r"}
  Configs <- C17Configs
  Seeds = {1, 2}
  Textures = {"random", "nonuniform"}
  Flows = {"ss_xz", "gen3d"}
  Pars <- C17Pars
  Callbacks = {}
  MaxUpd = 3
  MaxOps = 12
INVARIANT EmitAtEnd
CHECK_DEADLOCK FALSE
