---- MODULE PyDRexC07 ----
\* Simulation configuration for C07: null forcing and rejections over every accepted
\* (phase, fabric, regime) triple, texture classes, flows and parameter classes.
EXTENDS PyDRex
Valid == {<<0, 0>>, <<0, 1>>, <<0, 2>>, <<0, 3>>, <<0, 4>>, <<1, 5>>}
C07Configs == {[phase |-> pf[1], fabric |-> pf[2], regime |-> r, n |-> n] :
                 pf \in Valid, r \in {0, 7, 4, 6, 1, 2, 3, 5, 8, -1}, n \in {3, 8}}
\* (invalid (phase, fabric) pairs are exhausted by DispatchTable; they are left out here so that
\*  the simulated machine is deterministic - the "either" class enables two actions at once)
C07Pars == {[M |-> m, chi |-> c, asm |-> a, phiOl |-> 7, x |-> <<5, 0>>] : m \in {0, 125}, c \in {0, 3, 9}, a \in {<<0, 1>>, <<1, 0>>}}
C07Next == \/ \E m \in Minerals :
                 \/ \E c \in Configs, s \in Seeds, tx \in Textures : Create(m, c, s, tx, InitO(s, c.n, tx), InitF(c.n, tx))
                 \/ UpdNext(m)
           \/ UpdAllNext
C07Spec == Init /\ [][C07Next]_vars
====
