----------------------------- MODULE PathTrace -----------------------------
(***************************************************************************)
(* Layer C (C18): pathlines of pydrex.pathlines.get_pathline.              *)
(*                                                                         *)
(* The module has two uses (two cfg files).                                *)
(*                                                                         *)
(* 1. SCENARIO SPACE (PathScen.cfg, PathScen_thorough.cfg).  Scenarios is  *)
(*    the space of calls the property quantifies over, as discrete         *)
(*    classes: flow family x ordered axis pair x (parameter class, box     *)
(*    class) x final-location class strictly inside the box (a cell of a   *)
(*    K x K partition of the box, or a rim strip 1e-4 / 1e-6 / 1e-9 of the *)
(*    box size from                                                        *)
(*    one side) x strain limit in {0.5, 1, 2, 5, 10} x regular_steps in    *)
(*    {None, 10, 50}.  The numbers that define parameters and boxes are    *)
(*    given here as n/d * 10^e.  TLC emits the selected scenarios (all of  *)
(*    them in the thorough tier; in the quick tier the sub-family cut out  *)
(*    by a linear congruence modulo a prime, shifted by VERIF_SEED, which  *)
(*    contains every pair of factor values); the harness draws the final   *)
(*    location inside its class, calls the real get_pathline and records   *)
(*    what happened.                                                       *)
(*                                                                         *)
(* 2. TRACE VALIDATION (PathTrace.cfg).  The recorded ndjson holds, per    *)
(*    pathline (field tid):                                                *)
(*      Call   scen, interior, out = "returned" | "ValueError" | "other:X" *)
(*             | "NoReturn" (the call used up 20 000 velocity evaluations, *)
(*             50 x what any returning call needs: it does not return)     *)
(*      Stamps nT, incr (timestamps strictly increasing), tLast0 (last     *)
(*             timestamp is 0), endDev_e12 = |x(0) - x_final| / box size   *)
(*             in 1e-12                                                    *)
(*      Seg k  (k = 1..NSeg, equal parts of the time span, oldest first)   *)
(*             ode_e6 = max |dx/dt - u(x)| / max |u| in 1e-6: central      *)
(*             differences on the interpolant at the middle of each of its *)
(*             steps, on the interior 96 % of the time span, where the     *)
(*             path is inside the box, excluding the step in which it      *)
(*             leaves the box (the integrated field is discontinuous       *)
(*             there),                                                     *)
(*             out_e6 = excursion outside the box / box size in 1e-6,      *)
(*             dStrain_e6 = tensorial strain accumulated over the part     *)
(*             (strain_increment of the gradient callable, inside the box) *)
(*      End                                                                *)
(*    The machine below consumes the lines in order.  It carries the       *)
(*    scenario of the open pathline and the strain accumulated so far      *)
(*    (its own variable acc, summed from the Seg lines) and judges, with   *)
(*    thresholds that are part of this text:                               *)
(*      pathline-returned       an interior final location always returns  *)
(*      timestamps-increasing   incr                                       *)
(*      ends-at-t0              tLast0                                     *)
(*      ends-at-final-location  endDev <= 1e-9                             *)
(*      follows-velocity        ODE residual <= 5e-2 in every part         *)
(*      inside-box              excursion <= 1e-3 in every part            *)
(*      strain-bound            acc <= 1.25 * strain limit of the scenario *)
(*    A line that no action explains is consumed by Malformed (harness     *)
(*    bug, reported as machinery failure, never as a violation).  Every    *)
(*    verdict is printed as <<"REJECT", tid, line, clause>>; the run       *)
(*    continues to the end of the file and prints <<"DONE", lines, bad,    *)
(*    pathlines>>.                                                         *)
(***************************************************************************)
EXTENDS Integers, Sequences, FiniteSets, TLC, Json, IOUtils

CONSTANT Tier          \* "quick" | "thorough"

VARIABLES l,           \* next line to consume
          phase,       \* "idle" | "called" | "stamped" | "segs"
          cur,         \* scenario of the open pathline
          acc,         \* tensorial strain accumulated over the Seg lines seen (1e-6)
          k,           \* number of Seg lines seen
          npath,       \* pathlines completed or refused
          bad          \* verdicts <<tid, line, clause>> of the last consumed line
tvars == <<l, phase, cur, acc, k, npath, bad>>

\* ------------------------------------------------------------------ scenario space
Num(n, d, e) == [n |-> n, d |-> d, e |-> e]                 \* n/d * 10^e
Fams == <<"simple_shear", "cell", "corner">>
AxisStrs == <<"XY", "XZ", "YX", "YZ", "ZX", "ZY">>
Lims == <<5, 10, 20, 50, 100>>                             \* strain limit in tenths
StepsSet == <<0, 10, 50>>                                  \* 0 = None (solver timestamps)
NSeg == 8
\* box: [hlo, hhi, vlo, vhi] along the horizontal/direction and vertical/plane axes, o = unused coordinate
Box(hlo, hhi, vlo, vhi, o) == [hlo |-> hlo, hhi |-> hhi, vlo |-> vlo, vhi |-> vhi, o |-> o]
\* (parameter class, box class) per family; amp = strain_rate | velocity_edge | plate_speed
Setups(fam) ==
    CASE fam = "simple_shear" -> <<
        [par |-> "geo", box |-> "sym", amp |-> Num(1, 1, -15), size |-> Num(0, 1, 0),
         b |-> Box(Num(-2, 1, 5), Num(2, 1, 5), Num(-2, 1, 5), Num(2, 1, 5), Num(0, 1, 0))],
        [par |-> "geo", box |-> "off", amp |-> Num(1, 1, -15), size |-> Num(0, 1, 0),
         b |-> Box(Num(0, 1, 0), Num(4, 1, 5), Num(-1, 1, 5), Num(3, 1, 5), Num(0, 1, 0))],
        [par |-> "unit", box |-> "sym", amp |-> Num(1, 1, 0), size |-> Num(0, 1, 0),
         b |-> Box(Num(-1, 1, 0), Num(1, 1, 0), Num(-1, 1, 0), Num(1, 1, 0), Num(7, 3, 0))],
        [par |-> "neg", box |-> "flat", amp |-> Num(-5, 2, -5), size |-> Num(0, 1, 0),
         b |-> Box(Num(-2, 1, 0), Num(2, 1, 0), Num(-1, 1, 0), Num(1, 1, 0), Num(0, 1, 0))],
        \* box limits that are not integers, around integer lattice points
        [par |-> "unit", box |-> "frac", amp |-> Num(1, 1, 0), size |-> Num(0, 1, 0),
         b |-> Box(Num(1, 2, 0), Num(7, 2, 0), Num(-3, 2, 0), Num(5, 2, 0), Num(0, 1, 0))] >>
      [] fam = "cell" -> <<
        [par |-> "unit", box |-> "full", amp |-> Num(1, 1, 0), size |-> Num(2, 1, 0),
         b |-> Box(Num(-1, 1, 0), Num(1, 1, 0), Num(-1, 1, 0), Num(1, 1, 0), Num(0, 1, 0))],
        [par |-> "unit", box |-> "inner", amp |-> Num(1, 1, 0), size |-> Num(2, 1, 0),
         b |-> Box(Num(-1, 2, 0), Num(1, 2, 0), Num(-1, 2, 0), Num(1, 2, 0), Num(0, 1, 0))],
        [par |-> "geo", box |-> "full", amp |-> Num(63, 10, -10), size |-> Num(1, 1, 5),
         b |-> Box(Num(-5, 1, 4), Num(5, 1, 4), Num(-5, 1, 4), Num(5, 1, 4), Num(0, 1, 0))],
        [par |-> "geo", box |-> "quadrant", amp |-> Num(63, 10, -10), size |-> Num(1, 1, 5),
         b |-> Box(Num(0, 1, 0), Num(5, 1, 4), Num(-5, 1, 4), Num(0, 1, 0), Num(0, 1, 0))],
        [par |-> "neg", box |-> "full", amp |-> Num(-1, 1, 0), size |-> Num(2, 1, 0),
         b |-> Box(Num(-1, 1, 0), Num(1, 1, 0), Num(-1, 1, 0), Num(1, 1, 0), Num(-5, 1, 0))] >>
      [] fam = "corner" -> <<
        [par |-> "unit", box |-> "wedge", amp |-> Num(1, 1, 0), size |-> Num(0, 1, 0),
         b |-> Box(Num(0, 1, 0), Num(5, 1, 0), Num(-1, 1, 0), Num(0, 1, 0), Num(0, 1, 0))],
        [par |-> "unit", box |-> "deep", amp |-> Num(1, 1, 0), size |-> Num(0, 1, 0),
         b |-> Box(Num(1, 2, 0), Num(5, 1, 0), Num(-5, 2, 0), Num(-1, 10, 0), Num(0, 1, 0))],
        [par |-> "geo", box |-> "wedge", amp |-> Num(63, 10, -10), size |-> Num(0, 1, 0),
         b |-> Box(Num(0, 1, 0), Num(1, 1, 6), Num(-2, 1, 5), Num(0, 1, 0), Num(0, 1, 0))],
        [par |-> "unit", box |-> "left", amp |-> Num(1, 1, 0), size |-> Num(0, 1, 0),
         b |-> Box(Num(-5, 1, 0), Num(0, 1, 0), Num(-1, 1, 0), Num(0, 1, 0), Num(0, 1, 0))],
        [par |-> "neg", box |-> "wedge", amp |-> Num(-2, 1, 0), size |-> Num(0, 1, 0),
         b |-> Box(Num(0, 1, 0), Num(5, 1, 0), Num(-1, 1, 0), Num(0, 1, 0), Num(0, 1, 0))] >>
K == IF Tier = "thorough" THEN 5 ELSE 4
\* final-location classes strictly inside the box: cell (i, j) of the K x K partition, or the strip at
\* 1e-4 of the box size from side s (1 = low h, 2 = high h, 3 = low v, 4 = high v)
\* (rim depth class j: 0 = 1e-4, 1 = 1e-6, 2 = 1e-9 of the box size - a final location may be arbitrarily close to
\* the face through which the flow enters or leaves and is still inside the box)
\* "int": a final location on the integer lattice strictly inside the box, handed over as an INTEGER-typed array
\* (i = 1) or as a plain list of Python ints (i = 2) - the same point as its float spelling
Locs == [kind : {"cell"}, i : 1..K, j : 1..K] \cup [kind : {"rim"}, i : 1..4, j : 0..2] \cup [kind : {"int"}, i : 1..2, j : {0}]
LocSeq == [n \in 1..(K * K + 14) |-> IF n <= K * K THEN [kind |-> "cell", i |-> ((n - 1) \div K) + 1, j |-> ((n - 1) % K) + 1]
                                       ELSE IF n <= K * K + 12 THEN [kind |-> "rim", i |-> ((n - K * K - 1) % 4) + 1, j |-> (n - K * K - 1) \div 4]
                                       ELSE [kind |-> "int", i |-> n - K * K - 12, j |-> 0]]
Scen(f, a, s, loc, li, st) ==
    [fam |-> Fams[f], axes |-> AxisStrs[a], par |-> Setups(Fams[f])[s].par, box |-> Setups(Fams[f])[s].box,
     loc |-> LocSeq[loc], lim_e1 |-> Lims[li], steps |-> StepsSet[st]]
\* quick tier: the scenarios on a hyperplane of the index space modulo the prime Mod (every pair of
\* factor values occurs), shifted by the seed; thorough tier: all of them
Mod == IF Tier = "thorough" THEN 1 ELSE 37
Seed == IF "VERIF_SEED" \in DOMAIN IOEnv THEN atoi(IOEnv.VERIF_SEED) ELSE 0
Selected(x, sd) == (x[1] + 2 * x[2] + 3 * x[3] + 5 * x[4] + 7 * x[5] + 11 * x[6] + sd) % Mod = 0
NLoc == K * K + 14
NSetup == <<5, 5, 5>>
ASSUME \A f \in 1..3 : NSetup[f] = Len(Setups(Fams[f]))
AllIdx == {x \in (1..3) \X (1..6) \X (1..5) \X (1..NLoc) \X (1..5) \X (1..3) : x[3] <= NSetup[x[1]]}
SelectedIdx == LET sd == TLCEval(Seed % 37) IN {x \in AllIdx : Selected(x, sd)}
PairCovered == \A p \in 1..6, q \in 1..6 : p < q => {<<x[p], x[q]>> : x \in SelectedIdx} = {<<x[p], x[q]>> : x \in AllIdx}
ScenRec(x) == [scen |-> Scen(x[1], x[2], x[3], x[4], x[5], x[6]), amp |-> Setups(Fams[x[1]])[x[3]].amp,
               size |-> Setups(Fams[x[1]])[x[3]].size, b |-> Setups(Fams[x[1]])[x[3]].b, K |-> K]
InSpace(s) ==
    /\ \E f \in 1..3 : /\ s.fam = Fams[f]
                       /\ \E x \in 1..Len(Setups(Fams[f])) : Setups(Fams[f])[x].par = s.par /\ Setups(Fams[f])[x].box = s.box
    /\ \E a \in 1..6 : s.axes = AxisStrs[a]
    /\ \E n \in 1..(K * K + 14) : LocSeq[n] = [kind |-> s.loc.kind, i |-> s.loc.i, j |-> s.loc.j]
    /\ \E li \in 1..5 : s.lim_e1 = Lims[li]
    /\ \E st \in 1..3 : s.steps = StepsSet[st]

\* generator mode ------------------------------------------------------------------
ScenInit == /\ cur \in {ScenRec(x) : x \in SelectedIdx}
            /\ l = 0 /\ phase = "scenario" /\ acc = 0 /\ k = 0 /\ npath = 0 /\ bad = <<>>
ScenNext == UNCHANGED tvars
ScenEmit == PrintT(<<"SCEN", ToJson(cur)>>)
ScenInSpace == InSpace(cur.scen)
ASSUME ("TRACE_FILE" \in DOMAIN IOEnv) \/ PairCovered       \* checked once, in generator mode

\* trace mode ----------------------------------------------------------------------
TraceLog == IF "TRACE_FILE" \in DOMAIN IOEnv THEN ndJsonDeserialize(IOEnv.TRACE_FILE) ELSE <<>>
N == Len(TraceLog)
Ev == TraceLog[l]
Has(r, f) == f \in DOMAIN r
NoScen == [fam |-> "none"]

\* thresholds of the property statement
EndDevMax_e12 == 1000            \* 1e-9
OdeMax_e6 == 50000               \* 5e-2
OutMax_e6 == 1000                \* 1e-3
StrainMax_e6(lim_e1) == 125000 * lim_e1      \* 1.25 * (lim_e1 / 10) in 1e-6

Verdicts(S) == [n \in 1..Len(S) |-> <<Ev.tid, l, S[n]>>]
If(cond, clause) == IF cond THEN <<clause>> ELSE <<>>

TCall == /\ Ev.ev = "Call" /\ phase = "idle"
         /\ InSpace(Ev.scen)
         /\ cur' = Ev.scen /\ acc' = 0 /\ k' = 0
         /\ IF Ev.out = "returned"
            THEN phase' = "called" /\ npath' = npath /\ bad' = <<>>
            ELSE /\ phase' = "idle" /\ npath' = npath + 1
                 /\ bad' = Verdicts(If(Ev.interior, "pathline-returned:" \o Ev.out))
TStamps == /\ Ev.ev = "Stamps" /\ phase = "called"
           /\ phase' = "stamped" /\ UNCHANGED <<cur, acc, k, npath>>
           /\ bad' = Verdicts(If(~Ev.incr, "timestamps-increasing") \o If(~Ev.tLast0, "ends-at-t0")
                              \o If(Ev.endDev_e12 > EndDevMax_e12, "ends-at-final-location"))
TSeg == /\ Ev.ev = "Seg" /\ phase \in {"stamped", "segs"} /\ Ev.k = k + 1 /\ k < NSeg
        /\ phase' = "segs" /\ k' = k + 1 /\ acc' = acc + Ev.dStrain_e6 /\ UNCHANGED <<cur, npath>>
        /\ bad' = Verdicts(If(Ev.ode_e6 > OdeMax_e6, "follows-velocity") \o If(Ev.out_e6 > OutMax_e6, "inside-box"))
TEnd == /\ Ev.ev = "End" /\ phase = "segs" /\ k = NSeg
        /\ phase' = "idle" /\ npath' = npath + 1 /\ UNCHANGED <<cur, acc, k>>
        /\ bad' = Verdicts(If(acc > StrainMax_e6(cur.lim_e1), "strain-bound"))
Bound == TCall \/ TStamps \/ TSeg \/ TEnd
Malformed == /\ ~ENABLED Bound
             /\ bad' = <<<<Ev.tid, l, "malformed:" \o Ev.ev \o "-in-phase-" \o phase>>>>
             /\ phase' = (IF Ev.ev = "Call" /\ Has(Ev, "out") /\ Ev.out = "returned" THEN "called" ELSE "idle")
             /\ cur' = (IF Ev.ev = "Call" /\ Has(Ev, "scen") /\ Has(Ev.scen, "lim_e1") THEN Ev.scen ELSE cur)
             /\ acc' = 0 /\ k' = 0 /\ npath' = npath

TInit == l = 1 /\ phase = "idle" /\ cur = NoScen /\ acc = 0 /\ k = 0 /\ npath = 0 /\ bad = <<>>
TNext == /\ l <= N
         /\ l' = l + 1
         /\ (Bound \/ Malformed)
TSpec == TInit /\ [][TNext]_tvars

Report == /\ (IF bad # <<>> THEN PrintT(<<"REJECT", bad>>) ELSE TRUE)
          /\ (IF l = N + 1 THEN PrintT(<<"DONE", N, npath, phase>>) ELSE TRUE)
=============================================================================
