------------------------------ MODULE Geometry ------------------------------
(***************************************************************************)
(* Layer A / C20: coordinate conversions and pole-figure primitives.       *)
(*                                                                         *)
(* WHAT IS SPECIFIED (documented conventions of pydrex.geometry / stats)   *)
(*  1. Spherical coordinates (r, phi, theta) of a point v = (x, y, z) # 0: *)
(*     phi = longitude/azimuth, theta = colatitude/inclination,            *)
(*       x = r sin(theta) cos(phi), y = r sin(theta) sin(phi),             *)
(*       z = r cos(theta),  r > 0, theta in [0, pi], phi mod 2 pi.         *)
(*     Sign-pattern table over the 26 direction classes (signs of x, y, z) *)
(*     -> octant code of phi (0..7, even = on a quarter turn k*pi/2, odd = *)
(*     open quadrant), free on the z axis; colatitude code (0: theta = 0,  *)
(*     1: below pi/2, 2: = pi/2, 3: above pi/2, 4: = pi).  Exact values as *)
(*     terms for the generic evaluator (atan of a rational ratio plus      *)
(*     quarter turns; acos(z / sqrt(r^2))).                                *)
(*  2. poles(A, ref_axes, hkl): the crystal direction hkl expressed in the *)
(*     external frame is A^T.hkl / |hkl| (rows of A are the crystal axes   *)
(*     in external coordinates); ref_axes = "ab" returns the components    *)
(*     (a, b, c) with c the remaining letter (horizontal, vertical, up).   *)
(*  3. Lambert equal-area projection of a unit vector onto the unit disk   *)
(*     after folding onto the upper hemisphere:                            *)
(*       (X, Y) = sqrt((1 - |z|) / (x^2 + y^2)) (x, y), poles -> (0, 0);   *)
(*     the disk-to-sphere lifting it inverts:                              *)
(*       Lift(X, Y, s) = (X f, Y f, s (1 - R^2)), f = sqrt(2 - R^2).       *)
(*  4. point_density as a scenario model: kernel x axial x gridsteps x     *)
(*     data class x sample size x scalar weight, the clauses that apply    *)
(*     to each scenario and the law (DensityLaw) that judges the integer   *)
(*     measures the harness records (units of 1e-18, capped at 2e9).       *)
(*     Kamb counting-cap radius (Vollmer 1995): 1 - c s^2 / (n + s^2),     *)
(*     c = 1 axial, 2 otherwise, s = 10; its sign is the scenario's cap    *)
(*     class (only used to name scenario classes, never to excuse one).    *)
(*                                                                         *)
(* WHAT TLC CHECKS (invariants over every generated case; Geometry.cfg,    *)
(* Geometry_thorough.cfg)                                                  *)
(*   AzTableLemma    the octant code is the unique code whose cos/sin      *)
(*                   signs are (sign x, sign y); free iff x = y = 0        *)
(*   ColatLemma      sign(cos theta) = sign z; sin theta = 0 iff x = y = 0 *)
(*   RoundTripSq     (r sin cos)^2 = x^2, (r sin sin)^2 = y^2,             *)
(*                   (r cos)^2 = z^2 exactly with cos^2 theta = z^2/r^2,   *)
(*                   cos^2 phi = x^2/rho^2 (with the signs above this is   *)
(*                   ToCartesian o ToSpherical = id)                       *)
(*   RoundTripTrig   on vectors with rational r and rho (Pythagorean):     *)
(*                   ToCartesian(r, cos/sin phi, cos/sin theta) = v        *)
(*   PoleLemma       A is a rotation; |A^T hkl|^2 = |hkl|^2; A.(A^T hkl) = *)
(*                   hkl; the axes map is a permutation of 1..3; the       *)
(*                   emitted components have squared norm 1                *)
(*   LambertLemma    X^2 + Y^2 = 1 - |z| <= 1; X^2 y^2 = Y^2 x^2 (azimuth  *)
(*                   unchanged, signs kept); poles -> centre; folding      *)
(*   LiftLemma       |Lift|^2 = 1; Lambert(Lift(X, Y, s)) = (X, Y)         *)
(*   DensityScenarioLemma  clause set well formed; cap class = sign of the *)
(*                   exact Kamb radius                                     *)
(*   Emit            prints every case as JSON (tag CASE)                  *)
(* GeometryJudge.cfg: reads the ndjson of measures recorded from pydrex    *)
(* (IOEnv.TRACE_FILE), evaluates the law of the record's kind and prints   *)
(* one VERDICT (line, failing clauses) per record.                         *)
(***************************************************************************)
EXTENDS Mat3, Json, IOUtils

CONSTANTS SphB,        \* integer vectors (-SphB..SphB)^3 \ {0} for the spherical table
          TrigB,       \* search cube for vectors with rational r and rho
          PythB,       \* search cube for primitive Pythagorean quadruples (Lambert)
          DiskN,       \* disk grid (i/DiskN, j/DiskN) for the lifting
          PoleRots,    \* rotation set for poles
          GridSteps, DataN, DataClasses, Weights,  \* density scenario space
          BigDataN     \* large data sets on the default grid (101 steps): thousands of data, as a whole texture gives

VARIABLE case

\* ------------------------------------------------------------------ terms
TmQ(q) == <<"q", q>>
TmI(n) == <<"q", <<n, 1>>>>
TmAdd(a, b) == <<"add", a, b>>
TmSub(a, b) == <<"sub", a, b>>
TmMul(a, b) == <<"mul", a, b>>
TmDiv(a, b) == <<"div", a, b>>
TmSqrt(a) == <<"sqrt", a>>
TmAtan(a) == <<"atan", a>>
TmAcos(a) == <<"acos", a>>
\* k quarter turns = k * pi/2 = 2k * atan(1)
Quarter(k) == IF k = 0 THEN TmI(0) ELSE TmMul(TmI(2 * k), TmAtan(TmI(1)))
Sgn(n) == IF n > 0 THEN 1 ELSE IF n < 0 THEN -1 ELSE 0
IsSq(n) == \E k \in 0..64 : k * k = n
ISqrt(n) == CHOOSE k \in 0..64 : k * k = n
GCD3(a, b, c) == GCD(GCD(Abs(a), Abs(b)), Abs(c))

\* ------------------------------------------------------------------ 1. spherical coordinates
Signs == {-1, 0, 1}
Patterns == {p \in Signs \X Signs \X Signs : p # <<0, 0, 0>>}        \* the 26 direction classes
\* octant code of the azimuth from the signs of (x, y); 8 = free (on the z axis)
AzCode(sx, sy) == CASE sx = 1 /\ sy = 0 -> 0 [] sx = 1 /\ sy = 1 -> 1 [] sx = 0 /\ sy = 1 -> 2
                    [] sx = -1 /\ sy = 1 -> 3 [] sx = -1 /\ sy = 0 -> 4 [] sx = -1 /\ sy = -1 -> 5
                    [] sx = 0 /\ sy = -1 -> 6 [] sx = 1 /\ sy = -1 -> 7 [] sx = 0 /\ sy = 0 -> 8
\* colatitude code from the signs of (x, y, z)
ColatCode(p) == IF p[1] = 0 /\ p[2] = 0 THEN (IF p[3] > 0 THEN 0 ELSE 4)
                ELSE IF p[3] > 0 THEN 1 ELSE IF p[3] = 0 THEN 2 ELSE 3
\* independent description of the codes: signs of cos and sin on each arc
CosSignAz(c) == IF c \in {7, 0, 1} THEN 1 ELSE IF c \in {2, 6} THEN 0 ELSE -1
SinSignAz(c) == IF c \in {1, 2, 3} THEN 1 ELSE IF c \in {0, 4} THEN 0 ELSE -1
CosSignColat(c) == IF c \in {0, 1} THEN 1 ELSE IF c = 2 THEN 0 ELSE -1
SinZeroColat(c) == c \in {0, 4}
SphTable == [p \in Patterns |-> [az |-> AzCode(p[1], p[2]), colat |-> ColatCode(p)]]

PatOf(v) == <<Sgn(v[1]), Sgn(v[2]), Sgn(v[3])>>
Rho2(v) == v[1] * v[1] + v[2] * v[2]
R2(v) == Rho2(v) + v[3] * v[3]
\* azimuth term: quarter turns plus/minus atan of a positive rational ratio
PhiTerm(x, y) ==
  CASE y = 0 /\ x > 0 -> Quarter(0)
    [] x > 0 /\ y > 0 -> TmAtan(TmQ(QNorm(y, x)))
    [] x = 0 /\ y > 0 -> Quarter(1)
    [] x < 0 /\ y > 0 -> TmSub(Quarter(2), TmAtan(TmQ(QNorm(y, -x))))
    [] x < 0 /\ y = 0 -> Quarter(2)
    [] x < 0 /\ y < 0 -> TmAdd(Quarter(2), TmAtan(TmQ(QNorm(-y, -x))))
    [] x = 0 /\ y < 0 -> Quarter(3)
    [] x > 0 /\ y < 0 -> TmSub(Quarter(4), TmAtan(TmQ(QNorm(-y, x))))
    [] x = 0 /\ y = 0 -> Quarter(0)            \* free: any azimuth is correct
ThetaTerm(v) == TmAcos(TmDiv(TmI(v[3]), TmSqrt(TmI(R2(v)))))
RTerm(v) == TmSqrt(TmI(R2(v)))

Cube(B) == {v \in (-B..B) \X (-B..B) \X (-B..B) : v # <<0, 0, 0>>}
TrigVecs == {v \in Cube(TrigB) : Rho2(v) > 0 /\ IsSq(Rho2(v)) /\ IsSq(R2(v))}
SphVecs == Cube(SphB) \cup TrigVecs
SphCase(v) == [kind |-> "sph", v |-> v, pat |-> PatOf(v), az |-> SphTable[PatOf(v)].az,
               colat |-> SphTable[PatOf(v)].colat, r2 |-> R2(v),
               rT |-> RTerm(v), phiT |-> PhiTerm(v[1], v[2]), thetaT |-> ThetaTerm(v)]
\* float concretisation classes: pattern x scale exponent (harness draws magnitudes)
SphFloatCase(p, e) == [kind |-> "sphf", pat |-> p, scale10 |-> e, az |-> SphTable[p].az, colat |-> SphTable[p].colat]

AzTableLemma ==
  case.kind \in {"sph", "sphf"} =>
    LET p == case.pat c == case.az IN
      /\ (c = 8) <=> (p[1] = 0 /\ p[2] = 0)
      /\ c # 8 => /\ CosSignAz(c) = p[1] /\ SinSignAz(c) = p[2]
                  /\ \A d \in 0..7 : (CosSignAz(d) = p[1] /\ SinSignAz(d) = p[2]) => d = c
ColatLemma ==
  case.kind \in {"sph", "sphf"} =>
    LET p == case.pat c == case.colat IN
      /\ CosSignColat(c) = p[3]
      /\ SinZeroColat(c) <=> (p[1] = 0 /\ p[2] = 0)
RoundTripSq ==
  case.kind = "sph" =>
    LET v == case.v  r2 == Q(R2(v))  rho2 == Q(Rho2(v))
        c2 == QDiv(Q(v[3] * v[3]), r2)            \* cos^2 theta
        s2 == QSub(QOne, c2)                      \* sin^2 theta
    IN /\ s2 = QDiv(rho2, r2)
       /\ QMul(r2, c2) = Q(v[3] * v[3])
       /\ IF Rho2(v) = 0 THEN s2 = QZ
          ELSE /\ QMul(QMul(r2, s2), QDiv(Q(v[1] * v[1]), rho2)) = Q(v[1] * v[1])
               /\ QMul(QMul(r2, s2), QDiv(Q(v[2] * v[2]), rho2)) = Q(v[2] * v[2])
               /\ QAdd(QDiv(Q(v[1] * v[1]), rho2), QDiv(Q(v[2] * v[2]), rho2)) = QOne
RoundTripTrig ==
  (case.kind = "sph" /\ case.v \in TrigVecs) =>
    LET v == case.v  r == ISqrt(R2(v))  rho == ISqrt(Rho2(v))
        ct == QNorm(v[3], r)  st == QNorm(rho, r)  cp == QNorm(v[1], rho)  sp == QNorm(v[2], rho)
    IN /\ QAdd(QMul(ct, ct), QMul(st, st)) = QOne /\ QAdd(QMul(cp, cp), QMul(sp, sp)) = QOne
       /\ QSign(st) >= 0 /\ QSign(ct) = case.pat[3] /\ QSign(cp) = case.pat[1] /\ QSign(sp) = case.pat[2]
       /\ <<QMul(Q(r), QMul(st, cp)), QMul(Q(r), QMul(st, sp)), QMul(Q(r), ct)>> = <<Q(v[1]), Q(v[2]), Q(v[3])>>

\* ------------------------------------------------------------------ 2. poles
\* crystal directions: the principal axes and their NEGATIVES (a direction, not an axis: [-1 0 0] is the antipode
\* of [1 0 0]), non-unit principal directions, face and body diagonals, a generic direction, mixed signs
HKLs == {<<1, 0, 0>>, <<0, 1, 0>>, <<0, 0, 1>>, <<1, 1, 0>>, <<1, 1, 1>>, <<1, 2, 3>>,
         <<-1, 0, 0>>, <<0, -3, 0>>, <<0, 0, -1>>, <<0, 2, 0>>, <<1, -1, 0>>, <<-1, 2, -3>>}
AxesStrings == {"xy", "xz", "yx", "yz", "zx", "zy"}
Letter(s) == CASE s = "x" -> 1 [] s = "y" -> 2 [] s = "z" -> 3
\* ref_axes "ab": returned (xvals, yvals, zvals) = components (a, b, remaining letter)
AxesFirst(s) == CASE s \in {"xy", "xz"} -> "x" [] s \in {"yx", "yz"} -> "y" [] s \in {"zx", "zy"} -> "z"
AxesSecond(s) == CASE s \in {"yx", "zx"} -> "x" [] s \in {"xy", "zy"} -> "y" [] s \in {"xz", "yz"} -> "z"
AxesPerm(s) == LET a == Letter(AxesFirst(s)) b == Letter(AxesSecond(s)) IN <<a, b, 6 - a - b>>
HklVec(h) == [i \in I3 |-> Q(h[i])]
HklN2(h) == h[1] * h[1] + h[2] * h[2] + h[3] * h[3]
PoleDir(A, h) == MVec(MT(A), HklVec(h))                         \* A^T . hkl (not normalised)
PoleTerm(q, n2) == IF IsSq(n2) THEN TmQ(QDiv(q, Q(ISqrt(n2)))) ELSE TmDiv(TmQ(q), TmSqrt(TmI(n2)))
PoleCase(A, h, s) ==
  LET d == TLCEval(PoleDir(A, h))  n2 == HklN2(h)  pm == AxesPerm(s) IN
    [kind |-> "pole", A |-> MatToSeq(A), hkl |-> h, axes |-> s, perm |-> pm, n2 |-> n2,
     dir |-> <<d[1], d[2], d[3]>>,
     exp |-> <<PoleTerm(d[pm[1]], n2), PoleTerm(d[pm[2]], n2), PoleTerm(d[pm[3]], n2)>>]
\* float concretisation classes: hkl x axes (harness draws random orientation sets)
PoleFloatCase(h, s) == [kind |-> "polef", hkl |-> h, axes |-> s, perm |-> AxesPerm(s), n2 |-> HklN2(h)]
Mat(c) == [i \in I3 |-> [j \in I3 |-> c.A[i][j]]]
PoleLemma ==
  /\ case.kind \in {"pole", "polef"} =>
       /\ {case.perm[1], case.perm[2], case.perm[3]} = I3
       /\ case.perm[1] = Letter(AxesFirst(case.axes)) /\ case.perm[2] = Letter(AxesSecond(case.axes))
       /\ case.n2 > 0
  /\ case.kind = "pole" =>
       LET A == Mat(case)  d == [i \in I3 |-> case.dir[i]] IN
         /\ IsRotation(A)
         /\ VDot(d, d) = Q(case.n2)                              \* rotation keeps |hkl|
         /\ MVec(A, d) = HklVec(case.hkl)                        \* it IS hkl, seen from the crystal
         /\ QDiv(VDot(d, d), Q(case.n2)) = QOne                  \* emitted components: unit vector

\* ------------------------------------------------------------------ 3. Lambert equal-area
PythVecs == {v \in Cube(PythB) : IsSq(R2(v)) /\ GCD3(v[1], v[2], v[3]) = 1}
\* squared projected coordinates of the rational unit vector u = (x, y, z)
LamK2(u) == QDiv(QSub(QOne, QAbs(u[3])), QAdd(QMul(u[1], u[1]), QMul(u[2], u[2])))   \* x, y not both 0
IsPole(u) == u[1] = QZ /\ u[2] = QZ
LamX2(u) == IF IsPole(u) THEN QZ ELSE QMul(LamK2(u), QMul(u[1], u[1]))
LamY2(u) == IF IsPole(u) THEN QZ ELSE QMul(LamK2(u), QMul(u[2], u[2]))
SignedSqrtTerm(s, q2) == IF s = 0 \/ q2 = QZ THEN TmI(0) ELSE TmMul(TmI(s), TmSqrt(TmQ(q2)))
LamCase(v) ==
  LET d == ISqrt(R2(v))  u == <<QNorm(v[1], d), QNorm(v[2], d), QNorm(v[3], d)>> IN
    [kind |-> "lam", u |-> u, pat |-> PatOf(v), pole |-> IsPole(u), oneMinusAbsZ |-> QSub(QOne, QAbs(u[3])),
     X2 |-> LamX2(u), Y2 |-> LamY2(u),
     XT |-> SignedSqrtTerm(Sgn(v[1]), LamX2(u)), YT |-> SignedSqrtTerm(Sgn(v[2]), LamY2(u))]
LamFloatCase(p) == [kind |-> "lamf", pat |-> p, pole |-> (p[1] = 0 /\ p[2] = 0), near |-> 0]
\* directions close to a pole but not on it (x, y of magnitude 10^-e, |z| -> 1): the projection is continuous
\* there - radius^2 = 1 - |z| > 0 and the azimuth is that of (x, y) - however small the offset
NearPolePatterns == {p \in Patterns : p[3] # 0 /\ (p[1] # 0 \/ p[2] # 0)}
LamNearPoleCase(p, e) == [kind |-> "lamf", pat |-> p, pole |-> FALSE, near |-> e]
LambertLemma ==
  case.kind = "lam" =>
    LET u == case.u  um == <<u[1], u[2], QNeg(u[3])>> IN
      /\ VDot([i \in I3 |-> u[i]], [i \in I3 |-> u[i]]) = QOne
      /\ QAdd(case.X2, case.Y2) = QSub(QOne, QAbs(u[3]))          \* squared radius 1 - |z|
      /\ QLe(QAdd(case.X2, case.Y2), QOne) /\ QLe(QZ, case.X2) /\ QLe(QZ, case.Y2)
      /\ QMul(case.X2, QMul(u[2], u[2])) = QMul(case.Y2, QMul(u[1], u[1]))    \* azimuth unchanged
      /\ (case.X2 = QZ) <=> (u[1] = QZ \/ QAbs(u[3]) = QOne)
      /\ case.pole => (case.X2 = QZ /\ case.Y2 = QZ)               \* poles -> centre
      /\ LamX2(um) = case.X2 /\ LamY2(um) = case.Y2                 \* hemisphere folding
\* disk-to-sphere lifting
DiskPts == {p \in (-DiskN..DiskN) \X (-DiskN..DiskN) : p[1] * p[1] + p[2] * p[2] <= DiskN * DiskN}
LiftCase(p, s) ==
  LET X == QNorm(p[1], DiskN)  Y == QNorm(p[2], DiskN)  rr == QAdd(QMul(X, X), QMul(Y, Y))
      f2 == QSub(Q(2), rr)  z == QMul(Q(s), QSub(QOne, rr)) IN
    [kind |-> "lift", X |-> X, Y |-> Y, s |-> s, R2 |-> rr, f2 |-> f2, z |-> z,
     xT |-> TmMul(TmQ(X), TmSqrt(TmQ(f2))), yT |-> TmMul(TmQ(Y), TmSqrt(TmQ(f2))), zT |-> TmQ(z)]
LiftLemma ==
  case.kind = "lift" =>
    LET x2 == QMul(QMul(case.X, case.X), case.f2)  y2 == QMul(QMul(case.Y, case.Y), case.f2) IN
      /\ QAdd(QAdd(x2, y2), QMul(case.z, case.z)) = QOne          \* the lifted point is on the sphere
      /\ QSub(QOne, QAbs(case.z)) = case.R2                        \* Lambert radius of the lift
      /\ case.R2 # QZ =>
           LET k2 == QDiv(QSub(QOne, QAbs(case.z)), QAdd(x2, y2)) IN
             /\ QMul(k2, x2) = QMul(case.X, case.X) /\ QMul(k2, y2) = QMul(case.Y, case.Y)
      /\ QLt(QZ, case.f2)                                          \* sign of X, Y kept by the lift

\* ------------------------------------------------------------------ 4. point density
Kernels == {"kamb_count", "schmidt_count", "exponential_kamb", "linear_inverse_kamb", "square_inverse_kamb"}
KambKernels == {"kamb_count", "linear_inverse_kamb", "square_inverse_kamb"}
Sigma2 == 100                                                      \* default smoothing sigma = 10
KambRadius(n, axial) == QSub(QOne, QNorm((IF axial THEN 1 ELSE 2) * Sigma2, n + Sigma2))
CapClass(k, n, axial) == IF k \in KambKernels
                         THEN (CASE QSign(KambRadius(n, axial)) = 1 -> "pos"
                                 [] QSign(KambRadius(n, axial)) = 0 -> "zero"
                                 [] OTHER -> "neg")
                         ELSE IF k = "schmidt_count" THEN "fixed" ELSE "none"
DensityClauses(axial) == {"finite", "nonneg", "disk", "mean", "order"} \cup (IF axial THEN {"sign"} ELSE {})
DensCase(k, ax, g, dc, n, w) ==
  [kind |-> "dens", kernel |-> k, axial |-> ax, gridsteps |-> g, data |-> dc, n |-> n, weight |-> w,
   cap |-> CapClass(k, n, ax), clauses |-> DensityClauses(ax)]
DensityScenarioLemma ==
  case.kind = "dens" =>
    /\ case.kernel \in Kernels /\ case.n >= 1 /\ case.gridsteps >= 1 /\ QSign(case.weight) = 1
    /\ ("sign" \in case.clauses) <=> case.axial
    /\ {"finite", "nonneg", "disk", "mean", "order"} \subseteq case.clauses
    /\ case.kernel \in KambKernels =>
         LET r == KambRadius(case.n, case.axial) IN
           /\ QLt(r, QOne)
           /\ (case.cap = "pos") <=> QLt(QZ, QMul(r, QSub(QOne, r)))   \* Kamb unit n r (1 - r) > 0  (n >= 1: sign of r (1 - r))
           /\ case.axial => case.cap = "pos"

\* ------------------------------------------------------------------ generator
GenInit ==
  \/ case \in {SphCase(v) : v \in SphVecs}
  \/ case \in {SphFloatCase(p, e) : p \in Patterns, e \in {-6, 0, 6}}
  \/ case \in {PoleCase(A, h, s) : A \in PoleRots, h \in HKLs, s \in AxesStrings}
  \/ case \in {PoleFloatCase(h, s) : h \in HKLs, s \in AxesStrings}
  \/ case \in {LamCase(v) : v \in PythVecs}
  \/ case \in {LamFloatCase(p) : p \in Patterns}
  \/ case \in {LamNearPoleCase(p, e) : p \in NearPolePatterns, e \in {2, 3, 4, 6}}
  \/ case \in {LiftCase(p, s) : p \in DiskPts, s \in {-1, 1}}
  \/ case \in {DensCase(k, ax, g, dc, n, w) : k \in Kernels, ax \in BOOLEAN, g \in GridSteps,
                                             dc \in DataClasses, n \in DataN, w \in Weights}
  \* whole textures: thousands of data on the default grid (every kernel, axial or not; an estimate assembled from
  \* partial sums over blocks of data must not depend on where the blocks fall)
  \/ case \in {DensCase(k, ax, 101, dc, n, QOne) : k \in Kernels, ax \in BOOLEAN, dc \in {"girdle", "cluster"}, n \in BigDataN}
GenNext == UNCHANGED case
Emit == PrintT(<<"CASE", ToJson(case)>>)
\* rotation sets for the cfg files
QuickRots == SmallRots
ThoroughRots == SmallRots \cup GenericRots(2)
\* "equator": directions exactly in the plane z = 0 (poles of grains rotated about the vertical of the figure only):
\* there the two hemispheres meet, and a datum and its antipode are both "upper" - the antipode is formed with plain
\* +0.0 components, the way a user would write it
AllDataClasses == {"uniform", "cluster", "girdle", "axes", "antipodal", "repeated", "equator"}
QuickWeights == {<<1, 1>>, <<3, 1>>}
ThoroughWeights == {<<1, 1>>, <<1, 2>>, <<3, 1>>}

\* ------------------------------------------------------------------ judge (Layer C on measures)
MLog == IF "TRACE_FILE" \in DOMAIN IOEnv THEN ndJsonDeserialize(IOEnv.TRACE_FILE) ELSE <<>>
Tol == 1000000                   \* 1e-12 in units of 1e-18
Has(r, k) == k \in DOMAIN r
Le(m, k) == (~Has(m, k)) \/ m[k] <= Tol
\* failing clauses of one record; e.m = integer measures, other fields = scenario class
SphLaw(e) ==
  LET m == e.m  p == <<e.pat[1], e.pat[2], e.pat[3]>>  t == SphTable[p] IN
    (IF m.nf_r = 0 THEN {} ELSE {"radius:nan"})
    \cup (IF m.nf_az = 0 THEN {} ELSE {"azimuth:nan"})
    \cup (IF m.nf_th = 0 THEN {} ELSE {"colatitude:nan"})
    \cup (IF m.nf_r = 0 /\ ~Le(m, "dr") THEN {"radius:value"} ELSE {})
    \cup (IF m.nf_az = 0 /\ t.az # 8 /\ ~Le(m, "daz") THEN {"azimuth:value"} ELSE {})
    \cup (IF m.nf_az = 0 /\ t.az # 8 /\ m.azc # t.az THEN {"azimuth:quadrant"} ELSE {})
    \cup (IF m.nf_th = 0 /\ ~Le(m, "dth") THEN {"colatitude:value"} ELSE {})
    \cup (IF m.nf_th = 0 /\ m.thc # t.colat THEN {"colatitude:side"} ELSE {})
    \cup (IF ~Le(m, "rt") THEN {"roundtrip"} ELSE {})
    \cup (IF ~Le(m, "cart") THEN {"to_cartesian"} ELSE {})
PoleLaw(e) ==
  LET m == e.m IN
    (IF m.nonfinite = 0 THEN {} ELSE {"pole:nan"})
    \cup (IF m.nonfinite = 0 /\ ~Le(m, "dev") THEN {"pole:value"} ELSE {})
    \cup (IF m.nonfinite = 0 /\ ~Le(m, "back") THEN {"pole:direction"} ELSE {})
    \cup (IF m.nonfinite = 0 /\ ~Le(m, "unit") THEN {"pole:unit"} ELSE {})
    \* the poles of an orientation set are a function of the set: a call that returns must leave the caller's
    \* array as it was (otherwise the next call on the same set answers a different question), and it must
    \* return for every in-memory representation of the same values (argmod: largest change of the argument)
    \cup (IF Has(m, "raised") /\ m.raised # 0 THEN {"pole:raised"} ELSE {})
    \cup (IF m.nonfinite = 0 /\ Has(m, "argmod") /\ m.argmod # 0 THEN {"pole:argument-modified"} ELSE {})
LamLaw(e) ==
  LET m == e.m IN
    (IF m.nonfinite = 0 THEN {} ELSE {"lambert:nan"})
    \cup (IF m.nonfinite = 0 /\ ~Le(m, "dev") THEN {"lambert:value"} ELSE {})
    \cup (IF m.nonfinite = 0 /\ ~Le(m, "r2") THEN {"lambert:radius"} ELSE {})
    \cup (IF m.nonfinite = 0 /\ (~Le(m, "cross") \/ (Has(m, "side") /\ m.side # 1)) THEN {"lambert:azimuth"} ELSE {})
    \cup (IF m.nonfinite = 0 /\ ~Le(m, "outside") THEN {"lambert:disk"} ELSE {})
    \cup (IF m.nonfinite = 0 /\ e.pole /\ ~Le(m, "centre") THEN {"lambert:centre"} ELSE {})
    \cup (IF m.nonfinite = 0 /\ ~Le(m, "inv") THEN {"lambert:inverse"} ELSE {})
DensityLaw(e) ==
  LET m == e.m IN
    IF m.nonfinite > 0 THEN {"finite"}
    ELSE (IF m.neg = 0 THEN {} ELSE {"nonneg"})
         \cup (IF m.outside <= Tol THEN {} ELSE {"disk"})
         \* grid mean 1 before clipping: exactly 1 when no estimate was clipped (all > 0),
         \* not below 1 otherwise (clipping negative estimates to 0 can only raise the mean)
         \cup (IF (IF m.minpos = 1 THEN m.meandev <= Tol ELSE m.meandef <= Tol) THEN {} ELSE {"mean"})
         \cup (IF m.order <= Tol THEN {} ELSE {"order"})
         \cup (IF e.axial /\ m.sign > Tol THEN {"sign"} ELSE {})
Verdict(e) == CASE e.kind \in {"sph", "sphf"} -> SphLaw(e)
                [] e.kind \in {"pole", "polef"} -> PoleLaw(e)
                [] e.kind \in {"lam", "lamf", "lift"} -> LamLaw(e)
                [] e.kind = "dens" -> DensityLaw(e)
JudgeInit == case \in {[kind |-> "judge", l |-> i] : i \in 1..Len(MLog)}
JudgeNext == UNCHANGED case
JudgeEmit == PrintT(<<"VERDICT", ToJson([l |-> case.l, bad |-> Verdict(MLog[case.l])])>>)
=============================================================================
