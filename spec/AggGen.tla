------------------------------- MODULE AggGen -------------------------------
(* C03, aggregate law, exact: df_g = phi M f_g (sum_h f_h E_h - E_g) over rationals, for      *)
(* volume vectors on the simplex grid (denominator D, zeros and one dominant grain included)   *)
(* and FREE rational energies.  Because the law is bilinear in (f, E) and the grid contains a  *)
(* basis, the zero-sum identity extends to all real energies and all f with sum f = 1.         *)
EXTENDS DRexRates
CONSTANTS D, MaxG
VARIABLE st
Energies == {QZ, <<1, 3>>, QOne, <<5, 2>>}
\* compositions of D into G non-negative parts, as sequences of rationals
RECURSIVE Comps(_, _)
Comps(total, parts) == IF parts = 1 THEN {<<total>>}
                       ELSE UNION {{<<k>> \o c : c \in Comps(total - k, parts - 1)} : k \in 0..total}
Vols(G) == {[g \in 1..G |-> QNorm(c[g], D)] : c \in Comps(D, G)}
Init == \E G \in 1..MaxG : \E f \in Vols(G) : st = [phase |-> "go", f |-> f]
Next == st.phase = "go" /\ \E E \in [1..Len(st.f) -> Energies] :
           st' = [phase |-> "case", f |-> st.f, E |-> E]
Spec == Init /\ [][Next]_st
Lemmas == st.phase = "case" =>
    \A phi \in {QOne, <<7, 10>>}, M \in {QZ, Q(125)} : AggLemmas(phi, M, st.f, st.E)
\* lumping lemma: every replication pattern with up to RepMax copies per grain
Lumping == st.phase = "case" =>
    \A r \in [1..Len(st.f) -> 1..3] : LumpLemma(<<7, 10>>, Q(125), st.f, st.E, r)
=============================================================================
