-------------------------------- MODULE Gbs --------------------------------
(***************************************************************************)
(* Layer A (C09): the grain-boundary-sliding floor of D-Rex, exactly.      *)
(*                                                                         *)
(* ApplyGbs(o, f, chi, prev, n) over rational volume vectors f (Rat.tla)   *)
(* and ABSTRACT orientation identifiers o, prev (any values; here          *)
(* <<"cur", g>> and <<"prev", g>>):                                        *)
(*     thr   = chi / n                                                     *)
(*     mask  = {g : f[g] < thr}                      (STRICT)              *)
(*     o'[g] = prev[g] for g in mask, o[g] otherwise                       *)
(*     fl[g] = thr     for g in mask, f[g] otherwise   (floor)             *)
(*     S     = sum fl                  (the sum BEFORE renormalisation)    *)
(*     f'[g] = fl[g] / S                               (renormalise)       *)
(* This is what the property statement of C09 says and what                *)
(* pydrex.utils.apply_gbs is meant to compute.                             *)
(*                                                                         *)
(* TLC is used as exhaustive evaluator and prover.  One initial state per  *)
(* case; a one-shot Next evaluates ApplyGbs (and its re-application) once  *)
(* per case on all workers and keeps the result in the state, the lemmas   *)
(* are invariants of the evaluated states (2 states per case).  A case is  *)
(* (n, volume vector k/D on the simplex grid with denominator D, INCLUDING *)
(* zeros, ties between grains and exact hits of the threshold, chi).       *)
(* Configurations:                                                         *)
(*   Gbs.cfg          n in 2..5, D = 12, chi in {0, 1/4, 1/3, 1/2, 9/10}   *)
(*                    (11895 cases)                                        *)
(*   Gbs_dyadic.cfg   n in {2, 4}, D = 16, chi in {0, 1/8, 1/4, 1/2, 3/4}: *)
(*                    all rationals are dyadic, so the float inputs of the *)
(*                    replay ARE the rationals and exact threshold hits    *)
(*                    really test the strict "<"      (4930 cases)         *)
(*   Gbs_thorough.cfg n in 2..6, D = 12 (42835 cases)                      *)
(*   Gbs_nonstrict.cfg  planted variant (mask by "<="): TLC must report    *)
(*                    LSelect violated (control of the lemma set).         *)
(*                                                                         *)
(* Lemmas checked by TLC as invariants on every case (Res = ApplyGbs of    *)
(* the case):                                                              *)
(*   LTypes     every output volume is a normalised rational >= 0          *)
(*   LSumOne    the output volumes sum to exactly 1                        *)
(*   LSelect    o'[g] = prev[g] iff f[g] < chi/n, else o'[g] = o[g]        *)
(*              (same grain index: no cross-grain mixing)                  *)
(*   LFloor     f'[g] * S = chi/n for floored grains ("floor volume        *)
(*              chi/n_grains before renormalisation"), f'[g] * S = f[g]    *)
(*              for the others                                             *)
(*   LRatio     unfloored grains keep their mutual ratios                  *)
(*              f'[g] f[h] = f'[h] f[g]                                    *)
(*   LSBound    1 <= S <= 1 + chi, S > 1 iff something was floored, and    *)
(*              never all grains are floored (chi < 1)                     *)
(*   LMinBound  min f' >= chi / (n (1 + chi))  -- the statement's "no      *)
(*              stored fraction is below chi/(n_grains*(1+chi))"           *)
(*   LOrder     weak order preserved: f[g] < f[h] => f'[g] <= f'[h],       *)
(*              f[g] = f[h] => f'[g] = f'[h]; strict among unfloored       *)
(*              grains; all floored grains equal                           *)
(*   LChiZero   chi = 0 => empty mask, f' = f, o' = o                      *)
(*   LReapply   the mask decision applied to the OUTPUT (same prev):       *)
(*              nothing floored => ApplyGbs is the identity on its output; *)
(*              otherwise every floored grain is floored again and keeps   *)
(*              prev (its renormalised volume chi/(n S) is again < chi/n), *)
(*              every orientation stays in {o'[g], prev[g]} and LMinBound  *)
(*              and LSumOne hold again.  Full idempotence does NOT hold    *)
(*              (a floored grain is below chi/n again after                *)
(*              renormalisation; an unfloored grain may be pushed under    *)
(*              it): the emitted field "reid" says whether the second      *)
(*              application reproduced the first, the harness counts the   *)
(*              witnesses.  What the statement claims is LMinBound.        *)
(* Emit prints every case with the exact expected output                   *)
(* (<<"CASE", json>>): the harness replays them into                       *)
(* pydrex.utils.apply_gbs.  "tie" = some f[g] equals chi/n exactly;        *)
(* "exact" = chi and chi/n are dyadic, i.e. the float computation of the   *)
(* threshold and of the tied volume is exact, so a tie case may be         *)
(* replayed; other tie cases stay spec-level.                              *)
(***************************************************************************)
EXTENDS Rat, Json

CONSTANTS NSet,      \* grain counts
          D,         \* denominator of the volume grid
          Chis,      \* set of rationals chi in [0, 1)
          Family,    \* label copied into the emitted cases
          Strict     \* TRUE = the specification; FALSE = planted non-strict mask

VARIABLES c,         \* the case: [n, num (numerators over D), chi]
          ph,        \* "case" (not evaluated yet) | "done"
          r          \* [f0, res, again]: the case's volumes, ApplyGbs of it, ApplyGbs of that
vars == <<c, ph, r>>

ChiGrid == {<<0, 1>>, <<1, 4>>, <<1, 3>>, <<1, 2>>, <<9, 10>>}
ChiDyadic == {<<0, 1>>, <<1, 8>>, <<1, 4>>, <<1, 2>>, <<3, 4>>}

\* all sequences of k naturals summing to total (ordered: ties and zeros included)
RECURSIVE Comps(_, _)
Comps(k, total) == IF k = 1 THEN {<<total>>}
                   ELSE UNION {{<<a>> \o t : t \in Comps(k - 1, total - a)} : a \in 0..total}

\* ------------------------------------------------------------------ the operator
Thr(chi, n) == QDiv(chi, Q(n))
Below(x, chi, n) == IF Strict THEN QLt(x, Thr(chi, n)) ELSE QLe(x, Thr(chi, n))
MaskOf(f, chi, n) == {g \in 1..n : Below(f[g], chi, n)}

ApplyGbs(o, f, chi, prev, n) ==
    LET thr == Thr(chi, n)
        m == MaskOf(f, chi, n)
        fl == TLCEval([g \in 1..n |-> IF g \in m THEN thr ELSE f[g]])
        S == QSumSeq(fl)
    IN [o |-> [g \in 1..n |-> IF g \in m THEN prev[g] ELSE o[g]],
        f |-> TLCEval([g \in 1..n |-> QDiv(fl[g], S)]),
        mask |-> m,
        S |-> S]

\* ------------------------------------------------------------------ the case
N == c.n
Chi == c.chi
G == 1..N
Cur == [g \in G |-> <<"cur", g>>]
Prev == [g \in G |-> <<"prev", g>>]
Floor == Thr(Chi, N)
MinBound == QDiv(Chi, QMul(Q(N), QAdd(QOne, Chi)))
\* evaluated ONCE per case by the one-shot Next (on all workers) and kept in the state:
\* TLC re-evaluates state-dependent definitions at every mention
Fc == r.f0
Res == r.res
Again == r.again

Init == /\ \E n \in NSet : \E x \in Chis : \E s \in Comps(n, D) : c = [n |-> n, num |-> s, chi |-> x]
        /\ ph = "case"
        /\ r = 0
Next == /\ ph = "case"
        /\ ph' = "done"
        /\ c' = c
        /\ r' = LET f0 == TLCEval([g \in G |-> QNorm(c.num[g], D)])
                    res == ApplyGbs(Cur, f0, Chi, Prev, N)
                IN [f0 |-> f0, res |-> res, again |-> ApplyGbs(res.o, res.f, Chi, Prev, N)]
Done == ph = "done"

\* ------------------------------------------------------------------ lemmas
LTypes == Done => \A g \in G : QIsRat(Res.f[g]) /\ QLe(QZ, Res.f[g])

LSumOne == Done => QSumSeq(Res.f) = QOne

LSelect == Done => \A g \in G : Res.o[g] = IF QLt(Fc[g], Floor) THEN <<"prev", g>> ELSE <<"cur", g>>

LFloor == Done => \A g \in G : QMul(Res.f[g], Res.S) = IF g \in Res.mask THEN Floor ELSE Fc[g]

LRatio == Done => \A g, h \in G \ Res.mask : QMul(Res.f[g], Fc[h]) = QMul(Res.f[h], Fc[g])

LSBound == Done =>
           /\ QLe(QOne, Res.S)
           /\ QLe(Res.S, QAdd(QOne, Chi))
           /\ (Res.mask # {} <=> QLt(QOne, Res.S))
           /\ Res.mask # G

LMinBound == Done => \A g \in G : QLe(MinBound, Res.f[g])

LOrder == Done =>
          /\ \A g, h \in G : /\ QLt(Fc[g], Fc[h]) => QLe(Res.f[g], Res.f[h])
                             /\ Fc[g] = Fc[h] => Res.f[g] = Res.f[h]
          /\ \A g, h \in G \ Res.mask : QLt(Fc[g], Fc[h]) => QLt(Res.f[g], Res.f[h])
          /\ \A g, h \in Res.mask : Res.f[g] = Res.f[h]

LChiZero == Done => (Chi = QZ => (Res.mask = {} /\ Res.f = Fc /\ Res.o = Cur))

LReapply == Done => LET r2 == Again IN
    /\ Res.mask = {} => r2.f = Res.f /\ r2.o = Res.o /\ r2.mask = {}
    /\ Res.mask \subseteq r2.mask
    /\ \A g \in Res.mask : r2.o[g] = Prev[g] /\ QLt(Res.f[g], Floor)
    /\ \A g \in G : r2.o[g] \in {Res.o[g], Prev[g]}
    /\ \A g \in G : QLe(MinBound, r2.f[g])
    /\ QSumSeq(r2.f) = QOne

\* ------------------------------------------------------------------ emission
IsPow2(d) == d \in {1, 2, 4, 8, 16, 32, 64, 128, 256, 512, 1024}
IsDyadic(q) == IsPow2(q[2])

Case == [fam |-> Family, n |-> N, D |-> D, num |-> c.num, chi |-> Chi, thr |-> Floor,
         mask |-> [g \in G |-> g \in Res.mask],
         S |-> Res.S,
         out |-> Res.f,
         tie |-> \E g \in G : Fc[g] = Floor,
         exact |-> IsDyadic(Chi) /\ IsDyadic(Floor),
         reid |-> Again.f = Res.f /\ Again.o = Res.o]

Emit == Done => PrintT(<<"CASE", ToJson(Case)>>)
=============================================================================
