INIT Init
NEXT Next
CHECK_DEADLOCK FALSE
CONSTANT PairQ2 <- PairQ2Quick
CONSTANT TricQuats <- TricQuatsQuick
CONSTANT NTric = 8
INVARIANT RotationsAreRotations
INVARIANT CountLemma
INVARIANT RotationLaw
INVARIANT NormPreserved
INVARIANT SymPreserved
INVARIANT GroupAction
INVARIANT TricVectorNorm
INVARIANT Emit
