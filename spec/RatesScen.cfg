INIT ScenInit
NEXT ScenNext
CONSTANTS
  Sizes = {1, 2, 50, 128, 1000, 1024, 3840, 12345}
INVARIANT EmitScen
CHECK_DEADLOCK FALSE
