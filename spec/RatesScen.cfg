INIT ScenInit
NEXT ScenNext
CONSTANTS
  Sizes = {1, 2, 50, 128, 1000, 1024, 3840, 8192, 12345, 24576}
INVARIANT EmitScen
CHECK_DEADLOCK FALSE
