INIT ScenInit
NEXT ScenNext
CONSTANTS
  Sizes = {1, 2, 50, 1000, 12345}
INVARIANT EmitScen
CHECK_DEADLOCK FALSE
