----------------------------- MODULE TensorsRot -----------------------------
(***************************************************************************)
(* C11 driver 3: rotation of 4th-order tensors by exact rotations          *)
(* R = QuatRot(q) (integer quaternions; SmallQuats = the 24 axis-aligned   *)
(* rotations + 16 with denominator 3; TricQuats = generic ones with        *)
(* denominators 3, 5, 7).  TLC proves                                      *)
(*   RotationsAreRotations  every R used is exactly orthonormal, det = +1; *)
(*   RotationLaw    the staged contraction Mat3!TRotate equals the direct  *)
(*                  transformation law T'_ijkl = R_ia R_jb R_kc R_ld T_abcd*)
(*                  on basis x SmallQuats and on the linearly independent  *)
(*                  triclinic members 1..21 x TricQuats;                   *)
(*   NormPreserved  |Rotate(T,R)|_F = |T|_F;                               *)
(*   SymPreserved   Rotate(T,R) keeps minor and major symmetries; Rotate   *)
(*                  by the identity is the identity;                       *)
(*   GroupAction    Rotate(Rotate(T,R1),R2) = Rotate(T, R2.R1), and        *)
(*                  rotating back with the transpose restores T, on        *)
(*                  basis x SmallQuats x PairQ2 (quick: 3 second rotations;*)
(*                  thorough: all 40 x 40);                                *)
(*   TricVectorNorm on triclinic matrices x SmallQuats-type rotations the  *)
(*                  21-vector of the rotated tensor has the same norm;     *)
(* and emits every (tensor, rotation) with the exact rotated tensor, every *)
(* pair with the exact product R2.R1.                                      *)
(***************************************************************************)
EXTENDS Tensors, Json
CONSTANTS PairQ2,      \* second rotations of the group-action lemma
          TricQuats,   \* rotations applied to the triclinic family
          NTric        \* size of the triclinic family used here
VARIABLE c
PairQ2Quick == {<<1, 1, 0, 0>>, <<1, 1, 1, 0>>, <<1, -1, 1, 1>>}
PairQ2All == SmallQuats
TricQuatsQuick == {<<1, 1, 1, 0>>, <<1, 1, -1, 1>>, <<2, 1, 0, 0>>, <<1, 0, -2, 0>>, <<2, 1, 1, 0>>,
                   <<1, -1, 0, 2>>, <<2, 1, 1, 1>>, <<1, 2, -1, 1>>}
TricQuatsAll == CanonQuats(2, {3, 5, 6, 7})

ClassQuats == {<<1, 0, 0, 0>>, <<1, 1, 0, 0>>, <<0, 0, 0, 1>>, <<1, 1, 1, 1>>, <<1, 0, 0, 1>>}
Init == \/ c \in {[kind |-> "seed", b |-> b, q |-> q] : b \in SymBasis, q \in SmallQuats}
        \/ c \in {[kind |-> "seedt", n |-> n] : n \in 1..NTric}
        \/ c \in {[kind |-> "seedc", n |-> 100 + k] : k \in 1..NClass}
Next == \/ /\ c.kind = "seed"
           /\ \/ c' = [kind |-> "single", b |-> c.b, q |-> c.q]
              \/ c' \in {[kind |-> "pair", b |-> c.b, q |-> c.q, q2 |-> q2] : q2 \in PairQ2}
        \/ /\ c.kind = "seedt"
           /\ c' \in {[kind |-> "tric", n |-> c.n, q |-> q] : q \in TricQuats}
        \* symmetry-class tensors in their standard frames: the identity, axis-aligned turns and generic rotations
        \/ /\ c.kind = "seedc"
           /\ c' \in {[kind |-> "tric", n |-> c.n, q |-> q] : q \in ClassQuats \cup TricQuatsQuick}

RotationsAreRotations == /\ c.kind = "seed" => IsRotation(QuatRot(c.q))
                         /\ c.kind = "seedt" => \A q \in TricQuats : IsRotation(QuatRot(q))
CountLemma == Cardinality(SmallQuats) = 40 /\ Cardinality(OctaQuats) = 24

Tof == IF c.kind = "tric" THEN C4(TricX(c.n)) ELSE C4(BasisMat6(c.b))
RotationLaw == (c.kind = "single" \/ (c.kind = "tric" /\ (c.n <= 21 \/ c.n > 100))) =>
    LET T == Tof R == MEval(QuatRot(c.q)) IN TRotate(T, R) = TDirect(T, R)
NormPreserved == (c.kind = "single" \/ (c.kind = "tric" /\ QuatNorm2(c.q) \in {1, 2, 3, 4})) =>
    LET T == Tof R == MEval(QuatRot(c.q)) IN TFrob2D(TRotate(T, R), 81) = TFrob2(T)
SymPreserved == c.kind \in {"single", "tric"} =>
    LET T == Tof R == MEval(QuatRot(c.q)) IN HasElasticSym(TRotate(T, R)) /\ TRotate(T, MId) = T
GroupAction == c.kind = "pair" =>
    LET T == Tof R1 == MEval(QuatRot(c.q)) R2 == MEval(QuatRot(c.q2)) TR == TRotate(T, R1) IN
    /\ TRotate(TR, R2) = TRotate(T, MEval(MMul(R2, R1)))
    /\ TRotate(TR, MEval(MT(R1))) = T
    /\ IsRotation(MMul(R2, R1))
TricVectorNorm == (c.kind = "tric" /\ QuatNorm2(c.q) \in {1, 2, 3, 4}) =>
    LET M == TricX(c.n) TR == TRotate(C4(M), MEval(QuatRot(c.q))) IN
    XNorm2D(Mat2Vec(Mat6(TR)), 81) = XNorm2(Mat2Vec(M))

Expected ==
    IF c.kind = "single"
    THEN [kind |-> "single", b |-> c.b, q |-> c.q, R |-> MatToSeq(QuatRot(c.q)),
          T |-> TensorSeq(TRotate(Tof, MEval(QuatRot(c.q))))]
    ELSE IF c.kind = "pair"
    THEN [kind |-> "pair", b |-> c.b, q |-> c.q, q2 |-> c.q2, R1 |-> MatToSeq(QuatRot(c.q)),
          R2 |-> MatToSeq(QuatRot(c.q2)), R21 |-> MatToSeq(MMul(QuatRot(c.q2), QuatRot(c.q)))]
    ELSE [kind |-> "tric", n |-> c.n, q |-> c.q, M |-> Mat6ToSeq(TricX(c.n)), R |-> MatToSeq(QuatRot(c.q)),
          T |-> TensorSeq(TRotate(Tof, MEval(QuatRot(c.q))))]
Emit == c.kind \in {"seed", "seedt", "seedc"} \/ PrintT(<<"CASE", ToJson(Expected)>>)
=============================================================================
