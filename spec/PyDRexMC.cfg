SPECIFICATION Spec
CONSTANTS
  Minerals = {a, b}
  Files = {f1}
  Postfixes = {"p", "q"}
  Configs <- MCConfigs
  Seeds = {1}
  Textures = {"random", "nonuniform"}
  Flows = {"zero", "ss_xz"}
  Pars <- MCPars
  Callbacks = {4, 2}
  MaxUpd = 2
  MaxOps = 5
VIEW View
INVARIANT ShapeOK
INVARIANT DiskWellFormed
INVARIANT FPathLen
PROPERTY NullForcing
PROPERTY AppendOnly
PROPERTY RefinesLaws
PROPERTY FailureAtomic
PROPERTY FailureAtomicSingle
PROPERTY RoundTrip
PROPERTY PostfixIsolation
CHECK_DEADLOCK FALSE
