SPECIFICATION Spec
CONSTANTS
  D = 12
  MaxG = 4
INVARIANT Lemmas
CHECK_DEADLOCK FALSE
