SPECIFICATION Spec
CONSTANTS
  D = 12
  MaxG = 4
INVARIANT Lemmas
INVARIANT Lumping
CHECK_DEADLOCK FALSE
