SPECIFICATION C08Spec
CONSTANTS
  Minerals = {"a", "b", "c"}
  Files = {"f1"}
  Postfixes = {}
  Configs = {}
  Seeds = {}
  Textures = {}
  Flows = {"ss_xz"}
  Pars <- C08Pars
  Callbacks = {}
  MaxUpd = 2
  MaxOps = 100
INVARIANT NonInterference
INVARIANT Twins
INVARIANT OwnFractionOnly
INVARIANT FPathLen
PROPERTY AppendOnly
PROPERTY RefinesLaws
CHECK_DEADLOCK FALSE
