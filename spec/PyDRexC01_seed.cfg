SPECIFICATION C01SeedSpec
CONSTANTS
  Minerals = {a, b}
  Files = {f1}
  Postfixes = {}
  Configs <- C01SeedConfigs
  Seeds = {0, 1, 2, 12345}
  Textures = {"random"}
  Flows = {}
  Pars = {}
  Callbacks = {}
  Ns = {2, 8, 50}
  MaxUpd = 0
  MaxOps = 2
INVARIANT EmitAtEnd
CHECK_DEADLOCK FALSE
