SPECIFICATION C08LifeSpec
CONSTANTS
  Minerals = {"a", "b", "c", "d"}
  Files = {"f1"}
  Postfixes = {}
  Configs = {}
  Seeds = {}
  Textures = {}
  Flows = {"ss_xz", "gen3d", "pure_xy"}
  Pars <- C08Pars
  Callbacks = {}
  MaxUpd = 4
  MaxOps = 11
INVARIANT EmitAtEnd
CHECK_DEADLOCK FALSE
