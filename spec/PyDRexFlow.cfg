SPECIFICATION FlowSpec
CONSTANTS
  Minerals = {a, b}
  Files = {f1}
  Postfixes = {}
  Configs <- FlowConfigs
  Seeds = {1}
  Textures = {"random"}
  Flows = {"ss_xz", "gen3d"}
  Pars <- FlowPars
  Callbacks = {}
  MaxUpd = 3
  MaxOps = 6
VIEW View
INVARIANT UnequalNeverAveraged
INVARIANT ShapeOK
PROPERTY AppendOnly
PROPERTY RefinesLaws
PROPERTY FailureAtomic
CHECK_DEADLOCK FALSE
