CONSTANTS
  D = 12
  MaxM = 5
  AllLayouts = FALSE
INIT TableInit
NEXT TableNext
INVARIANT FaultIffRejected
INVARIANT AcceptedIsCanonical
INVARIANT NonSquareTrailingRejected
INVARIANT SplitBoundExact
INVARIANT BoundSpots
INVARIANT EmitShape
CHECK_DEADLOCK FALSE
