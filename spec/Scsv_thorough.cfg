SPECIFICATION Spec
CONSTANTS
  Thorough = TRUE
  Mutation = "none"
INVARIANT RoundTripLemma
INVARIANT MarkerUnambiguous
INVARIANT DomainNecessary
INVARIANT ValidLemma
INVARIANT NaturalLemma
INVARIANT SingleFaultLemma
INVARIANT TerseLemma
INVARIANT Emit
CHECK_DEADLOCK FALSE
