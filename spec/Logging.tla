------------------------------ MODULE Logging -------------------------------
(***************************************************************************)
(* Extension beyond the listed properties: PyDRex's logging contexts.      *)
(*                                                                         *)
(* The library has one logger ("pydrex", level DEBUG) with a console       *)
(* handler, and two context managers:                                      *)
(*   pydrex.io.logfile_enable(stream_or_path, level) - attach a handler    *)
(*       for the duration of the context                                   *)
(*   pydrex.io.log_cli_level(level)                  - change the console  *)
(*       handler's level for the duration of the context                   *)
(* State: the attached handlers with their levels, the console level, the  *)
(* stack of open contexts, and what every sink has received so far.        *)
(* A record of level v is delivered to exactly the attached handlers whose *)
(* level is <= v.                                                          *)
(*                                                                         *)
(* Named deviation (what the code does, not an ideal): the context         *)
(* managers have no try/finally, so a context left by an exception does    *)
(* NOT detach its handler / restore the console level (ExitRaise).         *)
(* Balanced (ExitNormal) use restores the initial configuration.           *)
(***************************************************************************)
EXTENDS Integers, Sequences, FiniteSets, TLC, TLCExt, Json
CONSTANTS Sinks,       \* identifiers of file/stream sinks
          Levels,      \* numeric logging levels in use
          MaxDepth, MaxOps
VARIABLES attached,    \* [Sinks -> level or 0]   0 = not attached
          console,     \* console handler level
          stack,       \* open contexts: <<"file", sink>> or <<"level", previous console level>>
          got,         \* [Sinks \cup {"console"} -> Seq(message id)]
          leaked,      \* number of contexts left by an exception (their effect persists)
          nmsg, ops, log
vars == <<attached, console, stack, got, leaked, nmsg, ops, log>>
INFO == 20
Init == /\ attached = [s \in Sinks |-> 0] /\ console = INFO /\ stack = <<>>
        /\ got = [s \in Sinks \cup {"console"} |-> <<>>] /\ leaked = 0 /\ nmsg = 0 /\ ops = 0 /\ log = <<>>
Tick(e) == ops < MaxOps /\ ops' = ops + 1 /\ log' = Append(log, e)
EnterFile(s, lv) == /\ Tick([a |-> "EnterFile", sink |-> s, level |-> lv]) /\ Len(stack) < MaxDepth /\ attached[s] = 0
                    /\ attached' = [attached EXCEPT ![s] = lv] /\ stack' = Append(stack, <<"file", s>>)
                    /\ UNCHANGED <<console, got, leaked, nmsg>>
EnterLevel(lv) == /\ Tick([a |-> "EnterLevel", level |-> lv]) /\ Len(stack) < MaxDepth
                  /\ console' = lv /\ stack' = Append(stack, <<"level", console>>)
                  /\ UNCHANGED <<attached, got, leaked, nmsg>>
Top == stack[Len(stack)]
Pop == stack' = SubSeq(stack, 1, Len(stack) - 1)
ExitNormal == /\ Tick([a |-> "ExitNormal"]) /\ stack # <<>> /\ Pop
              /\ IF Top[1] = "file" THEN attached' = [attached EXCEPT ![Top[2]] = 0] /\ console' = console
                 ELSE console' = Top[2] /\ attached' = attached
              /\ UNCHANGED <<got, leaked, nmsg>>
\* named deviation: leaving the innermost context by an exception performs no clean-up
ExitRaise == /\ Tick([a |-> "ExitRaise"]) /\ stack # <<>> /\ Pop
             /\ leaked' = leaked + 1 /\ UNCHANGED <<attached, console, got, nmsg>>
Emit(lv) == /\ Tick([a |-> "Emit", level |-> lv, id |-> nmsg + 1]) /\ nmsg' = nmsg + 1
            /\ got' = [k \in Sinks \cup {"console"} |->
                         IF k = "console" THEN (IF console <= lv THEN Append(got[k], nmsg + 1) ELSE got[k])
                         ELSE (IF attached[k] # 0 /\ attached[k] <= lv THEN Append(got[k], nmsg + 1) ELSE got[k])]
            /\ UNCHANGED <<attached, console, stack, leaked>>
Next == \/ \E s \in Sinks, lv \in Levels : EnterFile(s, lv)
        \/ \E lv \in Levels : EnterLevel(lv) \/ Emit(lv)
        \/ ExitNormal \/ ExitRaise
Spec == Init /\ [][Next]_vars
\* ---- properties
\* balanced use restores the configuration: with no context left by an exception and no context open,
\* nothing is attached and the console is back at its initial level
BalancedRestores == (leaked = 0 /\ stack = <<>>) => (console = INFO /\ \A s \in Sinks : attached[s] = 0)
\* a sink only ever receives messages while attached, in emission order
InOrder == \A k \in Sinks \cup {"console"} : \A i, j \in 1..Len(got[k]) : i < j => got[k][i] < got[k][j]
\* an attached sink belongs to an open context or to a leaked one
AttachedAccounted == Cardinality({s \in Sinks : attached[s] # 0}) <= Len(stack) + leaked
View == <<attached, console, stack, got, leaked, nmsg>>
Project(st) == [attached |-> st.attached, console |-> st.console, got |-> st.got, depth |-> Len(st.stack),
                act |-> IF st.log = <<>> THEN <<>> ELSE st.log[Len(st.log)]]
EmitAtEnd == ops = MaxOps => (LET tr == Trace IN PrintT(<<"BEH", ToJson([i \in 1..Len(tr) |-> Project(tr[i])])>>))
=============================================================================
