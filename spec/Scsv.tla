------------------------------- MODULE Scsv -------------------------------
(***************************************************************************)
(* C16 - SCSV save/read round trip (decision model, Layer B).              *)
(*                                                                         *)
(* WHAT IS SPECIFIED                                                       *)
(*  * A schema: which of the three keys are present, a delimiter class, a  *)
(*    missing-marker class, 0..3 fields (name class, type, fill class,     *)
(*    fill form native/text/absent).  Valid(schema) = the documented       *)
(*    constraints, each one a named clause (Violated(s, d) returns the set *)
(*    of broken clauses; data clauses are judged only for a valid schema). *)
(*  * Abstract values per type.  Classes are tokens; two occurrences of    *)
(*    the same class in one case denote the SAME concrete value (the       *)
(*    harness concretises class -> value once per case), so "cell equals   *)
(*    fill" is decided here: EqVal = same class, NaN = NaN, 0.0 = -0.0,    *)
(*    complex componentwise.                                               *)
(*  * The text level: TextOf(value) (the cell's text after CSV quoting and *)
(*    unquoting, which are inverse and therefore not modelled further),    *)
(*    MarkerTok(missing);  Writes(v, field, missing) = the set of texts a  *)
(*    conforming writer may emit (the marker iff the cell equals the fill; *)
(*    for booleans either is allowed because both read back identically);  *)
(*    Read(text, field, missing) = fill if text is the marker else Parse.  *)
(*  * The representable domain Rep(v, missing): the cell's text differs    *)
(*    from the marker; strings have no surrounding white space / line      *)
(*    break (classes "padded", "multiline" are outside).                   *)
(*  * Expected(v, field): what a reader must return - the fill for a cell  *)
(*    equal to the fill (so -0.0 stored under fill 0.0 comes back as 0.0), *)
(*    the cell itself otherwise.                                           *)
(*  * The single-fault model: ApplyFault(base, fault) breaks exactly one   *)
(*    clause of a valid schema / data set; expected outcome SCSVError.     *)
(*                                                                         *)
(* LEMMAS CHECKED BY TLC (invariants, over every enumerated state)         *)
(*  RoundTripLemma     Read(w) = Expected(v) and EqVal(Expected(v), v) for *)
(*                     every representable v and every allowed write w     *)
(*  MarkerUnambiguous  the marker is written only for cells equal to fill  *)
(*  DomainNecessary    a non-representable cell (text = marker, differs    *)
(*                     from the fill) is NOT read back: the domain         *)
(*                     restriction is needed, not decoration               *)
(*  ValidLemma         every enumerated "valid" case breaks no clause      *)
(*  NaturalLemma       delimiter/marker class pairs that collide by nature *)
(*                     (blank marker, blank delimiter) break exactly the   *)
(*                     delimiter-not-in-missing clause                     *)
(*  SingleFaultLemma   every enumerated fault case breaks exactly the one  *)
(*                     clause the fault names, its base breaks none        *)
(*  TerseLemma         a case offered to the terse-schema producer has     *)
(*                     only text fills and an expressible delimiter/marker *)
(*  Emit               prints every state as JSON (CELLS tables, CASEs)    *)
(*                                                                         *)
(* Mutation # "none" plants a defect in the model itself; the harness uses *)
(* it as a negative control (the lemmas must then be violated).            *)
(*                                                                         *)
(* Integers as large as 10^30, subnormals etc. never appear here - only    *)
(* class tokens do; the harness draws the concrete values.                 *)
(***************************************************************************)
EXTENDS Naturals, Sequences, FiniteSets, TLC, Json

CONSTANTS Thorough,   \* BOOLEAN - size of the enumeration
          Mutation    \* "none" | "complex-any-nan" | "ignore-marker-collision" | "fault-noop"

VARIABLE st

Types == {"string", "integer", "float", "boolean", "complex"}
Numeric == {"integer", "float", "complex"}

---------------------------------------------------------------------------
(* value classes *)
StrCells == {"plain", "plain2", "empty", "dash", "word", "slashed", "numeric", "innerspace",
             "hash", "unicode", "squote", "hasdelim", "hasquote", "leadquote", "hasboth", "nullword",
             "tilde", "boolword", "intcanon", "numnoncanon", "nanword", "yamlsyntax",
             "yamlcomment", "fence", "backslash", "padded", "multiline"}
OutsideStr == {"padded", "multiline"}
IntCells == {"zero", "one", "g1", "g2", "neg", "m999", "big", "big2", "negbig", "edge"}
FloatCells == {"g1", "g2", "intval", "zero", "negzero", "nan", "inf", "ninf", "subnormal",
               "minnormal", "huge", "frac", "e22", "bits"}
BoolCells == {"true", "false"}
CPart == {"g1", "g2", "zero", "negzero", "nan", "inf"}

V(t, a, b) == [t |-> t, a |-> a, b |-> b]
Values(t) == CASE t = "string" -> {V(t, a, "-") : a \in StrCells}
               [] t = "integer" -> {V(t, a, "-") : a \in IntCells}
               [] t = "float" -> {V(t, a, "-") : a \in FloatCells}
               [] t = "boolean" -> {V(t, a, "-") : a \in BoolCells}
               [] t = "complex" -> {V(t, a, b) : a \in CPart, b \in CPart}

EqPart(x, y) == x = y \/ {x, y} = {"zero", "negzero"}
EqVal(v, w) == v.t = w.t /\ EqPart(v.a, w.a) /\ EqPart(v.b, w.b)

(* the equality a writer uses to decide "this cell is the fill"; the mutation plants the *)
(* "either part is NaN" shortcut for complex numbers                                     *)
WriterEq(v, w) ==
  IF Mutation = "complex-any-nan" /\ v.t = "complex"
  THEN EqVal(v, w) \/ ("nan" \in {v.a, v.b} /\ "nan" \in {w.a, w.b})
  ELSE EqVal(v, w)

---------------------------------------------------------------------------
(* fields and fills *)
FillVal(f) == IF f.fa = "absent"
              THEN (IF f.type = "string" THEN V("string", "empty", "-")
                    ELSE IF f.type = "boolean" THEN V("boolean", "false", "-")
                    ELSE V(f.type, "nofill", "-"))
              ELSE V(f.type, f.fa, f.fb)

Fld(n, t, a, b, form) == [name |-> n, type |-> t, fa |-> a, fb |-> b, form |-> form]

StrFills == {"empty", "plain", "dash", "slashed", "unicode", "hasdelim", "hasquote", "innerspace",
             "squote", "nullword", "tilde", "boolword", "intcanon", "numnoncanon", "nanword",
             "yamlsyntax", "yamlcomment"}
IntFills == {"zero", "g1", "neg", "m999", "big"}
FloatFills == {"g1", "intval", "zero", "negzero", "nan", "inf", "ninf", "subnormal", "huge"}
CplxFills == {<<"g1", "g2">>, <<"g1", "zero">>, <<"zero", "zero">>, <<"nan", "nan">>,
              <<"nan", "zero">>, <<"zero", "nan">>, <<"inf", "zero">>}
Forms == {"native", "text"}

(* every (type, fill, form) a field may have - names are attached later *)
FieldSpecs ==
       {Fld("ascii", "string", "absent", "-", "absent")}
  \cup {Fld("ascii", "string", a, "-", "text") : a \in StrFills}
  \cup {Fld("ascii", "integer", a, "-", fm) : a \in IntFills, fm \in Forms}
  \cup {Fld("ascii", "float", a, "-", fm) : a \in FloatFills, fm \in Forms}
  \cup {Fld("ascii", "boolean", "absent", "-", "absent"), Fld("ascii", "boolean", "true", "-", "native"),
        Fld("ascii", "boolean", "false", "-", "native"), Fld("ascii", "boolean", "false", "-", "text")}
  \cup {Fld("ascii", "complex", c[1], c[2], fm) : c \in CplxFills, fm \in Forms}

(* two per type: the plainest one and the one most entangled with the marker logic *)
LiteSpecs == {Fld("ascii", "string", "absent", "-", "absent"), Fld("ascii", "string", "plain", "-", "text"),
              Fld("ascii", "integer", "g1", "-", "native"), Fld("ascii", "integer", "big", "-", "text"),
              Fld("ascii", "float", "nan", "-", "native"), Fld("ascii", "float", "zero", "-", "text"),
              Fld("ascii", "boolean", "absent", "-", "absent"), Fld("ascii", "boolean", "false", "-", "text"),
              Fld("ascii", "complex", "g1", "g2", "native"), Fld("ascii", "complex", "nan", "zero", "text")}
DefaultSpec(t) == CASE t = "string" -> Fld("ascii", t, "plain", "-", "text")
                    [] t = "integer" -> Fld("ascii", t, "g1", "-", "native")
                    [] t = "float" -> Fld("ascii", t, "nan", "-", "native")
                    [] t = "boolean" -> Fld("ascii", t, "absent", "-", "absent")
                    [] t = "complex" -> Fld("ascii", t, "g1", "g2", "native")

(* the same with fills given as text: what the terse notation can say *)
TextDefaults == {Fld("ascii", "string", "plain", "-", "text"), Fld("ascii", "integer", "g1", "-", "text"),
                 Fld("ascii", "float", "nan", "-", "text"), Fld("ascii", "boolean", "false", "-", "text"),
                 Fld("ascii", "complex", "nan", "zero", "text")}
GoodNames == {"ascii", "mixed", "unicode", "underscore", "keyword", "yamlword"}
BadNames == {"spaced", "leadingdigit", "hyphen", "emptyname"}
IsIdentifier(n) == n \in GoodNames

Delims == {"comma", "semicolon", "tab", "pipe", "colon", "letter", "space", "squote"}
Markers == {"empty", "dash", "word", "slashed", "numeric", "innerspace", "hash", "unicode",
            "blank", "squote"}
(* marker classes used only by faults: the delimiter itself / a word containing it *)
BadMarkers == {"isdelim", "hasdelim"}
(* the marker contains the delimiter: by construction of the class, or because the class  *)
(* of the marker is made of the delimiter's character (a blank in a blank-separated file)  *)
MarkerHasDelim(d, m) == \/ m \in BadMarkers
                        \/ <<d, m>> \in {<<"space", "innerspace">>, <<"space", "blank">>, <<"squote", "squote">>}

---------------------------------------------------------------------------
(* text level *)
Tok(k, a, b) == [k |-> k, a |-> a, b |-> b]
MarkerTok(m) == Tok("str", m, "-")
TextOf(v) == CASE v.t = "string" -> Tok("str", v.a, "-")
               [] v.t = "integer" -> IF v.a = "m999" THEN Tok("str", "numeric", "-") ELSE Tok("int", v.a, "-")
               [] v.t = "float" -> Tok("float", v.a, "-")
               [] v.t = "boolean" -> Tok("bool", v.a, "-")
               [] v.t = "complex" -> Tok("cplx", v.a, v.b)
Parse(t, tok) == CASE t = "string" -> V(t, IF tok.a \in OutsideStr THEN "stripped" ELSE tok.a, "-")
                   [] t = "integer" -> IF tok = Tok("str", "numeric", "-") THEN V(t, "m999", "-") ELSE V(t, tok.a, "-")
                   [] OTHER -> V(t, tok.a, tok.b)

Rep(v, m) == /\ (Mutation = "ignore-marker-collision" \/ TextOf(v) # MarkerTok(m))
             /\ ~(v.t = "string" /\ v.a \in OutsideStr)

Writes(v, f, m) ==
  IF v.t = "boolean"
  THEN {TextOf(v)} \cup (IF WriterEq(v, FillVal(f)) THEN {MarkerTok(m)} ELSE {})
  ELSE IF WriterEq(v, FillVal(f)) THEN {MarkerTok(m)} ELSE {TextOf(v)}

Read(tok, f, m) == IF tok = MarkerTok(m) THEN FillVal(f) ELSE Parse(f.type, tok)

Expected(v, f) == IF EqVal(v, FillVal(f)) THEN FillVal(f) ELSE v

MissFlag(v, f) == IF v.t = "boolean" THEN (IF EqVal(v, FillVal(f)) THEN "may" ELSE "never")
                  ELSE IF EqVal(v, FillVal(f)) THEN "must" ELSE "never"

---------------------------------------------------------------------------
(* schema, data, constraints *)
AllKeys == {"delimiter", "missing", "fields"}
Sch(keys, d, m, fs) == [keys |-> keys, delim |-> d, missing |-> m, fields |-> fs]
(* data shape: number of columns, index of a column whose length differs (0 none), *)
(* field index carrying a cell that does not parse (0 none) and its text class      *)
Dat(n, short, delta, bf, bc) == [ncols |-> n, short |-> short, delta |-> delta, badf |-> bf, badc |-> bc]
GoodData(s) == Dat(Len(s.fields), 0, "none", 0, "-")

\* "booltext": a boolean VALUE in a numeric column - its text is True / False, not a number, whatever the
\* host language thinks about booleans being integers
BadCells(t) == CASE t = "integer" -> {"junk", "floattext", "emptytext", "nonetext", "booltext"}
                 [] t = "float" -> {"junk", "emptytext", "nonetext", "booltext"}
                 [] t = "complex" -> {"junk", "emptytext", "nonetext", "booltext"}
                 [] OTHER -> {}
(* "emptytext" IS the marker when the marker is empty - then it parses (as the fill) *)
Parseable(t, bc, m) == \/ t \in {"string", "boolean"}
                       \/ (bc = "emptytext" /\ m = "empty")

Need(holds, clause) == IF holds THEN {} ELSE {clause}
SchemaViolations(s) ==
       Need("delimiter" \in s.keys, "key-delimiter")
  \cup Need("missing" \in s.keys, "key-missing")
  \cup Need("fields" \in s.keys, "key-fields")
  \cup (IF "fields" \in s.keys
        THEN      Need(Len(s.fields) > 0, "fields-nonempty")
             \cup Need(\A j \in 1..Len(s.fields) : IsIdentifier(s.fields[j].name), "names-identifiers")
             \cup Need(\A j \in 1..Len(s.fields) : s.fields[j].type \in Numeric => s.fields[j].fa # "absent",
                       "numeric-has-fill")
        ELSE {})
  \cup (IF {"delimiter", "missing"} \subseteq s.keys
        THEN Need(~MarkerHasDelim(s.delim, s.missing), "delimiter-not-in-missing")
        ELSE {})
DataViolations(s, d) ==
       Need(d.short = 0, "equal-column-lengths")
  \cup Need(d.ncols = Len(s.fields), "column-count")
  \cup Need(d.badf = 0 \/ Parseable(s.fields[d.badf].type, d.badc, s.missing), "cells-parseable")
Violated(s, d) == IF SchemaViolations(s) # {} THEN SchemaViolations(s) ELSE DataViolations(s, d)
Valid(s) == SchemaViolations(s) = {}
Outcome(s, d) == IF Violated(s, d) = {} THEN "roundtrip" ELSE "SCSVError"

---------------------------------------------------------------------------
(* single faults *)
Flt(f, i, x) == [f |-> f, i |-> i, x |-> x]
ClauseOf(ft) == CASE ft.f = "no-delimiter-key" -> "key-delimiter"
                  [] ft.f = "no-missing-key" -> "key-missing"
                  [] ft.f = "no-fields-key" -> "key-fields"
                  [] ft.f = "empty-fields" -> "fields-nonempty"
                  [] ft.f = "bad-name" -> "names-identifiers"
                  [] ft.f = "numeric-no-fill" -> "numeric-has-fill"
                  [] ft.f \in {"delim-eq-missing", "delim-in-missing"} -> "delimiter-not-in-missing"
                  [] ft.f \in {"short-column", "long-column"} -> "equal-column-lengths"
                  [] ft.f \in {"extra-column", "dropped-column"} -> "column-count"
                  [] ft.f = "bad-cell" -> "cells-parseable"
SchemaFaultNames == {"no-delimiter-key", "no-missing-key", "no-fields-key", "empty-fields", "bad-name",
                     "numeric-no-fill", "delim-eq-missing", "delim-in-missing"}

FaultsOf(s) ==
  LET n == Len(s.fields) IN
       {Flt(k, 0, "-") : k \in {"no-delimiter-key", "no-missing-key", "no-fields-key", "empty-fields",
                                "delim-eq-missing", "delim-in-missing", "extra-column"}}
  \cup {Flt("bad-name", i, b) : i \in 1..n, b \in BadNames}
  \cup {Flt("numeric-no-fill", i, "-") : i \in {j \in 1..n : s.fields[j].type \in Numeric}}
  \cup {Flt(k, i, "-") : k \in {"short-column", "long-column"}, i \in {j \in 1..n : n >= 2}}
  \cup {Flt("dropped-column", i, "-") : i \in 1..n}    \* n = 1 leaves no column: emitted, marked skip
  \cup UNION {{Flt("bad-cell", i, bc) : bc \in {c \in BadCells(s.fields[i].type) :
                                                ~Parseable(s.fields[i].type, c, s.missing)}} : i \in 1..n}

ApplySchemaFault(s, ft) ==
  IF Mutation = "fault-noop" THEN s ELSE
  CASE ft.f = "no-delimiter-key" -> [s EXCEPT !.keys = @ \ {"delimiter"}]
    [] ft.f = "no-missing-key" -> [s EXCEPT !.keys = @ \ {"missing"}]
    [] ft.f = "no-fields-key" -> [s EXCEPT !.keys = @ \ {"fields"}]
    [] ft.f = "empty-fields" -> [s EXCEPT !.fields = <<>>]
    [] ft.f = "bad-name" -> [s EXCEPT !.fields[ft.i].name = ft.x]
    [] ft.f = "numeric-no-fill" -> [s EXCEPT !.fields[ft.i].fa = "absent", !.fields[ft.i].fb = "-",
                                             !.fields[ft.i].form = "absent"]
    [] ft.f = "delim-eq-missing" -> [s EXCEPT !.missing = "isdelim"]
    [] ft.f = "delim-in-missing" -> [s EXCEPT !.missing = "hasdelim"]
    [] OTHER -> s
ApplyDataFault(s, ft) ==
  LET d == GoodData(s) IN
  IF Mutation = "fault-noop" THEN d ELSE
  CASE ft.f = "short-column" -> [d EXCEPT !.short = ft.i, !.delta = "minus"]
    [] ft.f = "long-column" -> [d EXCEPT !.short = ft.i, !.delta = "plus"]
    [] ft.f = "extra-column" -> [d EXCEPT !.ncols = @ + 1]
    [] ft.f = "dropped-column" -> [d EXCEPT !.ncols = @ - 1]
    [] ft.f = "bad-cell" -> [d EXCEPT !.badf = ft.i, !.badc = ft.x]
    [] OTHER -> d

---------------------------------------------------------------------------
(* the terse one-line schema notation as a second producer of schemas: it can only say   *)
(* text fills, always says a fill, needs a non-empty marker and cannot use ':' as        *)
(* delimiter; fills whose class may contain ':' or parentheses are left out              *)
TerseField(f) == f.form = "text" /\ f.fa \notin {"yamlsyntax", "numnoncanon"} /\ f.name # "emptyname"
TerseOk(s) == /\ s.keys = AllKeys
              /\ s.delim # "colon"
              /\ s.missing # "empty"
              /\ \A i \in 1..Len(s.fields) : TerseField(s.fields[i])
(* a faulty schema the terse notation can still say: the fault must not be "a key is      *)
(* missing"; "no fill" is said by leaving the fill out (the parser then supplies '')      *)
TerseFaultOk(s, ft) == /\ ft.f \notin {"no-delimiter-key", "no-missing-key", "no-fields-key"}
                       /\ s.delim # "colon" /\ s.missing # "empty"
                       /\ \A i \in 1..Len(s.fields) :
                             \/ s.fields[i].form = "text" /\ s.fields[i].fa \notin {"yamlsyntax", "numnoncanon"}
                             \/ (ft.f = "numeric-no-fill" /\ ft.i = i)

---------------------------------------------------------------------------
(* enumeration *)
One(S) == {<<a>> : a \in S}
Two(S) == {<<a, b>> : a \in S, b \in S}
Three(S) == {<<a, b, c>> : a \in S, b \in S, c \in S}
Defaults == {DefaultSpec(t) : t \in Types}
WithName(fs, i, n) == [fs EXCEPT ![i].name = n]

DMQuick2 == {<<"comma", "dash">>, <<"tab", "empty">>}
DMThorough2 == {<<"comma", "dash">>, <<"tab", "empty">>, <<"colon", "numeric">>}
DMThree == {<<"semicolon", "word">>, <<"pipe", "slashed">>, <<"space", "dash">>}

RawSchemas ==
  IF Thorough
  THEN      {Sch(AllKeys, d, m, fs) : d \in Delims, m \in Markers, fs \in One(FieldSpecs)}
       \cup {Sch(AllKeys, dm[1], dm[2], fs) : dm \in DMThorough2, fs \in Two(FieldSpecs)}
       \cup {Sch(AllKeys, dm[1], dm[2], fs) : dm \in DMThree, fs \in Three(LiteSpecs)}
  ELSE      {Sch(AllKeys, "comma", m, fs) : m \in Markers, fs \in One(FieldSpecs)}
       \cup {Sch(AllKeys, d, "dash", fs) : d \in Delims, fs \in One(FieldSpecs)}
       \cup {Sch(AllKeys, dm[1], dm[2], fs) : dm \in DMQuick2, fs \in Two(LiteSpecs)}
       \cup {Sch(AllKeys, "semicolon", "word", fs) : fs \in Three(Defaults)}
       \cup {Sch(AllKeys, dm[1], dm[2], fs) : dm \in {<<"space", "dash">>, <<"squote", "word">>}, fs \in Two(Defaults)}
       \cup {Sch(AllKeys, dm[1], dm[2], fs) : dm \in {<<"space", "innerspace">>, <<"space", "blank">>, <<"squote", "squote">>,
                                                       <<"space", "word">>, <<"squote", "empty">>},
                                               fs \in One(Defaults)}
ValidSchemas == {s \in RawSchemas : Valid(s)}
(* delimiter/marker class pairs that are invalid by nature (a blank marker in a blank-separated file) *)
NaturalInvalid == {s \in RawSchemas : ~Valid(s)}
(* field names: every identifier class at every position of 1..3-field schemas *)
NameSchemas ==
       {Sch(AllKeys, "comma", "dash", WithName(fs, 1, n)) : n \in GoodNames, fs \in One(Defaults)}
  \cup {Sch(AllKeys, "comma", "dash", WithName(fs, i, n)) : n \in GoodNames, i \in 1..2,
                                                             fs \in Two({DefaultSpec("string"), DefaultSpec("float")})}
  \cup {Sch(AllKeys, "comma", "dash", WithName(WithName(fs, 1, n), 3, n2)) : n \in GoodNames, n2 \in GoodNames,
                                                             fs \in Three({DefaultSpec("integer")})}

(* the optional free-text "unit" of a field (documentation only: it takes no part in parsing the data).  Classes of  *)
(* unit text that are plain YAML scalars: a word, a ratio, text with an apostrophe, with a quote in brackets, with a    *)
(* blank, a number-like text.  Every position of 1..2-field schemas.                                                   *)
UnitClasses == {"word", "ratio", "apostrophe", "parenquote", "spaced", "numberlike"}
WithUnit(fs, i, u) == [fs EXCEPT ![i] = [unit |-> u] @@ @]
UnitSchemas ==
       {Sch(AllKeys, "comma", "dash", WithUnit(fs, 1, u)) : u \in UnitClasses, fs \in One(Defaults)}
  \cup {Sch(AllKeys, dm[1], dm[2], WithUnit(fs, i, u)) : u \in UnitClasses, i \in 1..2, dm \in {<<"tab", "empty">>, <<"squote", "word">>},
                                                        fs \in Two({DefaultSpec("string"), DefaultSpec("float")})}

FaultBases ==
  IF Thorough
  THEN {Sch(AllKeys, dm[1], dm[2], fs) : dm \in {<<"comma", "dash">>, <<"tab", "empty">>, <<"pipe", "word">>},
                                          fs \in One(Defaults) \cup Two(Defaults) \cup Three(Defaults)}
       \cup {Sch(AllKeys, dm[1], dm[2], fs) : dm \in {<<"comma", "dash">>, <<"semicolon", "slashed">>},
                                               fs \in One(TextDefaults) \cup Two(TextDefaults) \cup Three(TextDefaults)}
  ELSE      {Sch(AllKeys, "comma", "dash", fs) : fs \in One(Defaults) \cup Two(Defaults)}
       \cup {Sch(AllKeys, "tab", "empty", fs) : fs \in One(Defaults)}
       \cup {Sch(AllKeys, "comma", "dash", fs) : fs \in One(TextDefaults) \cup Two(TextDefaults)}
       \cup {Sch(AllKeys, "pipe", "word", <<DefaultSpec("string"), DefaultSpec("integer"), DefaultSpec("complex")>>),
             Sch(AllKeys, "pipe", "word", <<DefaultSpec("float"), DefaultSpec("boolean"), DefaultSpec("float")>>)}

CellKeys == {[f |-> f, m |-> m] : f \in FieldSpecs, m \in Markers}

Init == \/ st \in {[kind |-> "cells", f |-> k.f, m |-> k.m] : k \in CellKeys}
        \/ st \in {[kind |-> "valid", s |-> s] : s \in ValidSchemas \cup NameSchemas \cup UnitSchemas}
        \/ st \in {[kind |-> "natural", s |-> s] : s \in NaturalInvalid}
        \/ st \in UNION {{[kind |-> "fault", base |-> s, ft |-> ft] : ft \in FaultsOf(s)} : s \in FaultBases}
Next == UNCHANGED st
Spec == Init /\ [][Next]_st

---------------------------------------------------------------------------
(* lemmas *)
RoundTripLemma ==
  st.kind = "cells" =>
    \A v \in Values(st.f.type) :
      Rep(v, st.m) =>
        /\ EqVal(Expected(v, st.f), v)
        /\ \A w \in Writes(v, st.f, st.m) : Read(w, st.f, st.m) = Expected(v, st.f)
MarkerUnambiguous ==
  st.kind = "cells" =>
    \A v \in Values(st.f.type) :
      (Rep(v, st.m) /\ MarkerTok(st.m) \in Writes(v, st.f, st.m)) => EqVal(v, FillVal(st.f))
DomainNecessary ==
  st.kind = "cells" =>
    \A v \in Values(st.f.type) :
      (TextOf(v) = MarkerTok(st.m) /\ ~EqVal(v, FillVal(st.f))) =>
        /\ ~Rep(v, st.m)
        /\ Read(TextOf(v), st.f, st.m) # v
ValidLemma == st.kind = "valid" => (Valid(st.s) /\ Outcome(st.s, GoodData(st.s)) = "roundtrip")
NaturalLemma == st.kind = "natural" => Violated(st.s, GoodData(st.s)) = {"delimiter-not-in-missing"}
FaultSchema == ApplySchemaFault(st.base, st.ft)
FaultData == ApplyDataFault(st.base, st.ft)
SingleFaultLemma ==
  st.kind = "fault" =>
    /\ Violated(st.base, GoodData(st.base)) = {}
    /\ Violated(FaultSchema, FaultData) = {ClauseOf(st.ft)}
    /\ Outcome(FaultSchema, FaultData) = "SCSVError"
    /\ (st.ft.f \in SchemaFaultNames <=> ~Valid(FaultSchema))
TerseLemma ==
  /\ st.kind = "valid" /\ TerseOk(st.s) => \A i \in 1..Len(st.s.fields) : st.s.fields[i].form = "text"
  /\ st.kind = "fault" /\ TerseFaultOk(FaultSchema, st.ft) => FaultSchema.keys = AllKeys

---------------------------------------------------------------------------
(* emission *)
CellRow(v, f, m) == [a |-> v.a, b |-> v.b, rep |-> Rep(v, m), miss |-> MissFlag(v, f),
                     ea |-> Expected(v, f).a, eb |-> Expected(v, f).b]
Payload ==
  CASE st.kind = "cells" -> [kind |-> "cells", f |-> st.f, m |-> st.m,
                             cells |-> {CellRow(v, st.f, st.m) : v \in Values(st.f.type)}]
    [] st.kind = "valid" -> [kind |-> "valid", s |-> st.s, outcome |-> Outcome(st.s, GoodData(st.s)),
                             terse |-> TerseOk(st.s)]
    [] st.kind = "natural" -> [kind |-> "natural", s |-> st.s, outcome |-> Outcome(st.s, GoodData(st.s)),
                               clause |-> "delimiter-not-in-missing"]
    [] st.kind = "fault" -> [kind |-> "fault", base |-> st.base, ft |-> st.ft, s |-> FaultSchema, d |-> FaultData,
                             clause |-> ClauseOf(st.ft), outcome |-> Outcome(FaultSchema, FaultData),
                             terse |-> TerseFaultOk(FaultSchema, st.ft),
                             file |-> (st.ft.f \in SchemaFaultNames),
                             skip |-> (IF FaultData.ncols = 0 THEN "zero-columns" ELSE "-")]
Emit == PrintT(<<"CASE", ToJson(Payload)>>)
=============================================================================
