------------------------------- MODULE H5part -------------------------------
(***************************************************************************)
(* Extension beyond the listed properties (X06): the particle-file         *)
(* extraction pipeline  extract_h5part -> Mineral.save(postfix) ->         *)
(* save_scsv,  and the archive inspector of the command-line tools, as a   *)
(* state machine composed of actions the Layer-B machine already has       *)
(* (SavePostfix) plus the table writer of C16.                             *)
(*                                                                         *)
(* A Fluidity particle file holds groups "Step#<k>"; each group holds, per *)
(* attribute (id, x, y, z, CPO_1 .. CPO_{10 n + 1}), one array with a row  *)
(* per particle still alive at that step (rows of deleted particles are    *)
(* cut off the end).  What the documentation promises, and this module     *)
(* states exactly:                                                         *)
(*   * one archive triple (meta, fractions, orientations) per particle id  *)
(*     listed in Step#0/id, under the postfix str(id), appended in the     *)
(*     order of that list; nothing already in the archive is touched;      *)
(*   * the snapshots of particle p are the steps whose arrays still have a *)
(*     row for p, in NUMERIC step order (Step#10 after Step#9);            *)
(*   * the row of particle p is row p - 1 (named deviation: whatever the   *)
(*     order of the id list);                                              *)
(*   * component layout: grain g (0-based) has its 3x3 orientation in      *)
(*     CPO_{9g+1} .. CPO_{9g+9} row-major, its volume in CPO_{9n+g+1};     *)
(*     the accumulated strain is CPO_{10n+1} and is tabulated in percent   *)
(*     of shear strain (x 200) beside x, y, z in "<stem>_<id>.scsv";       *)
(*   * the inspector lists every archive member, in archive order.         *)
(* Contents are symbolic: the value of attribute c of particle p at step s *)
(* is the term <<s, p, c>>; the harness interprets it injectively when it  *)
(* builds the real file, so a wrong index cannot hide.                     *)
(***************************************************************************)
EXTENDS Integers, Sequences, FiniteSets, TLC, Json

CONSTANTS MaxP,        \* largest number of particles
          StepLists,   \* sets of step numbers (as sequences, in file-creation order)
          Grains,      \* grain counts
          PreSets      \* sets of postfixes the client saved into the archive beforehand (sequences)

VARIABLES file, pre, disk, tables, pos, out
vars == <<file, pre, disk, tables, pos, out>>

Kinds == <<"meta", "fractions", "orientations">>
Triple(pf) == [i \in 1..3 |-> <<Kinds[i], pf>>]

Perms(n) == {f \in [1..n -> 1..n] : \A i, j \in 1..n : i # j => f[i] # f[j]}
\* particle files: P particles, steps with per-step row counts, the first listed step number is 0 and holds all rows
Files == UNION {UNION {UNION {
            {[P |-> P, steps |-> st, len |-> ln, ids |-> ids, n |-> n] :
                 ln \in {l \in [1..Len(st) -> 0..P] : \A i \in 1..Len(st) : st[i] = 0 => l[i] = P},
                 ids \in (IF P = 3 /\ Len(st) > 2 THEN {[i \in 1..P |-> i]} ELSE Perms(P))}
          : n \in Grains} : st \in StepLists} : P \in 1..MaxP}

\* ------------------------------------------------------------- the extraction law
StepSet(f) == {f.steps[i] : i \in 1..Len(f.steps)}
RowCount(f, s) == LET i == CHOOSE i \in 1..Len(f.steps) : f.steps[i] = s IN f.len[i]
Alive(f, p) == {s \in StepSet(f) : RowCount(f, s) >= p}
RECURSIVE SortedSeq(_)
SortedSeq(S) == IF S = {} THEN <<>> ELSE LET m == CHOOSE m \in S : \A k \in S : m <= k IN <<m>> \o SortedSeq(S \ {m})
SnapSteps(f, p) == SortedSeq(Alive(f, p))

\* component layout (1-based component numbers of the CPO_<c> attributes), grain g in 1..n
OriComp(n, g, i, j) == 9 * (g - 1) + 3 * (i - 1) + j
FracComp(n, g) == 9 * n + g
StrainComp(n) == 10 * n + 1
StrainFactor == 200

Expected(f, p) ==
    [p |-> p, postfix |-> ToString(p), steps |-> SnapSteps(f, p),
     ori |-> [g \in 1..f.n |-> [i \in 1..3 |-> [j \in 1..3 |-> OriComp(f.n, g, i, j)]]],
     frac |-> [g \in 1..f.n |-> FracComp(f.n, g)],
     strain |-> StrainComp(f.n), factor |-> StrainFactor]

\* ------------------------------------------------------------- the machine
Init == /\ file \in Files
        /\ pre \in PreSets
        /\ disk = IF pre = <<>> THEN <<>> ELSE IF Len(pre) = 1 THEN Triple(pre[1]) ELSE Triple(pre[1]) \o Triple(pre[2])
        /\ tables = {}
        /\ pos = 0
        /\ out = <<>>

ExtractParticle == /\ pos < Len(file.ids)
                   /\ pos' = pos + 1
                   /\ LET p == file.ids[pos + 1] IN /\ disk' = disk \o Triple(ToString(p))
                                                    /\ tables' = tables \cup {p}
                   /\ UNCHANGED <<file, pre, out>>
Inspect == /\ pos = Len(file.ids)
           /\ out = <<>>
           /\ out' = disk
           /\ UNCHANGED <<file, pre, disk, tables, pos>>
Next == ExtractParticle \/ Inspect
Spec == Init /\ [][Next]_vars

\* ------------------------------------------------------------- properties
IsPrefixOf(a, b) == Len(a) <= Len(b) /\ \A i \in 1..Len(a) : a[i] = b[i]
GrowsOnly == [][IsPrefixOf(disk, disk')]_vars
Finished == pos = Len(file.ids)
ArchiveAtEnd == Finished =>
    /\ Len(disk) = 3 * (Len(pre) + file.P)
    /\ \A k \in 1..file.P : \A i \in 1..3 : disk[3 * (Len(pre) + k - 1) + i] = <<Kinds[i], ToString(file.ids[k])>>
    /\ tables = 1..file.P
NoDuplicateMembers == \A i, j \in 1..Len(disk) : i # j => disk[i] # disk[j]
InspectListsAll == out # <<>> => out = disk
\* lemmas about the law itself
LayoutPartition ==
    LET n == file.n
        used == {OriComp(n, g, i, j) : g \in 1..n, i \in 1..3, j \in 1..3} \cup {FracComp(n, g) : g \in 1..n} \cup {StrainComp(n)}
    IN /\ used = 1..(10 * n + 1)
       /\ Cardinality({<<g, i, j>> : g \in 1..n, i \in 1..3, j \in 1..3}) + n + 1 = 10 * n + 1
StepsLemma == \A p \in 1..file.P :
    LET s == SnapSteps(file, p) IN
      /\ {s[i] : i \in 1..Len(s)} = Alive(file, p)
      /\ \A i \in 1..(Len(s) - 1) : s[i] < s[i + 1]
      /\ 0 \in Alive(file, p)                \* every listed particle has at least the first snapshot
ShorterLived == \A p, q \in 1..file.P : p <= q => Alive(file, q) \subseteq Alive(file, p)

\* configurations
QuickStepLists == {<<0>>, <<0, 1>>, <<1, 0, 2>>, <<0, 9, 10>>}
ThoroughStepLists == QuickStepLists \cup {<<10, 0, 2, 11>>, <<0, 100, 20, 3>>}
QuickPre == {<<>>, <<"run">>, <<"0", "a_1">>}

Emit == out # <<>> =>
    PrintT(<<"CASE", ToJson([file |-> file, pre |-> pre, members |-> disk, listing |-> out,
                             particles |-> [k \in 1..file.P |-> Expected(file, file.ids[k])]])>>)
=============================================================================
