INIT Init
NEXT Next
INVARIANT CrssShape
INVARIANT SolidusLemma
INVARIANT MirrorLemma
INVARIANT Emit
CHECK_DEADLOCK FALSE
