SPECIFICATION FaultSpec
CONSTANTS
  Minerals = {a, b}
  Files = {f1}
  Postfixes = {}
  Configs <- FaultConfigs
  Seeds = {1, 2}
  Textures = {"random", "clustered"}
  Flows = {"ss_xz", "gen3d", "pure_xy"}
  Pars <- FlowPars
  Callbacks = {}
  MaxUpd = 6
  MaxOps = 10
INVARIANT EmitAtEnd
CHECK_DEADLOCK FALSE
