SPECIFICATION Spec
CONSTANTS
  Sinks = {"s1", "s2"}
  Levels = {10, 20, 40}
  MaxDepth = 3
  MaxOps = 7
VIEW View
INVARIANT BalancedRestores
INVARIANT InOrder
INVARIANT AttachedAccounted
CHECK_DEADLOCK FALSE
