SPECIFICATION C01Spec
CONSTANTS
  Minerals = {a, b}
  Files = {f1}
  Postfixes = {}
  Configs <- C01Configs
  Seeds = {0, 1, 2}
  Textures = {"random", "clustered", "girdle", "single", "nonuniform", "layout", "layoutc", "intaligned"}
  Flows = {"zero", "ss_xz", "ss_zx", "ss_yx", "ss_xy", "ss_yz", "ss_zy", "pure_xy", "pure_xz", "axi_c", "axi_e", "gen3d", "trace", "tdep", "xdep", "rot", "spinup", "dil_rot", "stop", "stoprot"}
  Pars <- C01Pars
  Callbacks = {0, 4, 6, 7}
  Ns = {2, 3, 8, 50}
  MaxUpd = 1000
  MaxOps = 18
INVARIANT EmitAtEnd
CHECK_DEADLOCK FALSE
