SPECIFICATION Spec
CONSTANTS
  MaxN = 4
  MaxW = 3
  Env = "imap_unordered"
  Record = FALSE
INVARIANT TypeOK
INVARIANT WorkerBound
INVARIANT ResultInOrder
CHECK_DEADLOCK FALSE
