-------------------------- MODULE TensorsMeasures ---------------------------
(***************************************************************************)
(* C11, Layer C: judges deviation measures recorded from pydrex.tensors on *)
(* seeded floating-point inputs (one ndjson line per measure).  The        *)
(* harness only evaluates the defining equation named by `clause` on the   *)
(* implementation's output and logs                                        *)
(*    m  the deviation, relative to the natural scale of the clause, in    *)
(*       units of 1e-15, as an integer capped at 2e9;                      *)
(*    k  an integer conditioning factor (1 where the clause is a plain     *)
(*       linear-algebra identity; ceil of the 2-norm condition number of   *)
(*       the input for the polar clauses).                                 *)
(* THE LAW is here: a clause of class "plain" must be logged with k = 1    *)
(* and hold to 1e-12; a clause of class "cond" holds to 1e-12 * k, k up to *)
(* 1e6 (worse-conditioned inputs are skipped by the harness and counted).  *)
(* Unknown clauses, malformed lines and exceeded budgets are REJECTed with *)
(* the line number; checking continues to the end of the file.             *)
(***************************************************************************)
EXTENDS Integers, Sequences, TLC, Json, IOUtils
TraceLog == ndJsonDeserialize(IOEnv.TRACE_FILE)
N == Len(TraceLog)
VARIABLE l
Plain == {"linearity",                 \* f(a x + b y) = a f(x) + b f(y)
          "homogeneity",               \* f(s x) = s^d f(x) for magnitudes s from 1e-15 to 1e12, relative to s^d |f(x)|
                                       \* (d = 1 for the linear maps, d = k for the k-th invariant)
          "representation",            \* f(x) does not depend on the in-memory representation of x (Fortran order,
                                       \* strided view, read-only, integer-typed) and leaves the caller's array untouched
          "call-history",              \* two calls in a row on ONE argument object refilled in place: the second result is
                                       \* that of the second contents and the first result is not changed by the second call
          "roundtrip",                 \* g(f(x)) = x for the inverse pairs
          "minor-major-symmetry",      \* of voigt_to_elastic_tensor(M) and of rotated tensors
          "isometry",                  \* |X(M)| = |C(M)|_F
          "contraction",               \* voigt_decompose(M) = (C_ijkk, C_ikjk) of the implementation's own tensor
          "rot-norm",                  \* |rotate(T,R)|_F = |T|_F
          "rot-group",                 \* rotate(rotate(T,R1),R2) = rotate(T,R2 R1)
          "rot-identity",              \* rotate(T, I) = T
          "rot-law",                   \* T'(Ru,Rv,Rw,Rz) = T(u,v,w,z) for probe vectors
          "proj-idempotent", "proj-selfadjoint", "proj-nested", "proj-pythagoras",
          "invariants"}                \* = elementary symmetric functions of the eigenvalues
Cond == {"polar-orthogonal",           \* R'R = I
         "polar-symmetric",            \* stretch = stretch'
         "polar-psd",                  \* min eigenvalue of the stretch >= 0
         "polar-product",              \* R.U = M (right) / V.R = M (left)
         "polar-representation",       \* the same for the polar factors
         "polar-homogeneity"}          \* polar(s M) = (R, s U): same rotation, rescaled stretch, product s M
UnitBudget == 1000                     \* 1e-12 in units of 1e-15
MaxK == 1000000
Wellformed(e) == /\ {"clause", "m", "k", "fn"} \subseteq DOMAIN e
                 /\ e.m \in Nat /\ e.k \in Nat
Within(e) == \/ e.clause \in Plain /\ e.k = 1 /\ e.m <= UnitBudget
             \/ e.clause \in Cond /\ e.k >= 1 /\ e.k <= MaxK /\ e.m <= UnitBudget * e.k
Init == l = 1
Next == l <= N /\ l' = l + 1
Judge == IF l > N THEN PrintT(<<"DONE", N>>)
         ELSE LET e == TraceLog[l] IN
              IF ~Wellformed(e) THEN PrintT(<<"REJECT", l, "malformed">>)
              ELSE IF Within(e) THEN TRUE ELSE PrintT(<<"REJECT", l, e.clause>>)
=============================================================================
