INIT ScenInit
NEXT ScenNext
CONSTANTS
  Tier = "quick"
INVARIANT EmitScen
CHECK_DEADLOCK FALSE
