INIT PairInit
NEXT PairNext
INVARIANT SameEffective
INVARIANT OtherFractionIrrelevant
INVARIANT Emit
CHECK_DEADLOCK FALSE
