-------------------------------- MODULE Utils --------------------------------
(***************************************************************************)
(* Extension beyond the listed properties: the array helpers of            *)
(* pydrex.utils that the workflow relies on (2-D flows are embedded in 3-D *)
(* with add_dim / remove_dim, ragged per-pathline results are stacked with *)
(* pad_with, time series are differenced with diff_like), specified        *)
(* exactly over small integer arrays:                                      *)
(*   pad_with(rows, x)     regular 2-D array: row i is rows[i] followed by *)
(*                         x up to the longest row                         *)
(*   remove_dim(a, d)      delete index d along EVERY axis (vector or      *)
(*                         square matrix)                                  *)
(*   add_dim(a, d, val)    insert val at index d along every axis          *)
(*                         (documented: "add entries of val")              *)
(*   diff_like(a)          forward difference per row with the last        *)
(*                         difference repeated, same shape as the input    *)
(*   remove_nans(a)        the non-NaN entries in order                    *)
(* Lemmas checked by TLC on every case: shapes, RemoveAfterAdd (remove_dim *)
(* inverts add_dim), PadPrefix, DiffShape / DiffTail.  Every case is       *)
(* emitted with its exact expected result and replayed into the code.      *)
(***************************************************************************)
EXTENDS Integers, Sequences, FiniteSets, TLC, Json
CONSTANTS Vals,      \* entries
          MaxLen     \* longest row / vector
VARIABLES case
NaN == 999999        \* stands for NaN in remove_nans cases (concretised by the harness)

Seqs(n) == [1..n -> Vals]
RowsUpTo(n) == UNION {Seqs(k) : k \in 0..n}
\* ---------------------------------------------------------------- the helpers
Longest(rows) == LET L == {Len(rows[i]) : i \in 1..Len(rows)} IN CHOOSE m \in L : \A k \in L : k <= m
PadWith(rows, x) == [i \in 1..Len(rows) |-> [j \in 1..Longest(rows) |-> IF j <= Len(rows[i]) THEN rows[i][j] ELSE x]]
\* positions are 0-based in the library, 1-based here: d in 0..Len
Del(v, d) == [j \in 1..(Len(v) - 1) |-> IF j <= d THEN v[j] ELSE v[j + 1]]
Ins(v, d, x) == [j \in 1..(Len(v) + 1) |-> IF j <= d THEN v[j] ELSE IF j = d + 1 THEN x ELSE v[j - 1]]
RemoveDim1(v, d) == Del(v, d)
RemoveDim2(m, d) == LET rows == Del(m, d) IN [i \in 1..Len(rows) |-> Del(rows[i], d)]
AddDim1(v, d, x) == Ins(v, d, x)
AddDim2(m, d, x) == LET n == Len(m)  wide == [i \in 1..n |-> Ins(m[i], d, x)]
                    IN Ins(wide, d, [j \in 1..(n + 1) |-> x])
DiffLike(v) == [j \in 1..Len(v) |-> IF j < Len(v) THEN v[j + 1] - v[j] ELSE v[Len(v)] - v[Len(v) - 1]]
RemoveNans(v) == SelectSeq(v, LAMBDA e : e # NaN)
\* ---------------------------------------------------------------- cases
Sq(n) == [1..n -> Seqs(n)]
Cases ==
       {[kind |-> "pad", rows |-> r, x |-> x] : r \in {<<a>> : a \in RowsUpTo(MaxLen) \ {<<>>}}
                                                     \cup {<<a, b>> : a \in RowsUpTo(2), b \in RowsUpTo(MaxLen)}
                                                     \cup {<<a, b, c>> : a \in RowsUpTo(1), b \in RowsUpTo(2), c \in RowsUpTo(1)}, x \in {0, 7}}
  \cup {[kind |-> "remove1", a |-> v, d |-> d] : v \in Seqs(3), d \in 0..2}
  \cup {[kind |-> "remove2", a |-> m, d |-> d] : m \in {<<<<1, 2, 3>>, <<4, 5, 6>>, <<7, 8, 9>>>>, <<<<0, 1, 0>>, <<2, 0, 2>>, <<0, 3, 0>>>>}, d \in 0..2}
  \cup {[kind |-> "add1", a |-> v, d |-> d, x |-> x] : v \in Seqs(2), d \in 0..2, x \in {0, 5}}
  \cup {[kind |-> "add2", a |-> m, d |-> d, x |-> x] : m \in {<<<<1, 2>>, <<3, 4>>>>, <<<<0, 7>>, <<7, 0>>>>}, d \in 0..2, x \in {0, 5}}
  \cup {[kind |-> "diff", a |-> v] : v \in UNION {Seqs(k) : k \in 2..MaxLen}}
  \cup {[kind |-> "nans", a |-> v] : v \in UNION {[1..k -> Vals \cup {NaN}] : k \in 0..3}}
Expected(c) ==
    CASE c.kind = "pad" -> IF Longest(c.rows) = 0 THEN [i \in 1..Len(c.rows) |-> <<>>] ELSE PadWith(c.rows, c.x)
      [] c.kind = "remove1" -> RemoveDim1(c.a, c.d)
      [] c.kind = "remove2" -> RemoveDim2(c.a, c.d)
      [] c.kind = "add1" -> AddDim1(c.a, c.d, c.x)
      [] c.kind = "add2" -> AddDim2(c.a, c.d, c.x)
      [] c.kind = "diff" -> DiffLike(c.a)
      [] c.kind = "nans" -> RemoveNans(c.a)
Init == case \in Cases
Next == UNCHANGED case
\* ---------------------------------------------------------------- lemmas
PadShape == case.kind = "pad" =>
    LET p == Expected(case) IN /\ Len(p) = Len(case.rows)
                               /\ \A i \in 1..Len(p) : Len(p[i]) = Longest(case.rows)
PadPrefix == case.kind = "pad" =>
    \A i \in 1..Len(case.rows) : /\ SubSeq(Expected(case)[i], 1, Len(case.rows[i])) = case.rows[i]
                                 /\ \A j \in (Len(case.rows[i]) + 1)..Longest(case.rows) : Expected(case)[i][j] = case.x
RemoveAfterAdd == /\ case.kind = "add1" => RemoveDim1(Expected(case), case.d) = case.a
                  /\ case.kind = "add2" => RemoveDim2(Expected(case), case.d) = case.a
AddShape == /\ case.kind = "add1" => Len(Expected(case)) = Len(case.a) + 1 /\ Expected(case)[case.d + 1] = case.x
            /\ case.kind = "add2" => /\ Len(Expected(case)) = Len(case.a) + 1
                                     /\ \A i \in 1..Len(Expected(case)) : Len(Expected(case)[i]) = Len(case.a) + 1 /\ Expected(case)[i][case.d + 1] = case.x
                                     /\ \A j \in 1..(Len(case.a) + 1) : Expected(case)[case.d + 1][j] = case.x
DiffShape == case.kind = "diff" => /\ Len(Expected(case)) = Len(case.a)
                                   /\ Expected(case)[Len(case.a)] = Expected(case)[Len(case.a) - 1] \/ Len(case.a) < 2
NansOrder == case.kind = "nans" => /\ \A i \in 1..Len(Expected(case)) : Expected(case)[i] # NaN
                                   /\ Len(Expected(case)) = Cardinality({i \in 1..Len(case.a) : case.a[i] # NaN})
Emit == PrintT(<<"CASE", ToJson([c |-> case, expected |-> Expected(case)])>>)
=============================================================================
