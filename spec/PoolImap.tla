------------------------------ MODULE PoolImap ------------------------------
(***************************************************************************)
(* Layer B (C14, batched variant): the scheduling contract that            *)
(* pydrex.diagnostics.misorientation_indices relies on.                    *)
(*                                                                         *)
(* The code under test is the client loop                                  *)
(*     for i, out in enumerate(pool.imap(_run, orientation_stack)):        *)
(*         m_indices[i] = out                                              *)
(* i.e. the k-th value the pool DELIVERS is stored at index k.  Whether    *)
(* that equals "per-snapshot values in snapshot order" depends on the      *)
(* environment: the process pool.  This module specifies the environment   *)
(* and the client together:                                                *)
(*   tasks 1..n (snapshots), at most w tasks in flight (workers);          *)
(*   Dispatch       hand the next task to a free worker;                   *)
(*   Complete(i)    a worker finishes task i - in ANY order;               *)
(*   Deliver(i)     the pool's result iterator yields the value of task i  *)
(*                  and the client stores it at out[#delivered + 1].       *)
(* Two named environments (CONSTANT Env):                                  *)
(*   "imap"            contract of multiprocessing.Pool.imap: task i is    *)
(*                     delivered only when every j < i has been delivered  *)
(*                     (completed results are buffered meanwhile);          *)
(*   "imap_unordered"  contract of Pool.imap_unordered: any completed,     *)
(*                     undelivered task may be delivered next.             *)
(*                                                                         *)
(* What TLC checks, for every n in 1..MaxN, w in 1..MaxW (one initial      *)
(* state per pair) and EVERY schedule:                                     *)
(*   TypeOK, WorkerBound                                                   *)
(*   PrefixInOrder   out[k] = F(k) for every k delivered so far            *)
(*   ResultInOrder   at quiescence out = [i |-> F(i)]                      *)
(*   Terminates      <>(all delivered) under weak fairness of Next         *)
(* They hold for Env = "imap" (cfg PoolImap: MaxN = 4, MaxW = 3,           *)
(* exhaustive).  For Env = "imap_unordered" ResultInOrder is REFUTED (cfg   *)
(* PoolImap_unordered, kept as the non-vacuity witness: the invariant is   *)
(* a statement about the environment, not a tautology of the client).      *)
(*                                                                         *)
(* Binding.  With Record = TRUE the history variable hist records the      *)
(* schedule (every state is then a distinct schedule prefix) and           *)
(* EmitSchedule prints each complete schedule as                           *)
(*   <<"SCHED", ToJson([n, w, ev])>>,  ev[k] = i      Dispatch of task i   *)
(*                                             10 + i  Complete(i)         *)
(*                                             20 + i  Deliver(i)          *)
(* (cfgs PoolImap_sched, PoolImap_unordered_sched).  harness/checks/C14.py *)
(* drives a pool object from these schedules: results are computed in the  *)
(* order of the Complete events, delivered in the order of the Deliver     *)
(* events, and handed to the real misorientation_indices as pool=.         *)
(***************************************************************************)
EXTENDS Integers, Sequences, FiniteSets, TLC, Json

CONSTANTS MaxN,     \* stack lengths 1..MaxN
          MaxW,     \* worker counts 1..MaxW
          Env,      \* "imap" | "imap_unordered"
          Record    \* TRUE: keep the schedule in hist and emit it at quiescence

VARIABLES n, w,        \* stack length and worker count of this behaviour
          nextTask,    \* next task to dispatch
          running,     \* tasks in a worker
          done,        \* tasks whose result exists
          delivered,   \* sequence of task ids in delivery order
          out,         \* the client's result array (0 = not written)
          hist         \* schedule so far (only when Record)
vars == <<n, w, nextTask, running, done, delivered, out, hist>>

F(i) == 100 + i              \* abstract per-snapshot value; injective, never 0
Delivered == {delivered[k] : k \in 1..Len(delivered)}
Log(code) == hist' = IF Record THEN Append(hist, code) ELSE hist

Init == /\ n \in 1..MaxN
        /\ w \in 1..MaxW
        /\ nextTask = 1
        /\ running = {}
        /\ done = {}
        /\ delivered = <<>>
        /\ out = [k \in 1..n |-> 0]
        /\ hist = <<>>

Dispatch == /\ nextTask <= n
            /\ Cardinality(running) < w
            /\ running' = running \cup {nextTask}
            /\ nextTask' = nextTask + 1
            /\ Log(nextTask)
            /\ UNCHANGED <<n, w, done, delivered, out>>

Complete(i) == /\ i \in running
               /\ running' = running \ {i}
               /\ done' = done \cup {i}
               /\ Log(10 + i)
               /\ UNCHANGED <<n, w, nextTask, delivered, out>>

\* which task the pool's iterator may yield next
MayDeliver(i) == /\ i \in done \ Delivered
                 /\ CASE Env = "imap" -> i = Len(delivered) + 1
                      [] Env = "imap_unordered" -> TRUE

\* the client: enumerate() counter k = number of values received so far + 1
Deliver(i) == /\ MayDeliver(i)
              /\ delivered' = Append(delivered, i)
              /\ out' = [out EXCEPT ![Len(delivered) + 1] = F(i)]
              /\ Log(20 + i)
              /\ UNCHANGED <<n, w, nextTask, running, done>>

Next == Dispatch \/ (\E i \in 1..MaxN : Complete(i)) \/ (\E i \in 1..MaxN : Deliver(i))
Spec == Init /\ [][Next]_vars /\ WF_vars(Next)

Quiescent == Len(delivered) = n

TypeOK == /\ n \in 1..MaxN /\ w \in 1..MaxW
          /\ nextTask \in 1..(n + 1)
          /\ running \subseteq 1..(nextTask - 1)
          /\ done \subseteq 1..(nextTask - 1)
          /\ running \cap done = {}
          /\ running \cup done = 1..(nextTask - 1)
          /\ Delivered \subseteq done
          /\ Len(delivered) = Cardinality(Delivered)
WorkerBound == Cardinality(running) <= w
PrefixInOrder == \A k \in 1..Len(delivered) : out[k] = F(k)
ResultInOrder == Quiescent => out = [i \in 1..n |-> F(i)]
Terminates == <>Quiescent

EmitSchedule == (Record /\ Quiescent) => PrintT(<<"SCHED", ToJson([n |-> n, w |-> w, ev |-> hist])>>)
=============================================================================
