INIT TInit
NEXT TNext
INVARIANT RejectedNeverOk
INVARIANT UnsupportedRejected
INVARIANT TextureNeedsValidPair
INVARIANT NullOnlyViscosityBounds
INVARIANT Emit
CHECK_DEADLOCK FALSE
