SPECIFICATION Spec
CONSTANTS
  Sinks = {"s1", "s2", "s3"}
  Levels = {10, 20, 30, 40, 50}
  MaxDepth = 4
  MaxOps = 12
INVARIANT EmitAtEnd
CHECK_DEADLOCK FALSE
