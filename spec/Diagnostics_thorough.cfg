INIT GInit
NEXT GNext
CONSTANTS
  MaxN = 6
  LemmaN = 5
  FrameRots <- ThoroughRots
  FseRots <- SmallRots
  AuxSel <- AuxThorough
  Pats <- PatsAll
  StretchVals <- StretchThorough
  TanVals <- TanThorough
INVARIANT PgrSumOne
INVARIANT PgrBounds
INVARIANT PgrRatios
INVARIANT PgrScaleFree
INVARIANT TexRotations
INVARIANT TexPermutation
INVARIANT TexDiagonal
INVARIANT TexFrame
INVARIANT TexPermTwofold
INVARIANT TexGenerators
INVARIANT TexEigen
INVARIANT TexPgr
INVARIANT TexCoax
INVARIANT TexMeanUnit
INVARIANT FseInvertible
INVARIANT FseEigen
INVARIANT FseStretch
INVARIANT FseRight
INVARIANT FseLeft
INVARIANT ShearEigen
INVARIANT ShearLargest
INVARIANT ShearClosedForm
INVARIANT Emit
CHECK_DEADLOCK FALSE
